#!/usr/bin/env python3
"""Regenerates /verif/MANIFEST.json from the table below (one entry per claimed property)."""
import json
import os
import subprocess

ROOT = os.path.dirname(os.path.dirname(os.path.abspath(__file__)))

CHECKS = {
    "C11": dict(
        level="model_checking", ref="DESIGN.md §4 C11",
        text="TLA+ transcription of wsync.ComputeDiff model-checked exhaustively at small block sizes with a scaled data-op limit; the real differ is run on the same small input space (block size is a parameter) and on large random inputs, and TLC evaluates the abstract op-stream automaton (replay = source, bounds, merging, 4 MiB limit, leading-empty rule) on the ops the real code emitted; a seeded sample is stepped through the transcription to show that it predicts the real op list (drift).",
        note="MD5 collisions assumed away (strong hash = content equality); exhaustive only within the stated bounds; SHA-256 digests stand for byte equality at large scale; TLC and the JSON encoder are trusted.",
        technique="TLA+ model checking (TLC) + trace validation of real-code executions against the TLA+ op-stream automaton"),
    "C18": dict(
        level="model_checking", ref="DESIGN.md §4 C18",
        text="TLA+ model of drip.Writer + the validating pool's validate closure (error and wound mode) model-checked exhaustively at unit scale against the abstract caller-observable layer (DripProp); one witness walk per transition of the model's state graph is replayed on the real ValidatingPool and TLC evaluates DripProp after every recorded step of the real pool, plus byte-precise random slicings validated through digest facts.",
        note="1 unit = 64KiB/BS bytes of seeded random data per symbol; SHA-256 digests stand for byte equality; hash collisions not modelled except crafted weak-hash twins.",
        technique="TLA+ model checking (TLC) + model-generated walks replayed on the real pool + trace validation against the TLA+ property layer"),
    "C14": dict(
        level="model_checking", ref="DESIGN.md §4 C14",
        text="Scale-free TLA+ model of the overlay writer (bufio + per-window fresh/skip scan, flush, crash/resume sessions) model-checked exhaustively at W=4,T=1 over every content relation, write partition and flush/resume point; real writer sessions at the real constants (boundary run lengths, write sizes 1..>window, flushes, crashes with stale bytes) are decoded by an independent framing parser and TLC evaluates the abstract overlay-stream property (tiling, skips only over equal bytes, fresh payload = new bytes, exact checkpoints, patched+truncated result = new) on them and steps the model along the recorded acts (drift).",
        note="old-file reader returns full reads except at EOF; SHA-256 digests stand for byte equality; D runs differ in every byte.",
        technique="TLA+ model checking (TLC) + trace validation of real overlay sessions against the TLA+ overlay-stream property and model"),
    "C13": dict(
        level="model_checking", ref="DESIGN.md §4 C13",
        text="TLA+ model of the wire reader (offsets as framed sums, three-state save protocol, byte-granular and block-boundary sources, pop between messages, resume of a new reader with discard of Offset - sourceOffset, rewinding of the same reader with a save pending) model-checked exhaustively for short streams over every block-boundary placement; real write/read round trips over message-size classes x {none, gzip -2..9, brotli 0..11} with WantSave schedules, PopCheckpoint at every boundary and every popped checkpoint gob-round-tripped into a new reader; TLC evaluates the property on every recorded session and steps the model along it (source = logged environment).",
        note="payload equality via SHA-256 in the harness; the decompressors (savior gzip/brotli sources) are environment whose checkpoint offsets are bound from the log; ZSTD has no registered compressor.",
        technique="TLA+ model checking (TLC) + trace validation of real reader sessions against the TLA+ wire model"),
    "C12": dict(
        level="model_checking", ref="DESIGN.md §4 C12",
        text="Three TLA+ modules: the abstract automaton of bsdiff control series (absolute old offset, add = byte-wise sum mod 256, copy, seek, single final end-of-series, resume from a saved offset), the chunked LRU read cache with resets (model-checked; every short walk at a tiny geometry and one witness walk per transition replayed on the real lrufile at model scale comparing bytes, EOF, offsets and hit/miss counters) and the dispatcher/worker/collector pipeline of the scanner (order, no wedge, completion under fairness). The real bsdiff.Do runs on every small (old,new) x partitions and on random large pairs; TLC accepts or rejects each real series with the automaton (verbatim at small scale, digest facts at large scale) and compares the real applier's offset trajectory, output and resumptions.",
        note="SHA-256 digests stand for byte equality at large scale; suffix sorter and LRU library enter only through real executions; a crash of the real differ kills the driver and is reported from a marker file.",
        technique="TLA+ model checking (TLC) + model walks replayed on the real cache + trace validation of real control series against the TLA+ automaton"),
    "C01": dict(
        level="model_checking", ref="DESIGN.md §4 C01",
        text="TLA+ model of the patcher's per-file procedure with the fresh bowl, model-checked over every valid rsync op stream (anything the abstract op-stream layer accepts, not only what today's differ emits) for all small (olds,new): whole-file-op detection, range sizing from the old container, Prepare/truncate. Generated build pairs (size classes around block multiples, renames, duplications, aligned prefixes/suffixes, shared blocks, edits, inserts, deletes, swaps, weak-hash twins, > 4 MiB runs, empty files, symlinks, empty dirs) x compression settings go through the real WritePatch, an independent patch decoder with digest facts, and the real patcher + fresh bowl; TLC evaluates framing, reconstruction and entry-by-entry tree equality on every recorded application.",
        note="SHA-256 digests stand for byte equality; modes are not compared; pairs are sampled from VERIF_SEED (the quantifier is infinite).",
        technique="TLA+ model checking (TLC) + trace validation of real diff/apply executions against the TLA+ patch-stream property"),
    "C08": dict(
        level="model_checking", ref="DESIGN.md §4 C08",
        text="The literal TLA+ transcription of the differ is model-checked under idealised entropy (every old byte a distinct symbol, every introduced byte fresh - or, for the kinds owc/insc, a run of ONE repeated fresh symbol, which is what takes the differ's same-hash-as-before shortcut) over ALL edit scripts of up to 2 edits (overwrite/insert/delete, every offset and length) on multi-block files: fresh <= introduced + (2k+2)*BS, fresh + reused = |new|, identical => no data. The real WritePatch runs on builds of high-entropy content related by logged edit scripts (one edit in four introduces a run of one repeated byte), renames and duplications; the patch is decoded independently and TLC checks the per-file bound, zero fresh bytes for content-equal files, and that the differ's counters equal the sums over the patch and add up to the new build's size.",
        note="bound claimed for high-entropy content only; the model-to-code link is the zero-drift result of ./check C11.",
        technique="TLA+ model checking (TLC) over all small edit scripts + trace validation of real patches against the TLA+ accounting property"),
    "C17": dict(
        level="model_checking", ref="DESIGN.md §4 C17",
        text="TLA+ model of the patcher's stream state machine with whitelist skipping (end-marker recognition modelled as the code does it: protobuf field 1 of whatever message is read) model-checked over all patches of 3 files built from 6 series shapes (incl. bsdiff series targeting index 2049) x every whitelist. Real patcher runs with a recording bowl and a recording target pool on plain and optimized patches of generated build pairs (incl. an old build with > 2049 files) for every subset (<= 5 files) or seeded subsets; TLC checks no error, touched = |W|, bowl asked exactly for W, old files read only as the whitelisted series allow, whitelisted outputs identical to the new build.",
        note="SHA-256 digests stand for byte equality; non-whitelisted paths are not inspected.",
        technique="TLA+ model checking (TLC) + trace validation of real whitelisted applications against the TLA+ property"),
    "C03": dict(
        level="model_checking", ref="DESIGN.md §4 C03",
        text="TLA+ model of the patcher's stream state machine with the save protocol, stop, crash (writes after the checkpoint wholly or partly on disk) and resume into a new patcher from any checkpoint of the lineage, model-checked over all patches of NF files from 6 series shapes with up to 2 resumes (reader/source gap and overlay sessions are model-checked in C13/C14). Over the matrix {fresh, overlay} x {plain, optimized} x {none, gzip, brotli}: an always-save real run logs every checkpoint (gob-encoded at Save) and TLC checks each against the independently decoded message table, predicts the checkpoint boundaries of the byte-granular source (drift) and checks that checkpoints keep coming; real runs are stopped at checkpoint k+lag, lose unsynced suffixes, and are resumed from the gob-decoded checkpoint k in a brand-new patcher + bowl (with further stop/resume chains); the committed tree must equal the new build.",
        note="crash model: data before a checkpoint is durable, later files keep arbitrary prefixes; no crash during Commit; SHA-256 digests stand for byte equality.",
        technique="TLA+ model checking (TLC) + trace validation of real checkpoints and real crash/resume executions against the TLA+ property"),
    "C07": dict(
        level="model_checking", ref="DESIGN.md §4 C07",
        text="TLA+ model of the optimizer's target choice (reuse tally visited in any order, same-path tie rule, non-empty same-path fallback, size limits) and rewrite grammar, model-checked over all tallies; what a bsdiff series yields and how the patcher consumes both series kinds are decided by the C12 / C03 / C17 specifications. The real optimizer runs on patches of generated build pairs (incl. tiny files, files smaller than the partition count, empty/tiny old files, content mapped to a differently named file) under seeded partitions 0..16, concurrency, ForceMapAll, size limits and output compression; the optimized patch is decoded independently (control-automaton step equations + digest facts) and applied fresh and in place; TLC requires both results to equal what the original patch yields (= the new build), legal mappings, and no optimizer failure or crash.",
        note="SHA-256 digests stand for byte equality; a crash inside an optimizer goroutine kills the driver and is reported from a marker file.",
        technique="TLA+ model checking (TLC) + trace validation of real optimizer runs against the TLA+ patch-stream property"),
    "C02": dict(
        level="model_checking", ref="DESIGN.md §4 C02",
        text="TLA+ model of the overlay bowl's commit sub-phases over an abstract POSIX file system, with work lists derived from (old,new) as differ + patcher derive them and every order of the transposition map loops / unstable ghost sort, model-checked over all build pairs of a small path universe (62 500 pairs quick, 1.56 M thorough). The same universe is materialised and run through the real differ -> patcher -> overlay bowl with repeated commits (the whole universe in the thorough tier): TLC runs the commit model on each pair, every real outcome must be a terminal state of the model (conformance) and must be the new build with nothing left over (verdict), and the old build must be untouched right before Commit; real-scale generated scenarios (renames, swaps, chains, duplications, patched+renamed, grow/shrink, deleted dirs, symlink changes) are committed repeatedly and checked the same way.",
        note="POSIX semantics of this sandbox; case-insensitive file systems not exercised; pairs in which a path changes kind are known findings (known_findings.json) matched by (kind transitions, failure mode).",
        technique="TLA+ model checking (TLC) + real executions of the model's own universe validated against the TLA+ commit model and property"),
    "C04": dict(
        level="model_checking", ref="DESIGN.md §4 C04",
        text="TLA+ model of the signer's scanner (one-block buffer + split function) fed by a reader with arbitrarily short reads and of the read-back arithmetic (hash slots, short sizes, per-file groups), model-checked for all file sizes 0..10 units: emitted blocks are [BS]^k ++ tail, one empty block per empty file, and the read-back inverts it. Generated builds x every compression setting of the signature stream x short-reading source pools: the diff-time signature is read back by the real ReadSignature and compared block by block with the real stand-alone signer and an independent recomputation (TLC evaluates the rolling checksum of tiny files itself); ComputeHashInfo must partition the list; a pristine copy must validate with no wound and pass fail-fast validation.",
        note="MD5 digests compared byte-wise; the independent recomputation is the harness' own rolling-checksum + crypto/md5.",
        technique="TLA+ model checking (TLC) + trace validation of real signatures and validations against the TLA+ block arithmetic"),
    "C05": dict(
        level="model_checking", ref="DESIGN.md §4 C05",
        text="TLA+ model of the wounds the validator emits for one file (per-block verdicts in wound mode, wound aggregation, size-mismatch wound, flush at close) model-checked for every (signed, actual) over two symbols with 2-unit blocks: coverage of every differing offset below the signed length, length mismatch and any deviation reported, well-formed ranges, no false wound. The same kind of pairs at unit scale (1 unit = 32 KiB) goes through the real Validate with a wounds file and in fail-fast mode: TLC decides on the real wounds and compares them with the model's (drift); generated builds with damage sequences (flips at block edges, weak-hash twins, truncation incl. at block boundaries, extension within/across/beyond blocks, emptied, deleted, content where an empty file is expected, kind swaps, retargeted symlinks, combinations, damage only in the last file) are validated the same way with ground truth by comparison with the signed build.",
        note="ground truth by byte comparison in the harness; hash collisions other than crafted weak-hash twins not modelled; subtree-hiding kind swaps belong to C06.",
        technique="TLA+ model checking (TLC) + trace validation of real validator runs against the TLA+ wound model and property"),
    "C09": dict(
        level="model_checking", ref="DESIGN.md §4 C09",
        text="TLA+ model of the safekeeper's validate-then-read reader (per-block verdict cache, comparison of the signed block size, end-of-file handling) with its three consumers (copy until EOF, block-range copy through a limit reader, one cache chunk read in the middle of a block) under both kinds of inner pool (EOF on a read of its own / together with the last bytes), model-checked for every (signed, actual) of one old file: result = error or output = expected, undamaged => accepted. The same cases at unit scale go through the real safekeeper along the real consumers' code paths (TLC decides on the real outcome and compares it with the model's); (patch, damage) pairs - plain and optimized patches of generated build pairs, old build flipped / truncated (also at block boundaries, to nothing) / extended (inside the last block, past it) / files deleted / empty files filled / weak-hash twins - are applied with the fresh bowl through the safekeeper: either an error or exactly the new build, and an undamaged old build is accepted.",
        note="scope: fresh bowl; SHA-256 digests stand for byte equality; hash collisions other than crafted weak-hash twins not modelled.",
        technique="TLA+ model checking (TLC) + trace validation of real safekeeper reads and applications against the TLA+ reader model and property"),
    "C16": dict(
        level="model_checking", ref="DESIGN.md §4 C16",
        text="TLA+ model of the goroutine protocol of Validate (main, worker, consumer goroutine, the five channels, environment cancel; one action per channel operation) swept in one TLC run over the product of its parameters (0..3 files x every damage pattern, dir wounds, channel capacity 1..2 with more wounds than capacity, consumers guardian/printer/failing-after-n, cancellation): no deadlock, <>returned and <>[]all goroutines done under weak fairness, nil from fail-fast validation => nothing damaged. The real Validate runs with hooks (-tags verif) under damage patterns (incl. > 1024 wounds with a consumer slower than the worker, damage only in the last file), four consumers, cancellation instants chosen through the hooks (before start, when main is about to dispatch file i, when the worker finished file i, after the last dispatch, asynchronous), seeded jitter and GOMAXPROCS 1..16: TLC checks that it returns, leaves no goroutine, and returns nil only for a matching directory; per-goroutine logs of free runs are validated against the protocol model (each role's log in program order under any interleaving, silent unlogged actions).",
        note="termination observed with a 10 s deadline per run; goroutine leaks through runtime.NumGoroutine; per-file wounds abstracted to one marker in the model.",
        technique="TLA+ model checking incl. liveness (TLC) + trace validation of per-goroutine logs and outcomes of the real validator against the TLA+ protocol"),
    "C06": dict(
        level="model_checking", ref="DESIGN.md §4 C06",
        text="TLA+ model of validation + archive healing (validator pass dirs -> symlinks -> files, FIFO wound channel, the healer's wound loop and heal goroutine, all interleaved) over an abstract POSIX tree with ENOENT/ENOTDIR resolution and MkdirAll/RemoveAll semantics, model-checked for a tree with nested directories, two files and a symlink over EVERY well-formed damaged disk (426) and every interleaving: Validate returns nil and the disk equals the signed build. The real Validate with an archive healer runs with hooks under seeded jitter and GOMAXPROCS 1..16 on all 426 disks of the model's tree and on generated builds with damage sequences plus kind swaps that hide whole subtrees, missing / empty directories and already valid directories; TLC checks: returns, no error, entry-by-entry equality with the signed build, fail-fast validation passes afterwards, a valid directory is left untouched (inode, mtime, size, mode), no goroutine left.",
        note="archive = zip written by the harness; real interleavings sampled by jitter (all interleavings in the model only); symlinked ancestors abstracted in the model.",
        technique="TLA+ model checking (TLC) + real heals of the model's own universe and of generated damage validated against the TLA+ property"),
    "C19": dict(
        level="model_checking", ref="DESIGN.md §4 C19",
        text="TLA+ model of the zip extraction worker pool (rendezvous dispatch, resume register, crash at any step, restart with the surviving folder and resume file) model-checked for 2..3 workers, 3..4 entries and 1..2 crashes: after the final run every entry is complete. Real CompressZip/ExtractZip with 1, 2, 3, 4, 8, 16 and -1 workers and CompressTar/ExtractTar on trees with nested and empty dirs, empty files, symlinks and many small files: TLC checks tree equality and that the reported counts equal the entries; resumable extractions are killed at chosen instants (resume file, then a copy of the destination folder, taken from inside OnEntryDone while the other workers keep running; reads of a large first entry slowed down so that later entries complete first) and restarted with the surviving resume file - the tree must be complete; a -race build repeats a subset and race reports with archiver frames are reported.",
        note="kill = (resume file read first, then folder copy), at least as complete as the folder at the read; tar: round trip only.",
        technique="TLA+ model checking (TLC) + trace validation of real round trips and kill/restart executions against the TLA+ property; Go race detector for the counter clause"),
    "C10": dict(
        level="model_checking", ref="DESIGN.md §4 C10",
        text="TLA+ model of the stream readers at wire level (Malformed.tla: protobuf field -> value, a message is decoded as whatever the reader expects next; one action per ReadMessage of patcher.Resume/skipFile/processRsync/processBsdiff, rediff analyzePatch+Optimize, ReadSignature+ComputeHashInfo, overlay Patch; every subscript taken with a value from the stream is an explicit precondition) model-checked over all single (thorough: double) mutations of a plain and an optimized patch, a signature and an overlay stream - every field to {-1, 0, 1, n-1, n, huge, foreign type codes}, dropped and duplicated messages incl. end markers - times every truncation point: no panic state, every step consumes a message or ends. Every input TLC explored is serialised with the real wire writer (uncompressed, gzip, brotli) and run through the real readers (fresh bowl, overlay bowl, empty whitelist, optimizer, signature, overlay) under recover() and a watchdog; seeded multi-mutations with extreme values over universes from the real differ/optimizer and every byte truncation of the valid streams are recorded too; TLC runs the machine on each recorded message table: the real reader must return (error or completion), and the model's error/completed prediction is compared (drift).",
        note="exempt as the property says: malformed containers, message lengths beyond the stream; a hang is a 60 s watchdog expiry.",
        technique="TLA+ model checking (TLC) + replay of every model-explored input on the real readers + trace validation of recorded executions against the TLA+ reader machines"),
    "C15": dict(
        level="model_checking", ref="DESIGN.md §4 C15",
        text="TLA+ model of the per-file diff pipeline (multiread over two io.Pipes fed by an upstream with arbitrarily short reads, diff and sign consumers, task group) model-checked over every chunking of a short stream and every interleaving: each consumer receives the whole stream in order (its output is a function of the bytes only), no wedge, the group returns only after all three tasks, completion under fairness; the optimizer's target choice with the tally visited in any order is a function of the input (Rediff.tla); the bsdiff scanner pipeline forwards matches in block order (BsdiffPipe.tla). Each build pair (incl. ties between differently named old files) is diffed R times under GOMAXPROCS 1..16 with seeded short reads / yields and its patch optimized R times: TLC requires equal patch, signature and optimized digests. The race-freedom clause is decided by a -race build of the same driver (reports with a wharf frame).",
        note="race clause: Go race detector on the recorded executions, attributed to wharf by stack frames; real schedules are sampled.",
        technique="TLA+ model checking incl. liveness (TLC) + trace validation of repeated real runs against the TLA+ determinism property; Go race detector for the race clause"),
}

NOT_YET = "check not built yet in this round (planned: DESIGN.md §4); not a claim that the technique cannot apply"
NOT_APPLICABLE = {}


def main():
    props = [json.loads(l)["id"] for l in open(os.path.join(ROOT, "properties.jsonl"))]
    hooks = []
    try:
        out = subprocess.run(["git", "-C", "/repo", "log", "--format=%h %s"], stdout=subprocess.PIPE, text=True).stdout
        hooks = [l.split()[0] for l in out.splitlines() if l.split(" ", 1)[1].startswith("verif hook")]
    except Exception:
        pass
    m = {
        "version": 1,
        "setup_cmd": "./check setup",
        "hooks": {"guard": "verif", "enable": "go build -tags verif (the harness builds /repo's working tree through a replace directive)",
                  "baseline_off_cmd": "cd /repo && go test -mod=mod -vet=off -count=1 -timeout 25m ./...",
                  "source_commits": hooks, "add_only": True},
        "engines": [
            {"name": "tlc", "path": "/opt/veriftools/tla/tla2tools.jar", "serves_properties": sorted(CHECKS),
             "kind_free_text": "explicit-state model checker for the TLA+ specifications under /verif/spec (exhaustive MC, trace validation, transition witnesses)"},
            {"name": "vdriver", "path": "/verif/harness/cmd/vdriver", "serves_properties": sorted(CHECKS),
             "kind_free_text": "Go conformance harness: drives/records the real code built from /repo's working tree (-tags verif)"}],
        "checks": [],
        "not_applicable": [],
        "notes": "Every verdict is a TLA+ property evaluated by TLC on behaviour recorded from the real code; model-only counterexamples are never reported as violations. See DESIGN.md.",
    }
    for p in props:
        if p in CHECKS:
            c = CHECKS[p]
            m["checks"].append({
                "property_id": p,
                "quick_cmd": "./check %s --tier quick" % p,
                "thorough_cmd": "./check %s --tier thorough" % p,
                "evidence_file": "/verif/evidence/%s.json" % p,
                "replay_cmd_template": "./check %s --replay {path}" % p,
                "engine": "tlc",
                "level_claimed": {"category": c["level"], "text": c["text"], "design_ref": c["ref"]},
                "level_note": c["note"],
                "technique": c["technique"],
            })
        else:
            m["not_applicable"].append({"property_id": p, "reason": NOT_APPLICABLE.get(p, NOT_YET)})
    json.dump(m, open(os.path.join(ROOT, "MANIFEST.json"), "w"), indent=1)
    print("MANIFEST.json: %d checks, %d not_applicable" % (len(m["checks"]), len(m["not_applicable"])))


if __name__ == "__main__":
    main()
