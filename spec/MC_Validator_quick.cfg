SPECIFICATION Spec
CONSTANTS
  MaxFiles = 3
  MaxDirWounds = 1
  Ks = {1, 2}
  Consumers = {"guardian", "printer", "failing"}
  FailAfters = {1, 2}
  Fixed = TRUE
  Configs <- MCConfigs
INVARIANTS NoFalseValid NoDeadlock
PROPERTIES Returns NoLeak
CHECK_DEADLOCK FALSE
