SPECIFICATION Spec
CONSTANTS
  BS = 4
  Alphabet = {0, 1}
  MaxLen = 5
  MaxWrite = 5
  Modes = {"error", "wound"}
  Latch = TRUE
ACTION_CONSTRAINT EmitEdge
VIEW View
CHECK_DEADLOCK FALSE
