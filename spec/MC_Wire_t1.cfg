SPECIFICATION Spec
CONSTANTS
  MaxMsgs = 4
  MaxLen = 2
  SrcKinds = {"byte", "block"}
INVARIANTS CheckpointsExact InOrder OffsetIsFramedSum
CONSTRAINT Bound
CHECK_DEADLOCK TRUE
