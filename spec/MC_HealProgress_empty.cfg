\* builds that may consist of empty files only: ProgressDefined is EXPECTED to fail (0/0 is reported
\* when an empty file is missing or has grown)
SPECIFICATION Spec
CONSTANTS
  BS = 2
  NFiles = 2
  MaxSize = 1
  MaxExtra = 1
  Kinds = {"ok", "long", "missing"}
INVARIANTS ProgressDefined
CHECK_DEADLOCK FALSE
