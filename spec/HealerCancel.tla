---------------------------- MODULE HealerCancel ----------------------------
(* The channel protocol between ArchiveHealer.Do (the wound consumer of        *)
(* Validate when HealPath is set) and its heal goroutine, under cancellation   *)
(* (pwr/archive_healer.go). Part of C16: "validation returns ... whichever     *)
(* consumer is used ... the context is cancelled at any moment".               *)
(*                                                                             *)
(*   Do:   for wound := range wounds {                                         *)
(*            if ctx.Done() { return ErrCancelled }             -- "top"       *)
(*            processWound: select { err := <-errs: return WithStack(err)      *)
(*                                   fileIndices <- index }     -- "select"    *)
(*         }                                                                   *)
(*         close(fileIndices); err := <-errs; return err        -- "final"     *)
(*   heal: for { select { <-ctx.Done(): return nil                             *)
(*                        i, ok := <-fileIndices: if !ok {return nil}; healOne }}*)
(*         its single result goes to errs (capacity 1).                        *)
(* errors.WithStack(nil) is nil: as found, a nil taken from errs inside        *)
(* processWound makes Do carry on although the heal goroutine is gone, and if  *)
(* that was the last wound Do waits on errs for ever. Repaired = TRUE: a nil   *)
(* taken there is reported as ErrCancelled.                                    *)
EXTENDS Integers, Sequences, FiniteSets, TLC
CONSTANTS NW,        \* number of FILE wounds that will arrive (distinct files)
          Repaired
VARIABLES cancelled, \* ctx
          dpc,       \* Do: "top" | "select" | "final" | "ret"
          wi,        \* wounds consumed
          queue,     \* fileIndices (buffered, capacity = number of files): number of queued indices
          closedFI,
          hpc,       \* heal goroutine: "idle" | "healing" | "gone"
          errs,      \* errs channel: "empty" | "nil"
          ret        \* what Do returned: "none" | "nil" | "cancelled"
vars == <<cancelled, dpc, wi, queue, closedFI, hpc, errs, ret>>
Init == cancelled = FALSE /\ dpc = "top" /\ wi = 0 /\ queue = 0 /\ closedFI = FALSE /\ hpc = "idle" /\ errs = "empty" /\ ret = "none"
Cancel == ~cancelled /\ cancelled' = TRUE /\ UNCHANGED <<dpc, wi, queue, closedFI, hpc, errs, ret>>
\* Do: next wound (or the wounds channel is closed)
DTop == /\ dpc = "top"
        /\ IF wi = NW THEN dpc' = "final" /\ closedFI' = TRUE /\ UNCHANGED <<wi, ret>>
           ELSE IF cancelled THEN dpc' = "ret" /\ ret' = "cancelled" /\ UNCHANGED <<wi, closedFI>>
           ELSE dpc' = "select" /\ wi' = wi + 1 /\ UNCHANGED <<closedFI, ret>>
        /\ UNCHANGED <<cancelled, queue, hpc, errs>>
\* processWound's select: both cases may be ready
DSelSend == /\ dpc = "select" /\ queue' = queue + 1 /\ dpc' = "top"
            /\ UNCHANGED <<cancelled, wi, closedFI, hpc, errs, ret>>
DSelErr == /\ dpc = "select" /\ errs = "nil" /\ errs' = "empty"
           /\ IF Repaired THEN dpc' = "ret" /\ ret' = "cancelled" ELSE dpc' = "top" /\ UNCHANGED ret
           /\ UNCHANGED <<cancelled, wi, queue, closedFI, hpc>>
DFinal == /\ dpc = "final" /\ errs = "nil" /\ errs' = "empty" /\ dpc' = "ret" /\ ret' = "nil"
          /\ UNCHANGED <<cancelled, wi, queue, closedFI, hpc>>
\* heal goroutine
HTake == /\ hpc = "idle" /\ queue > 0 /\ queue' = queue - 1 /\ hpc' = "healing"
         /\ UNCHANGED <<cancelled, dpc, wi, closedFI, errs, ret>>
HDone == /\ hpc = "healing" /\ hpc' = "idle" /\ UNCHANGED <<cancelled, dpc, wi, queue, closedFI, errs, ret>>
HStop == /\ hpc = "idle" /\ (cancelled \/ (closedFI /\ queue = 0))
         /\ errs = "empty" /\ errs' = "nil" /\ hpc' = "gone"
         /\ UNCHANGED <<cancelled, dpc, wi, queue, closedFI, ret>>
Terminating == dpc = "ret" /\ UNCHANGED vars
Next == Cancel \/ DTop \/ DSelSend \/ DSelErr \/ DFinal \/ HTake \/ HDone \/ HStop \/ Terminating
Fair == WF_vars(DTop) /\ WF_vars(DSelSend) /\ WF_vars(DFinal) /\ WF_vars(HTake) /\ WF_vars(HDone) /\ WF_vars(HStop)
Spec == Init /\ [][Next]_vars /\ Fair
(* C16 for the healing consumer *)
DoReturns == <>(dpc = "ret")
NoWedge == dpc = "ret" \/ ENABLED (DTop \/ DSelSend \/ DSelErr \/ DFinal \/ HTake \/ HDone \/ HStop)
\* without a cancellation a nil result means every wounded file was queued and healed (after a cancellation Do
\* may still return nil: Validate's own final check of the context turns that into ErrCancelled)
NilMeansAllHealed == (ret = "nil" /\ ~cancelled) => (wi = NW /\ queue = 0 /\ hpc = "gone")
=============================================================================
