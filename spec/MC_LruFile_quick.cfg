SPECIFICATION MCSpec
CONSTANTS
  CS = 2
  NE = 2
  MaxLen = 5
  Alphabet = {0, 1}
  MaxOps = 4
INVARIANTS LastIsPlain Capacity
VIEW View
CHECK_DEADLOCK TRUE
