SPECIFICATION Spec
CONSTANTS
  Top = {"a", "b"}
  Contents = {"c1", "c2"}
INVARIANTS ResultIsNewNoKind NeverFailsNoKind
CHECK_DEADLOCK TRUE
