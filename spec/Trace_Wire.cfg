SPECIFICATION TSpec
CONSTANTS
  MaxMsgs = 0
  MaxLen = 0
  SrcKinds = {"logged"}
INVARIANTS Report ReportDrift Stats SpecInvariants
CHECK_DEADLOCK TRUE
