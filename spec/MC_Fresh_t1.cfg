SPECIFICATION FSpec
CONSTANTS
  BSs = {2, 3, 4}
  Alphabet = {0}
  NOld = 1
  MaxOld = 0
  MaxNew = 0
  MaxData = 64
  NBlocks = 5
  TailLen = 1
  K = 2
  MaxEdit = 4
INVARIANTS Bound AddsUp IdenticalIsFree Reconstructs
CHECK_DEADLOCK TRUE
