SPECIFICATION Spec
CONSTANTS
  N = 7
  BufA = 3
  BufB = 2
INVARIANTS Prefixes WholeStream GroupAfterAll NoWedge
PROPERTY Completes
CHECK_DEADLOCK FALSE
