SPECIFICATION Spec
INVARIANTS Report ReportDrift Stats
CHECK_DEADLOCK FALSE
