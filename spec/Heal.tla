-------------------------------- MODULE Heal --------------------------------
(* ValidatorContext.Validate with an ArchiveHealer (pwr/validator.go, pwr/archive_healer.go) *)
(* over an abstract POSIX tree: the validator pass (dirs, symlinks, files), the wound channel, *)
(* the healer's wound loop and its heal goroutine run concurrently. Prototype for C06.        *)
EXTENDS Integers, Sequences, FiniteSets, TLC
CONSTANTS Paths, Parent, Expect, DirOrder, SymOrder, FileOrder,
          Repaired,   \* TRUE: the validator treats ENOTDIR (a non-directory where a parent directory is expected) like a missing entry
          Repaired2   \* TRUE: the validator does not look below a directory entry it found to be a non-directory
\* entry on disk: <<kind, good>>; kind in none/dir/file/sym/symdir; good = content (file) or destination (sym) as signed.
\* "symdir" = a symlink that RESOLVES to a directory elsewhere holding a healthy copy of everything the build has below
\* this path (a folder moved to another disk and linked back): lookups below it succeed and look healthy, changes made
\* below it land in that other directory - nothing of it is part of the build directory.
None == <<"none", TRUE>>
Kinds == {None, <<"dir", TRUE>>, <<"file", TRUE>>, <<"file", FALSE>>, <<"sym", TRUE>>, <<"sym", FALSE>>, <<"symdir", TRUE>>}
Root == "/"
RECURSIVE Ancestors(_)
Ancestors(p) == IF Parent[p] = Root THEN {} ELSE {Parent[p]} \cup Ancestors(Parent[p])
WellFormed(g) == \A p \in Paths : g[p] # None => \A a \in Ancestors(p) : g[a][1] = "dir"
Children(p) == {q \in Paths : p \in Ancestors(q)}
VARIABLES fs, vpc, vi,          \* disk; validator phase ("dirs","syms","files","wait","ret") and index
          wounds, closed,       \* wound channel (FIFO) and whether the validator closed it
          hq, hqClosed, hdone,  \* heal queue (file paths), closed flag, heal goroutine finished
          hpc, queued,          \* healer loop: "loop" | "join" | "done"; files already queued
          ret,                  \* "none" | "nil" | "err"
          broken                \* validator: directory entries it found to be something else (file, symlink)
vars == <<fs,vpc,vi,wounds,closed,hq,hqClosed,hdone,hpc,queued,ret,broken>>
Init == /\ fs \in {g \in [Paths -> Kinds] : WellFormed(g) /\ \A p \in Paths : g[p][1] = "symdir" => Expect[p] = "dir"}
        /\ broken = {}
        /\ vpc = "dirs" /\ vi = 1 /\ wounds = <<>> /\ closed = FALSE
        /\ hq = <<>> /\ hqClosed = FALSE /\ hdone = FALSE /\ hpc = "loop" /\ queued = {} /\ ret = "none"
(* ---- POSIX-ish primitives ---- *)
\* lstat / open / readlink resolve the parent chain first
\* (a dangling / non-directory symlink as an ancestor is ENOTDIR here; one that resolves to a directory is followed)
Resolve(g, p) == IF \E a \in Ancestors(p) : g[a][1] \in {"file", "sym"} THEN "enotdir"
                 ELSE IF \E a \in Ancestors(p) : g[a][1] = "symdir" THEN "through"        \* healthy copy seen through the link
                 ELSE IF \E a \in Ancestors(p) : g[a][1] = "none" THEN "enoent"
                 ELSE IF g[p][1] = "none" THEN "enoent" ELSE "ok"
Through(g, p) == Resolve(g, p) = "through"
UnderBroken(p) == Repaired2 /\ Ancestors(p) \cap broken # {}
Wipe(g, p) == [q \in Paths |-> IF q = p \/ q \in Children(p) THEN None ELSE g[q]]
\* os.MkdirAll(p): fails iff p or an ancestor exists and is not a directory
\* (through a link that resolves to a directory MkdirAll succeeds and creates nothing in the build directory)
MkdirAllOK(g, p) == \A a \in Ancestors(p) \cup {p} : g[a][1] \in {"none", "dir", "symdir"}
MkdirAll(g, p) == IF \E a \in Ancestors(p) \cup {p} : g[a][1] = "symdir" THEN g
                  ELSE [q \in Paths |-> IF q \in Ancestors(p) \cup {p} THEN <<"dir", TRUE>> ELSE g[q]]
(* ---- validator pass (main goroutine + worker, sequential) ---- *)
Send(w) == wounds' = Append(wounds, w)
Fail == ret' = "err" /\ vpc' = "ret"
VDir == /\ vpc = "dirs" /\ vi <= Len(DirOrder) /\ ret = "none"
        /\ LET p == DirOrder[vi] r == Resolve(fs, p) IN
           IF UnderBroken(p) THEN Send(<<"DIR", p>>) /\ vi' = vi + 1 /\ UNCHANGED <<vpc, ret, broken>>
           ELSE IF r = "enotdir" /\ ~Repaired THEN Fail /\ UNCHANGED <<vi, wounds, broken>>                     \* `return err`
           ELSE /\ (IF r \in {"enoent", "enotdir"} \/ (r = "ok" /\ fs[p][1] # "dir") THEN Send(<<"DIR", p>>) ELSE UNCHANGED wounds)
                /\ broken' = IF r = "ok" /\ fs[p][1] \notin {"dir", "none"} THEN broken \cup {p} ELSE broken
                /\ vi' = vi + 1 /\ UNCHANGED <<vpc, ret>>
        /\ UNCHANGED <<fs,closed,hq,hqClosed,hdone,hpc,queued>>
VDirsDone == /\ vpc = "dirs" /\ vi > Len(DirOrder) /\ vpc' = "syms" /\ vi' = 1
             /\ UNCHANGED <<fs,wounds,closed,hq,hqClosed,hdone,hpc,queued,ret,broken>>
VSym == /\ vpc = "syms" /\ vi <= Len(SymOrder) /\ ret = "none"
        /\ LET p == SymOrder[vi] r == Resolve(fs, p) IN
           IF UnderBroken(p) THEN Send(<<"SYM", p>>) /\ vi' = vi + 1 /\ UNCHANGED <<vpc, ret>>
           ELSE IF r = "enotdir" /\ ~Repaired THEN Fail /\ UNCHANGED <<vi, wounds>>                             \* Readlink: not IsNotExist
           ELSE /\ (IF r \in {"enoent", "enotdir"} \/ (r = "ok" /\ fs[p] # <<"sym", TRUE>>) THEN Send(<<"SYM", p>>) ELSE UNCHANGED wounds)
                /\ vi' = vi + 1 /\ UNCHANGED <<vpc, ret>>
        /\ UNCHANGED <<fs,closed,hq,hqClosed,hdone,hpc,queued,broken>>
VSymsDone == /\ vpc = "syms" /\ vi > Len(SymOrder) /\ vpc' = "files" /\ vi' = 1
             /\ UNCHANGED <<fs,wounds,closed,hq,hqClosed,hdone,hpc,queued,ret,broken>>
\* any stat/open problem is a whole-file wound; bad content is a wound; good content a healthy marker (not modelled)
VFile == /\ vpc = "files" /\ vi <= Len(FileOrder)
         /\ LET p == FileOrder[vi] IN
            (IF UnderBroken(p) \/ Resolve(fs, p) \in {"enoent", "enotdir"} \/ (Resolve(fs, p) = "ok" /\ fs[p] # <<"file", TRUE>>)
             THEN Send(<<"FILE", p>>) ELSE UNCHANGED wounds)                 \* (seen through a link: the healthy copy)
         /\ vi' = vi + 1 /\ UNCHANGED <<fs,vpc,closed,hq,hqClosed,hdone,hpc,queued,ret,broken>>
VFilesDone == /\ vpc = "files" /\ vi > Len(FileOrder) /\ closed' = TRUE /\ vpc' = "wait"
              /\ UNCHANGED <<fs,vi,wounds,hq,hqClosed,hdone,hpc,queued,ret,broken>>
VReturn == /\ vpc = "wait" /\ hpc \in {"done", "failed"}
           /\ ret' = (IF hpc = "failed" THEN "err" ELSE "nil") /\ vpc' = "ret"
           /\ UNCHANGED <<fs,vi,wounds,closed,hq,hqClosed,hdone,hpc,queued,broken>>
(* ---- healer: processWound in channel order ---- *)
HWound == /\ hpc = "loop" /\ wounds # <<>>
          /\ LET w == Head(wounds) p == w[2] IN
             /\ wounds' = Tail(wounds)
             /\ CASE w[1] = "DIR" ->
                       LET g1 == IF Resolve(fs, p) = "ok" /\ fs[p][1] # "dir" THEN Wipe(fs, p) ELSE fs IN   \* os.Remove(non-dir)
                       IF (Resolve(fs, p) = "ok" /\ fs[p][1] = "dir") \/ Through(fs, p) THEN UNCHANGED <<fs,hpc,hq,queued>>
                       ELSE IF MkdirAllOK(g1, p) THEN fs' = MkdirAll(g1, p) /\ UNCHANGED <<hpc,hq,queued>>
                       ELSE fs' = g1 /\ hpc' = "failed" /\ UNCHANGED <<hq,queued>>
                  [] w[1] = "SYM" ->
                       IF Through(fs, p) THEN UNCHANGED <<fs,hpc,hq,queued>>                                     \* re-created inside the other directory
                       ELSE IF Parent[p] # Root /\ ~MkdirAllOK(fs, Parent[p]) THEN hpc' = "failed" /\ UNCHANGED <<fs,hq,queued>>
                       ELSE LET g1 == IF Parent[p] = Root THEN fs ELSE MkdirAll(fs, Parent[p])
                                g2 == Wipe(g1, p)                                                            \* RemoveAll(dir) / Remove(other)
                            IN fs' = [g2 EXCEPT ![p] = <<"sym", TRUE>>] /\ UNCHANGED <<hpc,hq,queued>>
                  [] w[1] = "FILE" ->
                       IF p \in queued THEN UNCHANGED <<fs,hpc,hq,queued>>
                       ELSE hq' = Append(hq, p) /\ queued' = queued \cup {p} /\ UNCHANGED <<fs,hpc>>
          /\ UNCHANGED <<vpc,vi,closed,hqClosed,hdone,ret,broken>>
HWoundsClosed == /\ hpc = "loop" /\ wounds = <<>> /\ closed /\ hqClosed' = TRUE /\ hpc' = "join"
                 /\ UNCHANGED <<fs,vpc,vi,wounds,closed,hq,hdone,queued,ret,broken>>
HJoin == /\ hpc = "join" /\ hdone /\ hpc' = "done"
         /\ UNCHANGED <<fs,vpc,vi,wounds,closed,hq,hqClosed,hdone,queued,ret,broken>>
(* ---- heal goroutine: healOne = fspool.GetWriter (MkdirAll parent, replace dir/symlink, create+truncate) + copy ---- *)
HealOne == /\ ~hdone /\ hq # <<>> /\ hpc # "failed"
           /\ LET p == Head(hq) IN
              /\ hq' = Tail(hq)
              /\ IF Through(fs, p) THEN UNCHANGED <<fs, hpc>>                                                   \* written into the other directory
                 ELSE IF Parent[p] # Root /\ ~MkdirAllOK(fs, Parent[p]) THEN hpc' = "failed" /\ UNCHANGED fs
                 ELSE LET g1 == IF Parent[p] = Root THEN fs ELSE MkdirAll(fs, Parent[p]) IN
                      fs' = [Wipe(g1, p) EXCEPT ![p] = <<"file", TRUE>>] /\ UNCHANGED hpc
           /\ UNCHANGED <<vpc,vi,wounds,closed,hqClosed,hdone,queued,ret,broken>>
HealExit == /\ ~hdone /\ hq = <<>> /\ hqClosed /\ hdone' = TRUE
            /\ UNCHANGED <<fs,vpc,vi,wounds,closed,hq,hqClosed,hpc,queued,ret,broken>>
Next == VDir \/ VDirsDone \/ VSym \/ VSymsDone \/ VFile \/ VFilesDone \/ VReturn
        \/ HWound \/ HWoundsClosed \/ HJoin \/ HealOne \/ HealExit
Terminating == vpc = "ret" /\ UNCHANGED vars
Spec == Init /\ [][Next \/ Terminating]_vars
(* ---- C06 ---- *)
Signed == [p \in Paths |-> <<Expect[p], TRUE>>]
HealsEverything == vpc = "ret" => (ret = "nil" /\ fs = Signed)
\* the same property for damage that does not put a non-directory where a directory is expected
NoDirSwap(g) == \A p \in Paths : Expect[p] = "dir" => g[p][1] \in {"dir", "none"}
\* (how many disks: reported by the check)
NoSymDir(g) == \A p \in Paths : g[p][1] # "symdir"
=============================================================================
