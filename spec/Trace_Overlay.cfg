SPECIFICATION TSpec
CONSTANTS
  Top = {"a", "b"}
  Contents = {"c1", "c2", "garbage"}
INVARIANTS Report Fin
CHECK_DEADLOCK TRUE
