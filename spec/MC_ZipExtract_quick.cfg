SPECIFICATION Spec
CONSTANTS
  NW = 2
  NE = 3
  MaxCrashes = 1
  Repaired = TRUE
INVARIANT CompleteTree
CHECK_DEADLOCK TRUE
