SPECIFICATION Spec
INVARIANTS Report ReportDrift
CHECK_DEADLOCK FALSE
