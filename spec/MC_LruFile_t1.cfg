SPECIFICATION MCSpec
CONSTANTS
  CS = 3
  NE = 2
  MaxLen = 7
  Alphabet = {0, 1}
  MaxOps = 4
INVARIANTS LastIsPlain Capacity
VIEW View
CHECK_DEADLOCK TRUE
