SPECIFICATION Spec
CONSTANTS
  SB = 2
  BB = 4
  OldSizes <- MC_OldSizes
  MaxOps = 3
  MaxData = 5
INVARIANTS PropertyHoldsOnFullBlocks
CHECK_DEADLOCK FALSE
