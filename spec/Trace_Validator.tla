--------------------------- MODULE Trace_Validator ---------------------------
(* Trace validation for C05 at tree level: a valid copy of a generated build  *)
(* received a sequence of damages; the ground truth (per file: kind on disk,  *)
(* length, maximal differing ranges; per directory / symlink: what is there)  *)
(* was established by comparison with the signed build; the REAL Validate ran *)
(* with a wounds file and in fail-fast mode.                                  *)
EXTENDS Integers, Sequences, FiniteSets, Json, TLC
T == ndJsonDeserialize("trace.ndjson")
VARIABLE l
Init == l \in 1..Len(T)
Next == UNCHANGED l
Spec == Init /\ [][Next]_l
FileWoundsOf(c, i) == {k \in 1..Len(c.wounds) : c.wounds[k].kind = "FILE" /\ c.wounds[k].index = i}
Covered(c, i, s, e) ==        \* [s,e) lies inside the union of the wounds of file i (wounds are few: check by endpoints)
  \A o \in {s, e - 1} \cup {c.wounds[k].start : k \in FileWoundsOf(c, i)} \cup {c.wounds[k].end - 1 : k \in FileWoundsOf(c, i)} \cup {c.wounds[k].end : k \in FileWoundsOf(c, i)} :
      (o >= s /\ o < e) => \E k \in FileWoundsOf(c, i) : c.wounds[k].start <= o /\ o < c.wounds[k].end
FileViol(c, f) ==
     (IF f.ondisk = "file" /\ \E d \in 1..Len(f.diffs) : ~Covered(c, f.index, f.diffs[d][1], f.diffs[d][2]) THEN {"EveryDifferingOffsetInAWound"} ELSE {})
\cup (IF f.ondisk = "file" /\ f.actual # f.signed /\ FileWoundsOf(c, f.index) = {} THEN {"LengthMismatchReported"} ELSE {})
\cup (IF f.ondisk # "file" /\ FileWoundsOf(c, f.index) = {} THEN {"MissingOrWrongKindFileReported"} ELSE {})
\cup (IF f.ondisk = "file" /\ f.actual = f.signed /\ f.diffs = <<>> /\ FileWoundsOf(c, f.index) # {} THEN {"NoWoundOnIntactFile"} ELSE {})
DirViol(c, d) == IF d.ondisk # "dir" /\ ~\E k \in 1..Len(c.wounds) : c.wounds[k].kind = "DIR" /\ c.wounds[k].index = d.index THEN {"MissingOrWrongKindDirReported"} ELSE {}
SymViol(c, s) == IF s.ondisk # ("symlink:" \o s.dest) /\ ~\E k \in 1..Len(c.wounds) : c.wounds[k].kind = "SYMLINK" /\ c.wounds[k].index = s.index THEN {"SymlinkDeviationReported"} ELSE {}
WellFormed(c, w) == /\ w.kind \in {"FILE", "DIR", "SYMLINK"}
                    /\ 0 <= w.start /\ w.start <= w.end
                    /\ w.index >= 0
                    /\ w.index < (IF w.kind = "FILE" THEN Len(c.files) ELSE IF w.kind = "DIR" THEN Len(c.dirs) ELSE Len(c.syms))
Viol(c) ==
  IF c.err # "" THEN {"ValidateReturns"} ELSE
     UNION {FileViol(c, c.files[k]) : k \in 1..Len(c.files)}
\cup UNION {DirViol(c, c.dirs[k]) : k \in 1..Len(c.dirs)}
\cup UNION {SymViol(c, c.syms[k]) : k \in 1..Len(c.syms)}
\cup (IF \A k \in 1..Len(c.wounds) : WellFormed(c, c.wounds[k]) THEN {} ELSE {"WellFormedWound"})
\cup (IF c.deviates /\ Len(c.wounds) = 0 THEN {"DeviationReported"} ELSE {})
\cup (IF c.deviates /\ ~c.failfast THEN {"FailFastErrs"} ELSE {})
\cup (IF ~c.deviates /\ (c.failfast \/ Len(c.wounds) # 0) THEN {"NoFalseAlarm"} ELSE {})
Report == Viol(T[l]) = {} \/ PrintT(<<"VIOL", l, Viol(T[l])>>)
Stats == PrintT(<<"STAT", l, Len(T[l].wounds), Len(T[l].damage)>>)
=============================================================================
