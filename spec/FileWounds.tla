----------------------------- MODULE FileWounds -----------------------------
(* Wounds the validator emits for ONE file: validatingPool's per-block verdicts (wound mode), *)
(* AggregateWounds (pwr/wounds.go), and doOne's size-mismatch wound (pwr/validator.go).        *)
(* Units: BS units per block; MaxW = MaxWoundSize in units. Prototype for C05.                 *)
EXTENDS Integers, Sequences, FiniteSets, TLC
CONSTANTS BS, MaxW, MaxLen, Alphabet,
          OrderedSizeWound   \* TRUE: the size-mismatch wound is reported as [min, max) (repaired); FALSE: [actual, signed)
RECURSIVE SeqsUpTo(_)
SeqsUpTo(n) == IF n = 0 THEN {<<>>} ELSE LET S == SeqsUpTo(n-1) IN S \cup {Append(s, a) : s \in {t \in S : Len(t) = n-1}, a \in Alphabet}
Min(a,b) == IF a < b THEN a ELSE b
VARIABLES signed, actual,    \* signed content; content found on disk
          bi,                \* next block of `actual` to be dripped
          last,              \* aggregator's pending wound or NoW
          outw,              \* wounds delivered to the consumer, in order: <<kind, start, end>>
          phase              \* "stream" | "size" | "close" | "done"
vars == <<signed,actual,bi,last,outw,phase>>
S == Len(signed)
L == Len(actual)
NumBlocks(n) == (n + BS - 1) \div BS
BlockSize(i) == IF BS * (i + 1) > S THEN S % BS ELSE BS          \* ComputeBlockSize(signed size, i)
SignedBlock(i) == SubSeq(signed, i*BS + 1, Min((i+1)*BS, S))
ActualBlock(i) == SubSeq(actual, i*BS + 1, Min((i+1)*BS, L))
HasHash(i) == S > 0 /\ i < NumBlocks(S)                           \* empty files have no hash group
NoW == <<"none", 0, 0>>
SizeW == IF OrderedSizeWound /\ L > S THEN <<"FILE", S, L>> ELSE <<"FILE", L, S>>
\* ValidateAsWound(fileIndex, blockIndex, data)
Raw(i) == LET st == i * BS IN
          IF HasHash(i) /\ ActualBlock(i) = SignedBlock(i) THEN <<"CLOSED", st, st + BlockSize(i)>>
          ELSE <<"FILE", st, st + BlockSize(i)>>
Init == /\ signed \in SeqsUpTo(MaxLen) /\ actual \in SeqsUpTo(MaxLen + BS + 1)
        /\ bi = 0 /\ last = NoW /\ outw = <<>> /\ phase = "stream"
\* AggregateWounds: one incoming wound w
Agg(w) == IF w[1] = "FILE"
          THEN IF last = NoW THEN <<w, <<>>>>
               ELSE IF last[3] <= w[2] /\ w[2] >= last[2]
                    THEN LET m == <<"FILE", last[2], w[3]>> IN
                         IF m[3] - m[2] >= MaxW THEN <<NoW, <<m>>>> ELSE <<m, <<>>>>
                    ELSE <<w, <<last>>>>
          ELSE <<NoW, (IF last # NoW THEN <<last>> ELSE <<>>) \o <<w>>>>
\* io.Copy through the drip writer: complete blocks are validated as they fill up
Drip == /\ phase = "stream" /\ (bi + 1) * BS <= L
        /\ LET r == Agg(Raw(bi)) IN last' = r[1] /\ outw' = outw \o r[2]
        /\ bi' = bi + 1 /\ UNCHANGED <<signed, actual, phase>>
StreamEnd == /\ phase = "stream" /\ (bi + 1) * BS > L /\ phase' = "size" /\ UNCHANGED <<signed,actual,bi,last,outw>>
\* doOne: writtenBytes != file.Size  =>  Wound{Start: writtenBytes, End: file.Size}, sent directly (not aggregated)
SizeWound == /\ phase = "size"
             /\ outw' = IF L # S THEN Append(outw, SizeW) ELSE outw
             /\ phase' = "close" /\ UNCHANGED <<signed,actual,bi,last>>
\* deferred writer.Close(): the partial tail is validated now, then the aggregator flushes its pending wound
Close == /\ phase = "close"
         /\ LET r == IF bi * BS < L THEN Agg(Raw(bi)) ELSE <<last, <<>>>> IN
            outw' = outw \o r[2] \o (IF r[1] # NoW THEN <<r[1]>> ELSE <<>>)
         /\ last' = NoW /\ phase' = "done" /\ UNCHANGED <<signed,actual,bi>>
Terminating == phase = "done" /\ UNCHANGED vars
Next == Drip \/ StreamEnd \/ SizeWound \/ Close \/ Terminating
Spec == Init /\ [][Next]_vars
(* ---- C05 (file part) ---- *)
Wounds == {k \in 1..Len(outw) : outw[k][1] = "FILE"}
Done == phase = "done"
DiffersAt(o) == o < S /\ (o >= L \/ actual[o + 1] # signed[o + 1])
Covered(o) == \E k \in Wounds : outw[k][2] <= o /\ o < outw[k][3]
EveryDifferenceCovered == Done => \A o \in 0..(S - 1) : (o < L /\ DiffersAt(o)) => Covered(o)
LengthMismatchReported == Done => (L # S => Wounds # {})
DamageReported == Done => (actual # signed => Wounds # {})
WellFormed == \A k \in 1..Len(outw) : 0 <= outw[k][2] /\ outw[k][2] <= outw[k][3]
NoFalseWound == Done => (actual = signed => Wounds = {})
=============================================================================
