------------------------------ MODULE DripProp ------------------------------
(* Abstract layer for C18: what a caller of a validating pool's writer may    *)
(* observe. Scale-free: block contents enter only through Good(i) = "block i  *)
(* of the bytes handed over so far equals signed block i (and i is a signed   *)
(* block)", so the same text serves the unit-scale model (sequences) and      *)
(* byte-scale traces of the real pool (digest facts).                         *)
(*   bs      block size            sgLen  signed length                       *)
(*   p       bytes handed to Write so far        cl   Close was called        *)
(*   innLen  bytes that reached the inner pool   innPrefix  they are a prefix of what was handed over *)
(*   err     some Write/Close returned an error  w    markers seen on the wounds channel, in order    *)
EXTENDS Blocks, FiniteSets
DPComplete(bs, p, cl, i) == (i + 1) * bs <= p \/ (cl /\ i * bs < p)       \* full block, or tail flushed by Close
DPBad(bs, p, cl, Good(_), i) == DPComplete(bs, p, cl, i) /\ ~Good(i)
DPFirstBad(bs, p, cl, Good(_), i) == DPBad(bs, p, cl, Good, i) /\ \A j \in 0..(i-1) : ~DPBad(bs, p, cl, Good, j)
DPBlocks(bs, p) == 0..BNumBlocks(p, bs)
\* error mode: the call completing a bad block fails, nothing from that block on reaches the inner pool,
\* good data (the signed content or a block-aligned prefix of it) passes through unchanged
DPErrViol(bs, sgLen, p, cl, innLen, innPrefix, err, Good(_)) ==
     (IF \E i \in DPBlocks(bs, p) : DPFirstBad(bs, p, cl, Good, i) /\ innLen > i * bs THEN {"NoLeakPastBad"} ELSE {})
\cup (IF \E i \in DPBlocks(bs, p) : DPFirstBad(bs, p, cl, Good, i) /\ ~err THEN {"BadIsReported"} ELSE {})
\cup (IF ~innPrefix THEN {"InnerIsPrefix"} ELSE {})
\cup (IF cl /\ (\A i \in DPBlocks(bs, p) : ~DPBad(bs, p, cl, Good, i)) /\ ~(innLen = p /\ ~err) THEN {"GoodPassesThrough"} ELSE {})
\cup (IF (\A i \in DPBlocks(bs, p) : ~DPBad(bs, p, cl, Good, i)) /\ err THEN {"NoSpuriousError"} ELSE {})
\* wound mode: everything is forwarded; one marker per validated block, in offset order, tiling the
\* written range up to the signed length, wound exactly where the block differs
DPWoundViol(bs, sgLen, p, cl, innLen, innPrefix, err, w, Good(_)) ==
  LET nDone == IF cl THEN BNumBlocks(p, bs) ELSE p \div bs            \* blocks validated so far
      nSigned == BNumBlocks(sgLen, bs)
  IN (IF err THEN {"WoundModeNeverFails"} ELSE {})
\cup (IF ~innPrefix \/ innLen # (IF cl THEN p ELSE (p \div bs) * bs) THEN {"WoundModeForwardsAll"} ELSE {})
\cup (IF Len(w) # nDone THEN {"OneMarkerPerBlock"} ELSE
      (IF \E k \in 1..(Len(w)-1) : w[k].s >= w[k+1].s THEN {"OffsetOrder"} ELSE {})
 \cup (IF \E k \in 1..Len(w) : k <= nSigned /\ ~(w[k].s = (k-1) * bs /\ w[k].e = BMin(k * bs, sgLen)) THEN {"Tiling"} ELSE {})
 \cup (IF \E k \in 1..Len(w) : (w[k].k = "W") # ~Good(k - 1) THEN {"ExactMarking"} ELSE {})
 \cup (IF \E k \in 1..Len(w) : ~(0 <= w[k].s /\ w[k].s <= w[k].e) THEN {"WellFormed"} ELSE {}))
DPViol(m, bs, sgLen, p, cl, innLen, innPrefix, err, w, Good(_)) ==
  IF m = "error" THEN DPErrViol(bs, sgLen, p, cl, innLen, innPrefix, err, Good)
  ELSE DPWoundViol(bs, sgLen, p, cl, innLen, innPrefix, err, w, Good)
=============================================================================
