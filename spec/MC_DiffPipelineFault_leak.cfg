SPECIFICATION Spec
CONSTANTS
  N = 5
  BufA = 3
  BufB = 2
  FailAs = {99, 0, 2, 5}
  FailBs = {99, 0, 3, 5}
  FailRs = {99}
INVARIANTS NeverStuck
CHECK_DEADLOCK FALSE
