----------------------------- MODULE PatchProp -----------------------------
(* Abstract layer over a decoded wharf patch (recorded from a real WritePatch  *)
(* / Optimize run by an independent framing parser) with digest facts.        *)
(* c.msgs: sequence of records                                                *)
(*   SH  [k="SH", fi, ty in {"R","B"}]                                        *)
(*   OP  [k="OP", ty in {"BR","DATA","END"}, f,i,n, len, pos, src, new]       *)
(*   BH  [k="BH", tgt]      CTL [k="CTL", add, copy, seek, eof, len, pos, off, src, new] *)
(* c.tsizes / c.ssizes: file sizes of the old (target) / new (source) build.  *)
(* Shared by C01, C07, C08, C17 (and the patch-level clauses of C11, C12).    *)
EXTENDS Integers, Sequences, FiniteSets
PBS == 65536
PMaxData == 4194304
PNumBlocks(sz) == (sz + PBS - 1) \div PBS
PMin(a, b) == IF a < b THEN a ELSE b
\* message index ranges of the series: headers at H, series i = (H[i], E[i]) where E = next header - 1
PHdrs(c) == {j \in 1..Len(c.msgs) : c.msgs[j].k = "SH"}
PIsEnd(m) == m.k = "OP" /\ m.ty = "END"
\* framing: SH(0) .. END SH(1) .. END ... ; exactly one END per series, it is the last message of the series
PSeriesEnd(c, j) == LET later == {h \in PHdrs(c) : h > j} IN
                    IF later = {} THEN Len(c.msgs) ELSE (CHOOSE h \in later : \A g \in later : h <= g) - 1
PFraming(c) ==
  LET M == c.msgs
      NF == Len(c.ssizes)
      H == PHdrs(c)
  IN /\ Cardinality(H) = NF
     /\ (NF > 0 => 1 \in H)
     /\ (NF = 0 => Len(M) = 0)
     /\ \A j \in H :
          LET e == PSeriesEnd(c, j) IN
          /\ M[j].fi = Cardinality({h \in H : h < j})                       \* series appear in file order
          /\ e > j /\ PIsEnd(M[e])
          /\ \A q \in (j+1)..(e-1) : ~PIsEnd(M[q])
          /\ IF M[j].ty = "R" THEN e >= j + 2 /\ \A q \in (j+1)..(e-1) : M[q].k = "OP" /\ M[q].ty \in {"BR", "DATA"}
             ELSE /\ M[j].ty = "B" /\ e >= j + 3 /\ M[j+1].k = "BH"
                  /\ \A q \in (j+2)..(e-1) : M[q].k = "CTL"
                  /\ M[e-1].eof /\ \A q \in (j+2)..(e-2) : ~M[q].eof
\* one rsync op is right: in bounds, its length is what the patcher will compute from the old container,
\* the bytes it supplies are the new file's bytes at the position reached (digest fact), positions tile
POpOK(c, j, q) ==
  LET M == c.msgs
      m == M[q]
      prevEnd == IF q = j + 1 THEN 0 ELSE M[q-1].pos + M[q-1].len
  IN /\ m.pos = prevEnd
     /\ m.src = m.new /\ m.src # ""
     /\ (m.ty = "BR" => /\ m.f >= 0 /\ m.f < Len(c.tsizes) /\ m.i >= 0 /\ m.n >= 1
                        /\ m.i + m.n <= PNumBlocks(c.tsizes[m.f + 1])
                        /\ m.len = PMin((m.i + m.n) * PBS, c.tsizes[m.f + 1]) - m.i * PBS)
PCtlOK(c, j, q) ==
  LET M == c.msgs
      m == M[q]
      first == q = j + 2
      prevEnd == IF first THEN 0 ELSE M[q-1].pos + M[q-1].len
      prevOff == IF first THEN 0 ELSE M[q-1].off + M[q-1].add + M[q-1].seek
      tsz == c.tsizes[M[j+1].tgt + 1]
  IN /\ m.pos = prevEnd /\ m.off = prevOff
     /\ (~m.eof => /\ m.off >= 0 /\ m.off + m.add <= tsz
                   /\ m.src = m.new /\ m.src # "")
PReconstructs(c) ==
  LET M == c.msgs IN
  \A j \in PHdrs(c) :
    LET e == PSeriesEnd(c, j)
        sz == c.ssizes[M[j].fi + 1]
    IN IF M[j].ty = "R"
       THEN /\ \A q \in (j+1)..(e-1) : POpOK(c, j, q)
            /\ M[e-1].pos + M[e-1].len = sz
       ELSE /\ M[j+1].tgt >= 0 /\ M[j+1].tgt < Len(c.tsizes)
            /\ \A q \in (j+2)..(e-1) : PCtlOK(c, j, q)
            /\ M[e-1].pos = sz
\* clauses of C11 at patch level
PMerged(c) == \A q \in 1..(Len(c.msgs) - 1) :
   LET a == c.msgs[q] b == c.msgs[q+1] IN
   ~(a.k = "OP" /\ b.k = "OP" /\ a.ty = "BR" /\ b.ty = "BR" /\ a.f = b.f /\ a.i + a.n = b.i)
PDataLimit(c) == \A q \in 1..Len(c.msgs) : (c.msgs[q].k = "OP" /\ c.msgs[q].ty = "DATA") => c.msgs[q].len <= PMaxData
POnlyLeadingEmpty(c) == \A q \in 2..Len(c.msgs) :
   (c.msgs[q].k = "OP" /\ c.msgs[q].ty = "DATA" /\ c.msgs[q].len = 0) => c.msgs[q-1].k = "SH"
\* totals
RECURSIVE PSumSeq(_)
PSumSeq(s) == IF s = <<>> THEN 0 ELSE Head(s) + PSumSeq(Tail(s))
PTot(c, ty) == PSumSeq([q \in 1..Len(c.msgs) |-> IF c.msgs[q].k = "OP" /\ c.msgs[q].ty = ty THEN c.msgs[q].len ELSE 0])
PAsSet(s) == {s[k] : k \in 1..Len(s)}
=============================================================================
