---------------------------- MODULE Validator ----------------------------
(* Goroutine protocol of pwr.ValidatorContext.Validate (pwr/validator.go),      *)
(* one action per channel operation. Prototype for C16.                         *)
EXTENDS Integers, Sequences, FiniteSets, TLC

CONSTANTS Configs,       \* set of configurations to explore: records
                         \*   [nf: number of files, fk: [1..nf -> {"ok","bad","missing"}], ndw: wounds of the dir/symlink pass,
                         \*    k: capacity of the wounds channel (1024 in the code), cons: "guardian"|"printer"|"failing",
                         \*    fa: the failing consumer errs after this many wounds, ca: the environment may cancel ctx]
          Fixed          \* TRUE: Validate reports cancellation as an error (repaired)
VARIABLE cfg             \* the configuration of this behaviour (never changes)
NFiles == cfg.nf
FileKind == cfg.fk
NDirWounds == cfg.ndw
K == cfg.k
Consumer == cfg.cons
FailAfter == cfg.fa
CancelAllowed == cfg.ca

Nil == "nil"
VARIABLES pcM, pcW, pcC,          \* main, worker, consumer goroutine
          f,                      \* next file index main will dispatch
          dw,                     \* dir wounds still to send
          cur,                    \* file the worker is on
          wounds, woundsClosed,   \* buffered channel of "W" (wound) / "H" (healthy marker)
          fiClosed, cancelled,    \* closed flags of fileIndices / cancelled
          workerErrs, consumerErrs, \* buffered(1) channels
          ctxDone,                \* context cancelled
          retErr, ret,            \* main's accumulator and final return value
          seen,                   \* wounds seen by consumer
          checked                 \* files fully validated
vars == <<pcM,pcW,pcC,f,dw,cur,wounds,woundsClosed,fiClosed,cancelled,workerErrs,consumerErrs,ctxDone,retErr,ret,seen,checked>>

Init == /\ cfg \in Configs
        /\ pcM = "dirs" /\ pcW = "idle" /\ pcC = "do"
        /\ f = 1 /\ dw = NDirWounds /\ cur = 0
        /\ wounds = <<>> /\ woundsClosed = FALSE
        /\ fiClosed = FALSE /\ cancelled = FALSE
        /\ workerErrs = <<>> /\ consumerErrs = <<>>
        /\ ctxDone = FALSE /\ retErr = Nil /\ ret = "none"
        /\ seen = 0 /\ checked = {}

CanSendWound == Len(wounds) < K

(* ---------------- main ---------------- *)
MDirWound == /\ pcM = "dirs" /\ dw > 0 /\ CanSendWound
             /\ wounds' = Append(wounds, "W") /\ dw' = dw - 1
             /\ UNCHANGED <<pcM,pcW,pcC,f,cur,woundsClosed,fiClosed,cancelled,workerErrs,consumerErrs,ctxDone,retErr,ret,seen,checked>>
MStartWorker == /\ pcM = "dirs" /\ dw = 0
                /\ pcM' = "loop" /\ pcW' = "select"
                /\ UNCHANGED <<pcC,f,dw,cur,wounds,woundsClosed,fiClosed,cancelled,workerErrs,consumerErrs,ctxDone,retErr,ret,seen,checked>>
\* select in the dispatch loop
MRecvWorkerErr == /\ pcM = "loop" /\ f <= NFiles /\ workerErrs # <<>>
                  /\ retErr' = Head(workerErrs) /\ workerErrs' = <<Nil>>
                  /\ cancelled' = TRUE /\ pcM' = "closeFI"
                  /\ UNCHANGED <<pcW,pcC,f,dw,cur,wounds,woundsClosed,fiClosed,consumerErrs,ctxDone,ret,seen,checked>>
MRecvConsumerErr == /\ pcM = "loop" /\ f <= NFiles /\ consumerErrs # <<>>
                    /\ retErr' = Head(consumerErrs) /\ consumerErrs' = <<Nil>>
                    /\ cancelled' = TRUE /\ pcM' = "closeFI"
                    /\ UNCHANGED <<pcW,pcC,f,dw,cur,wounds,woundsClosed,fiClosed,workerErrs,ctxDone,ret,seen,checked>>
\* rendezvous on the unbuffered fileIndices channel
MSendIndex == /\ pcM = "loop" /\ f <= NFiles /\ pcW = "select"
              /\ cur' = f /\ f' = f + 1 /\ pcW' = "doOne"
              /\ UNCHANGED <<pcM,pcC,dw,wounds,woundsClosed,fiClosed,cancelled,workerErrs,consumerErrs,ctxDone,retErr,ret,seen,checked>>
MLoopEnd == /\ pcM = "loop" /\ f > NFiles /\ pcM' = "closeFI"
            /\ UNCHANGED <<pcW,pcC,f,dw,cur,wounds,woundsClosed,fiClosed,cancelled,workerErrs,consumerErrs,ctxDone,retErr,ret,seen,checked>>
MCloseFI == /\ pcM = "closeFI" /\ fiClosed' = TRUE /\ pcM' = "waitW"
            /\ UNCHANGED <<pcW,pcC,f,dw,cur,wounds,woundsClosed,cancelled,workerErrs,consumerErrs,ctxDone,retErr,ret,seen,checked>>
MWaitW == /\ pcM = "waitW" /\ workerErrs # <<>>
          /\ retErr' = IF retErr = Nil THEN Head(workerErrs) ELSE retErr
          /\ workerErrs' = Tail(workerErrs)
          /\ woundsClosed' = TRUE /\ pcM' = "waitC"
          /\ UNCHANGED <<pcW,pcC,f,dw,cur,wounds,fiClosed,cancelled,consumerErrs,ctxDone,ret,seen,checked>>
MWaitC == /\ pcM = "waitC" /\ consumerErrs # <<>>
          /\ LET r == IF retErr = Nil THEN Head(consumerErrs) ELSE retErr
             IN  ret' = IF Fixed /\ r = Nil /\ ctxDone THEN "cancelledErr" ELSE r
          /\ consumerErrs' = Tail(consumerErrs) /\ pcM' = "ret"
          /\ UNCHANGED <<pcW,pcC,f,dw,cur,wounds,woundsClosed,fiClosed,cancelled,workerErrs,ctxDone,retErr,seen,checked>>

(* ---------------- worker ---------------- *)
WClosed == /\ pcW = "select" /\ (fiClosed \/ cancelled) /\ pcW' = "exit"
           /\ UNCHANGED <<pcM,pcC,f,dw,cur,wounds,woundsClosed,fiClosed,cancelled,workerErrs,consumerErrs,ctxDone,retErr,ret,seen,checked>>
\* streamed file: per-block markers go through aggregator+relay: blocking send, no select
WStream == /\ pcW = "doOne" /\ FileKind[cur] \in {"ok","bad"} /\ CanSendWound
           /\ wounds' = Append(wounds, IF FileKind[cur] = "bad" THEN "W" ELSE "H")
           /\ checked' = checked \cup {cur} /\ pcW' = "select"
           /\ UNCHANGED <<pcM,pcC,f,dw,cur,woundsClosed,fiClosed,cancelled,workerErrs,consumerErrs,ctxDone,retErr,ret,seen>>
\* whole-file wound: select { wounds <- w ; <-cancelled }
WMissingSend == /\ pcW = "doOne" /\ FileKind[cur] = "missing" /\ CanSendWound
                /\ wounds' = Append(wounds, "W") /\ checked' = checked \cup {cur} /\ pcW' = "select"
                /\ UNCHANGED <<pcM,pcC,f,dw,cur,woundsClosed,fiClosed,cancelled,workerErrs,consumerErrs,ctxDone,retErr,ret,seen>>
WMissingCancelled == /\ pcW = "doOne" /\ FileKind[cur] = "missing" /\ cancelled /\ pcW' = "select"
                     /\ UNCHANGED <<pcM,pcC,f,dw,cur,wounds,woundsClosed,fiClosed,cancelled,workerErrs,consumerErrs,ctxDone,retErr,ret,seen,checked>>
WExit == /\ pcW = "exit" /\ Len(workerErrs) < 1
         /\ workerErrs' = Append(workerErrs, Nil) /\ pcW' = "done"
         /\ UNCHANGED <<pcM,pcC,f,dw,cur,wounds,woundsClosed,fiClosed,cancelled,consumerErrs,ctxDone,retErr,ret,seen,checked>>

(* ---------------- consumer goroutine ---------------- *)
CReport(r) == /\ Len(consumerErrs) < 1 /\ consumerErrs' = Append(consumerErrs, r) /\ pcC' = "drain"
CRecv == /\ pcC = "do" /\ wounds # <<>>
         /\ wounds' = Tail(wounds)
         /\ IF Head(wounds) = "H" THEN /\ UNCHANGED <<pcC, consumerErrs, seen>>
            ELSE /\ seen' = seen + 1
                 /\ IF Consumer = "guardian" THEN CReport("woundErr")
                    ELSE IF Consumer = "failing" /\ seen + 1 >= FailAfter THEN CReport("ioErr")
                    ELSE UNCHANGED <<pcC, consumerErrs>>
         /\ UNCHANGED <<pcM,pcW,f,dw,cur,woundsClosed,fiClosed,cancelled,workerErrs,ctxDone,retErr,ret,checked>>
CClosed == /\ pcC = "do" /\ wounds = <<>> /\ woundsClosed /\ CReport(Nil)
           /\ UNCHANGED <<pcM,pcW,f,dw,cur,wounds,woundsClosed,fiClosed,cancelled,workerErrs,ctxDone,retErr,ret,seen,checked>>
CCtxDone == /\ pcC = "do" /\ ctxDone /\ CReport(Nil)
            /\ UNCHANGED <<pcM,pcW,f,dw,cur,wounds,woundsClosed,fiClosed,cancelled,workerErrs,ctxDone,retErr,ret,seen,checked>>
CDrain == /\ pcC = "drain" /\ wounds # <<>> /\ wounds' = Tail(wounds)
          /\ UNCHANGED <<pcM,pcW,pcC,f,dw,cur,woundsClosed,fiClosed,cancelled,workerErrs,consumerErrs,ctxDone,retErr,ret,seen,checked>>
CDrainEnd == /\ pcC = "drain" /\ wounds = <<>> /\ woundsClosed /\ pcC' = "done"
             /\ UNCHANGED <<pcM,pcW,f,dw,cur,wounds,woundsClosed,fiClosed,cancelled,workerErrs,consumerErrs,ctxDone,retErr,ret,seen,checked>>

(* ---------------- environment ---------------- *)
Cancel == /\ CancelAllowed /\ ~ctxDone /\ pcM # "ret" /\ ctxDone' = TRUE
          /\ UNCHANGED <<pcM,pcW,pcC,f,dw,cur,wounds,woundsClosed,fiClosed,cancelled,workerErrs,consumerErrs,retErr,ret,seen,checked>>

AllDone == pcM = "ret" /\ pcW = "done" /\ pcC = "done"
Main == MDirWound \/ MStartWorker \/ MRecvWorkerErr \/ MRecvConsumerErr \/ MSendIndex \/ MLoopEnd \/ MCloseFI \/ MWaitW \/ MWaitC
Worker == WClosed \/ WStream \/ WMissingSend \/ WMissingCancelled \/ WExit
Cons == CRecv \/ CClosed \/ CCtxDone \/ CDrain \/ CDrainEnd
Terminating == AllDone /\ UNCHANGED vars
Step == Main \/ Worker \/ Cons \/ Cancel \/ Terminating
Next == Step /\ UNCHANGED cfg
fvars == <<vars, cfg>>
Spec == Init /\ [][Next]_fvars /\ WF_fvars(Main /\ UNCHANGED cfg) /\ WF_fvars(Worker /\ UNCHANGED cfg) /\ WF_fvars(Cons /\ UNCHANGED cfg)

Damage == NDirWounds > 0 \/ \E i \in 1..NFiles : FileKind[i] # "ok"

(* C16 *)
\* fail-fast validation (the guardian consumer): a nil return means every entry matched
NoFalseValid == (Consumer = "guardian" /\ pcM = "ret" /\ ret = Nil) => ~Damage
NoDeadlock == (ENABLED (Main \/ Worker \/ Cons)) \/ AllDone
Returns == <>(pcM = "ret")
NoLeak == <>[](AllDone)
=============================================================================
