SPECIFICATION Spec
CONSTANTS
  BS = 65536
  UTSizes <- MC_UTSizes
  USSizes <- MC_USSizes
  USamePath <- MC_USamePath
  Checked = TRUE
  MaxMut = 1
  CutMut = 0
  Consumers = {"apply", "skip", "rediff", "sig", "overlay", "hashinfo"}
INVARIANTS TypeOK NoPanic Emit
PROPERTIES Progress
VIEW View
CHECK_DEADLOCK FALSE
