SPECIFICATION MCSpec
CONSTANTS
  BS = 2
  Alphabet = {0, 1, 2}
  MaxLen = 4
  MaxWrite = 4
  Modes = {"error", "wound"}
  Latch = TRUE
INVARIANT PropertyHolds
VIEW View
CHECK_DEADLOCK TRUE
