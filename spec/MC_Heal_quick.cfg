SPECIFICATION Spec
CONSTANTS
  Paths <- MCPaths
  Parent <- MCParent
  Expect <- MCExpect
  DirOrder <- MCDirOrder
  SymOrder <- MCSymOrder
  FileOrder <- MCFileOrder
  Repaired = TRUE
INVARIANT HealsEverything
CHECK_DEADLOCK TRUE
