SPECIFICATION Spec
CONSTANTS
  Paths <- MCPaths
  Parent <- MCParent
  Expect <- MCExpect
  DirOrder <- MCDirOrder
  SymOrder <- MCSymOrder
  FileOrder <- MCFileOrder
  Repaired = TRUE
  Repaired2 = TRUE
INVARIANT HealsEverything
CHECK_DEADLOCK TRUE
