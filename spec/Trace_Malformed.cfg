SPECIFICATION TSpec
CONSTANTS
  BS = 65536
  UTSizes <- NoUniverse
  USSizes <- NoUniverse
  USamePath <- NoUniverse
  Checked = TRUE
  MaxMut = 0
  CutMut = 0
  Consumers = {}
INVARIANTS Report ModelSafe Drift Stats
CHECK_DEADLOCK FALSE
