-------------------------- MODULE Trace_OverlayBowl --------------------------
(* C14 at the bowl level: one line per history on ONE real overlay bowl - an  *)
(* in-place entry begun (from scratch or from a saved checkpoint), written in *)
(* part, possibly saved, abandoned, begun again, finished, committed. In the  *)
(* model (OverlayStream.tla) each "begin" is a resume from a checkpoint the   *)
(* writer reported - (0,0) for a fresh start - so the result must be the new  *)
(* content whatever the history.                                               *)
EXTENDS Integers, Sequences, FiniteSets, Json, TLC
T == ndJsonDeserialize("trace.ndjson")
VARIABLE l
Init == l \in 1..Len(T)
Next == UNCHANGED l
Spec == Init /\ [][Next]_l
Begins(c) == {k \in 1..Len(c.acts) : c.acts[k].op \in {"begin-scratch", "begin-checkpoint"}}
Viol(c) ==
     (IF c.err = "" THEN {} ELSE {"HistoryCompletesWithoutError"})
\cup (IF c.err # "" \/ (c.outlen = c.newlen /\ c.outsha = c.newsha) THEN {} ELSE {"ResultIsNew"})
\cup (IF c.oldintact THEN {} ELSE {"OldFileUntouchedBeforeCommit"})
Report == Viol(T[l]) = {} \/ PrintT(<<"VIOL", l, Viol(T[l])>>)
Stats == PrintT(<<"STAT", l, Cardinality(Begins(T[l]))>>)
=============================================================================
