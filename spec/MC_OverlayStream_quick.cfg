SPECIFICATION MCSpec
CONSTANTS
  W = 4
  T = 1
  MaxUnits = 7
  MaxWrite = 7
  MaxCrashes = 1
INVARIANTS SkipsOnlyEqual OffsetsExact CheckpointExact ResultIsNew NoEmptyOps
CHECK_DEADLOCK TRUE
