------------------------- MODULE Trace_WsyncDrift -------------------------
(* Conformance of the implementation-shaped layer (WsyncDiff) with the real   *)
(* code: for every recorded input the literal transcription of ComputeDiff    *)
(* is stepped to completion and its op list is compared with the ops the real *)
(* code emitted. A difference is DRIFT (reported as a note, not a violation): *)
(* the verdict on the real ops is Trace_OpStream's.                           *)
EXTENDS WsyncDiff, Json
T == ndJsonDeserialize("trace.ndjson")
VARIABLE l
tvars == <<vars, l>>
TInit == /\ l \in 1..Len(T)
         /\ bs = T[l].bs /\ olds = T[l].olds /\ src = T[l].src /\ pref = T[l].pref
         /\ lib = Library(T[l].bs, T[l].olds)
         /\ base = 0 /\ sumTail = 0 /\ validTo = 0 /\ dataTail = 0 /\ dataHead = 0 /\ rd = 0
         /\ lastRun = FALSE /\ rolling = FALSE /\ shortSize = 0 /\ aPop = 0 /\ b1 = 0 /\ b2 = 0 /\ beta = <<0, 0>>
         /\ prevOp = NoOp /\ out = <<>> /\ sendCount = 0 /\ pc = "loop"
TNext == (Next \/ Terminating) /\ UNCHANGED l
TSpec == TInit /\ [][TNext]_tvars
Norm(o) == IF o.t = "data" THEN [t |-> "data", d |-> o.d] ELSE [t |-> "range", f |-> o.f, i |-> o.i, n |-> o.n]
RealOps == [k \in 1..Len(T[l].ops) |-> Norm(T[l].ops[k])]
Drift == pc = "done" /\ out # RealOps
ReportDrift == ~Drift \/ PrintT(<<"DRIFT", l>>)
\* the model's own output satisfies the property on this input (cross-check of the MC at trace inputs)
ModelOK == pc = "done" => OSViolations(olds, bs, src, out, MaxData) = {}
=============================================================================
