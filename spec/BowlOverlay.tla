--------------------------- MODULE BowlOverlay ---------------------------
(* Commit phase of pwr/bowl/bowl_overlay.go over an abstract POSIX file system. *)
(* Prototype for C02: every (old,new) pair over a small path universe, every     *)
(* order in which the code may visit its maps.                                   *)
EXTENDS Integers, Sequences, FiniteSets, TLC

CONSTANTS Top,      \* top-level names, e.g. {"a","b","c"}
          Contents  \* file contents, e.g. {"c1","c2"}; "e" = empty file is added
D  == "d"           \* one name that may be a directory
DX == "d/x"         \* its only possible child
Paths == Top \cup {D, DX}
Safe(p) == "~" \o p
AllPaths == Paths \cup {Safe(p) : p \in Paths}
Parent(p) == IF p = DX \/ p = Safe(DX) THEN D ELSE "/"
PLen(p) == IF p = DX THEN 3 ELSE 1
Order(p) == CASE p = "a" -> 1 [] p = "b" -> 2 [] p = "c" -> 3 [] p = D -> 4 [] p = DX -> 5 [] OTHER -> 9

None == [k |-> "none"]
File(c) == [k |-> "file", c |-> c]
Dir == [k |-> "dir"]
Sym(t) == [k |-> "sym", t |-> t]
AllC == Contents \cup {"e"}
TopEntries == {None} \cup {File(c) : c \in AllC} \cup {Sym("t1")}
Builds == { b \in [Paths -> TopEntries \cup {Dir}] :
              /\ \A p \in Top : b[p] # Dir
              /\ b[DX] # Dir
              /\ (b[DX] # None => b[D] = Dir) }

VARIABLES old, new,            \* the two builds (chosen in Init)
          fs,                  \* output folder: [AllPaths -> Entry]
          phase, todo,         \* current commit sub-phase and its remaining items
          groupsLeft, cleanup, \* transposition groups not yet applied; cleanup renames
          failed               \* commit returned an error
vars == <<old,new,fs,phase,todo,groupsLeft,cleanup,failed>>

FilesOf(b) == {p \in Paths : b[p].k = "file"}
DirsOf(b)  == {p \in Paths : b[p].k = "dir"}
SymsOf(b)  == {p \in Paths : b[p].k = "sym"}

(* ---------- what the differ+patcher hand to the bowl (whole-file granularity) ---------- *)
Srcs(p) == {q \in FilesOf(old) : old[q].c = new[p].c /\ new[p].c # "e"}
MinBy(S) == CHOOSE q \in S : \A r \in S : Order(q) <= Order(r)
TranspoSrc(p) == IF p \in Srcs(p) THEN p ELSE MinBy(Srcs(p))
Transposed == {p \in FilesOf(new) : Srcs(p) # {}}
Overlays == {p \in FilesOf(new) \ Transposed : p \in FilesOf(old)}
Moves    == {p \in FilesOf(new) \ Transposed : p \notin FilesOf(old)}
Transpos == {<<TranspoSrc(p), p>> : p \in Transposed}     \* <<oldPath, newPath>>
GroupKeys == {t[1] : t \in Transpos}
Group(k) == {t \in Transpos : t[1] = k}
\* A=>B is redirected to a temporary name when B is itself the source of a group
Redirected(t) == t[1] # t[2] /\ t[2] \in GroupKeys
Out(t) == IF Redirected(t) THEN Safe(t[2]) ELSE t[2]

(* ---------- POSIX-ish primitives on fs; each yields <<fs', ok>> ---------- *)
IsDirAt(g, p) == p = "/" \/ g[p].k = "dir"
Reach(g, p) == IsDirAt(g, Parent(p))                      \* parent is a directory
Present(g, p) == Reach(g, p) /\ g[p].k # "none"
Children(p) == {q \in AllPaths : Parent(q) = p}
Wipe(g, p) == [q \in AllPaths |-> IF q = p \/ q \in Children(p) THEN None ELSE g[q]]
RemoveAll(g, p) == <<Wipe(g, p), TRUE>>
Remove(g, p) == IF ~Present(g, p) THEN <<g, "enoent">>
                ELSE IF g[p].k = "dir" /\ \E q \in Children(p) : g[q].k # "none" THEN <<g, "enotempty">>
                ELSE <<Wipe(g, p), "ok">>
MkdirAll(g, p) == IF p = "/" THEN <<g, TRUE>>
                  ELSE IF ~IsDirAt(g, Parent(p)) /\ Parent(p) # "/" /\ g[Parent(p)].k # "none" THEN <<g, FALSE>>
                  ELSE LET g1 == IF Parent(p) # "/" /\ g[Parent(p)].k = "none" THEN [g EXCEPT ![Parent(p)] = Dir] ELSE g
                       IN IF g1[p].k = "dir" THEN <<g1, TRUE>>
                          ELSE IF g1[p].k = "none" THEN <<[g1 EXCEPT ![p] = Dir], TRUE>>
                          ELSE <<g1, FALSE>>
\* rename(2): source must exist; target dir must be empty dir if source is dir; file over dir fails
Rename(g, a, b) == IF ~Present(g, a) \/ ~Reach(g, b) THEN <<g, FALSE>>
                   ELSE IF g[b].k = "dir" /\ (g[a].k # "dir" \/ \E q \in Children(b) : g[q].k # "none") THEN <<g, FALSE>>
                   ELSE IF g[a].k = "dir" /\ g[b].k \in {"file","sym"} THEN <<g, FALSE>>
                   ELSE <<[Wipe(g, a) EXCEPT ![b] = g[a]], TRUE>>
\* open(O_CREATE|O_TRUNC) + write c; bowl.copy removes a symlink at the destination first (it used to write through it)
CreateWrite(g, p, c) == IF ~Reach(g, p) \/ g[p].k = "dir" THEN <<g, FALSE>>
                        ELSE <<[g EXCEPT ![p] = File(c)], TRUE>>
\* bowl.copy(old,new): open old for reading (follows nothing here), create+trunc new
Copy(g, a, b, mk) == IF ~Present(g, a) \/ g[a].k # "file" THEN <<g, FALSE>>
                     ELSE LET m == IF mk THEN MkdirAll(g, Parent(b)) ELSE <<g, TRUE>>
                          IN IF ~m[2] THEN <<g, FALSE>> ELSE CreateWrite(m[1], b, g[a].c)
\* bowl.move(old,new): Remove(new) (ENOENT ok), MkdirAll(dir(new)), Rename, fallback copy+remove
Move(g, a, b) == LET r == Remove(g, b) IN
                 IF r[2] \notin {"ok","enoent"} THEN <<g, FALSE>>
                 ELSE LET m == MkdirAll(r[1], Parent(b)) IN
                      IF ~m[2] THEN <<g, FALSE>>
                      ELSE LET n == Rename(m[1], a, b) IN
                           IF n[2] THEN n
                           ELSE LET c == Copy(m[1], a, b, FALSE) IN
                                IF ~c[2] THEN <<g, FALSE>>
                                ELSE LET x == Remove(c[1], a) IN <<x[1], x[2] = "ok">>

(* ---------- initial state: old build on disk, patch fully applied to the stage folder ---------- *)
OnDisk(b) == [q \in AllPaths |-> IF q \in Paths THEN b[q] ELSE None]
Init == /\ old \in Builds /\ new \in Builds
        /\ fs = OnDisk(old)
        /\ phase = "dirs" /\ todo = DirsOf(new)
        /\ groupsLeft = GroupKeys /\ cleanup = {t \in Transpos : Redirected(t)}
        /\ failed = FALSE

Step(res) == IF res[2] = TRUE THEN fs' = res[1] /\ failed' = FALSE ELSE fs' = fs /\ failed' = TRUE
Go(ph, td) == phase' = ph /\ todo' = td

(* phase 1: ensureDirsAndSymlinks, container order = parents first *)
EnsureDir == /\ phase = "dirs" /\ todo # {} /\ ~failed
             /\ LET p == MinBy(todo)
                    g1 == IF Present(fs, p) /\ fs[p].k # "dir" THEN Wipe(fs, p) ELSE fs
                IN Step(MkdirAll(g1, p)) /\ todo' = todo \ {p}
             /\ UNCHANGED <<old,new,phase,groupsLeft,cleanup>>
DirsDone == /\ phase = "dirs" /\ todo = {} /\ ~failed /\ Go("syms", SymsOf(new))
            /\ UNCHANGED <<old,new,fs,groupsLeft,cleanup,failed>>
EnsureSym == /\ phase = "syms" /\ todo # {} /\ ~failed
             /\ LET p == MinBy(todo)
                    g1 == IF Present(fs, p) /\ fs[p].k # "sym" THEN Wipe(fs, p) ELSE fs
                IN  IF ~Reach(g1, p) THEN fs' = fs /\ failed' = TRUE          \* readlink: ENOTDIR
                    ELSE IF g1[p].k = "sym" /\ g1[p].t = new[p].t THEN fs' = g1 /\ failed' = FALSE
                    ELSE fs' = [g1 EXCEPT ![p] = Sym(new[p].t)] /\ failed' = FALSE
             /\ todo' = todo \ {MinBy(todo)}
             /\ UNCHANGED <<old,new,phase,groupsLeft,cleanup>>
SymsDone == /\ phase = "syms" /\ todo = {} /\ ~failed /\ Go("transpo", {})
            /\ UNCHANGED <<old,new,fs,groupsLeft,cleanup,failed>>

(* phase 2: applyTranspositions — groups in ANY order (Go map iteration) *)
HasOverlay(k) == k \in Overlays
ApplyGroup(k) ==
  LET grp == Group(k)
      noop == {t \in grp : t[1] = t[2]}
      RECURSIVE CopyAll(_, _)
      CopyAll(g, S) == IF S = {} THEN <<g, TRUE>>
                       ELSE LET t == CHOOSE t \in S : TRUE
                                r == Copy(g, k, Out(t), TRUE)
                            IN IF ~r[2] THEN <<g, FALSE>> ELSE CopyAll(r[1], S \ {t})
  IN IF Cardinality(grp) = 1
     THEN LET t == CHOOSE t \in grp : TRUE IN
          IF t[1] = t[2] THEN <<fs, TRUE>>
          ELSE IF HasOverlay(k) THEN Copy(fs, k, Out(t), FALSE) ELSE Move(fs, k, Out(t))
     ELSE IF noop # {} THEN CopyAll(fs, grp \ noop)
     ELSE \* some member is "the rename" (group[0], append order = new file order): the others are copies
          LET first == CHOOSE t \in grp : \A u \in grp : Order(t[2]) <= Order(u[2])
              c == CopyAll(fs, grp \ {first})
          IN IF ~c[2] THEN <<fs, FALSE>>
             ELSE IF HasOverlay(k) THEN Copy(c[1], k, Out(first), FALSE) ELSE Move(c[1], k, Out(first))
Transpose == /\ phase = "transpo" /\ ~failed /\ groupsLeft # {}
             /\ \E k \in groupsLeft : Step(ApplyGroup(k)) /\ groupsLeft' = groupsLeft \ {k}
             /\ UNCHANGED <<old,new,phase,todo,cleanup>>
Cleanup == /\ phase = "transpo" /\ ~failed /\ groupsLeft = {} /\ cleanup # {}
           /\ \E t \in cleanup : Step(Move(fs, Safe(t[2]), t[2])) /\ cleanup' = cleanup \ {t}
           /\ UNCHANGED <<old,new,phase,todo,groupsLeft>>
TranspoDone == /\ phase = "transpo" /\ ~failed /\ groupsLeft = {} /\ cleanup = {} /\ Go("moves", Moves)
               /\ UNCHANGED <<old,new,fs,groupsLeft,cleanup,failed>>

(* phase 3: applyMoves (stage -> output), list order = new file order *)
ApplyMove == /\ phase = "moves" /\ todo # {} /\ ~failed
             /\ LET p == MinBy(todo)
                    r == Remove(fs, p)
                IN IF r[2] \notin {"ok","enoent"} THEN fs' = fs /\ failed' = TRUE
                   ELSE LET m == MkdirAll(r[1], Parent(p)) IN
                        IF ~m[2] THEN fs' = fs /\ failed' = TRUE
                        ELSE Step(CreateWrite(m[1], p, new[p].c))
             /\ todo' = todo \ {MinBy(todo)}
             /\ UNCHANGED <<old,new,phase,groupsLeft,cleanup>>
MovesDone == /\ phase = "moves" /\ todo = {} /\ ~failed /\ Go("overlays", Overlays)
             /\ UNCHANGED <<old,new,fs,groupsLeft,cleanup,failed>>

(* phase 4: applyOverlays: open(O_WRONLY) existing file, patch, truncate *)
ApplyOverlay == /\ phase = "overlays" /\ todo # {} /\ ~failed
                /\ LET p == MinBy(todo) IN
                   IF Present(fs, p) /\ fs[p].k = "file" /\ fs[p].c = old[p].c
                   THEN fs' = [fs EXCEPT ![p] = File(new[p].c)] /\ failed' = FALSE
                   ELSE IF Present(fs, p) /\ fs[p].k = "file"
                   THEN fs' = [fs EXCEPT ![p] = File("garbage")] /\ failed' = FALSE   \* overlay applied on the wrong base
                   ELSE fs' = fs /\ failed' = TRUE
                /\ todo' = todo \ {MinBy(todo)}
                /\ UNCHANGED <<old,new,phase,groupsLeft,cleanup>>
OverlaysDone == /\ phase = "overlays" /\ todo = {} /\ ~failed
                /\ Go("ghosts", {p \in Paths : old[p].k # "none" /\ new[p].k = "none"})
                /\ UNCHANGED <<old,new,fs,groupsLeft,cleanup,failed>>

(* phase 5: deleteGhosts, longest path first, any order among equal lengths (sort.Sort is unstable) *)
DeleteGhost == /\ phase = "ghosts" /\ todo # {} /\ ~failed
               /\ \E p \in todo :
                    /\ \A q \in todo : PLen(p) >= PLen(q)
                    /\ LET r == IF Present(fs, p) THEN Remove(fs, p) ELSE <<fs, "enoent">> IN
                       IF r[2] \in {"ok","enoent"} \/ old[p].k = "dir"
                       THEN fs' = r[1] /\ failed' = FALSE ELSE fs' = fs /\ failed' = TRUE
                    /\ todo' = todo \ {p}
               /\ UNCHANGED <<old,new,phase,groupsLeft,cleanup>>
GhostsDone == /\ phase = "ghosts" /\ todo = {} /\ ~failed /\ Go("done", {})
              /\ UNCHANGED <<old,new,fs,groupsLeft,cleanup,failed>>

Next == EnsureDir \/ DirsDone \/ EnsureSym \/ SymsDone \/ Transpose \/ Cleanup \/ TranspoDone
        \/ ApplyMove \/ MovesDone \/ ApplyOverlay \/ OverlaysDone \/ DeleteGhost \/ GhostsDone
Terminating == (phase = "done" \/ failed) /\ UNCHANGED vars
Spec == Init /\ [][Next \/ Terminating]_vars

(* ---------- C02 ---------- *)
KindChange == \E p \in Paths : old[p].k # "none" /\ new[p].k # "none" /\ old[p].k # new[p].k
Committed == phase = "done"
ResultIsNew == Committed => fs = OnDisk(new)
NeverFails == ~failed
\* the property restricted to build pairs in which no path changes kind
ResultIsNewNoKind == (Committed /\ ~KindChange) => fs = OnDisk(new)
NeverFailsNoKind == ~KindChange => ~failed
=============================================================================
