----------------------------- MODULE Trace_Apply -----------------------------
(* Trace validation for C01: one line per (build pair, compression setting).  *)
(* The real WritePatch produced the patch, an independent parser decoded it,  *)
(* the real patcher + fresh bowl applied it; snapshots of the new build and   *)
(* of the produced directory are logged as sets of entries.                   *)
EXTENDS PatchProp, Json, TLC
T == ndJsonDeserialize("trace.ndjson")
VARIABLE l
Init == l \in 1..Len(T)
Next == UNCHANGED l
Spec == Init /\ [][Next]_l
Viol(c) ==
  IF c.differr # "" THEN {"DiffSucceeds"}
  ELSE IF ~c.decoded THEN {"PatchDecodes"}
  ELSE IF ~PFraming(c) THEN {"Framing"}
  ELSE (IF PReconstructs(c) THEN {} ELSE {"Reconstructs"})
  \cup (IF c.applyerr = "" THEN {} ELSE {"ApplySucceeds"})
  \cup (IF PAsSet(c.out) = PAsSet(c.new) THEN {} ELSE {"TreeEqual"})
Report == Viol(T[l]) = {} \/ PrintT(<<"VIOL", l, Viol(T[l])>>)
\* patch-level clauses that belong to other properties (C11, C08): reported as notes by the C01 check
Other(c) == IF c.differr # "" \/ ~c.decoded \/ ~PFraming(c) THEN {} ELSE
     (IF PMerged(c) THEN {} ELSE {"C11.Merged"})
\cup (IF PDataLimit(c) THEN {} ELSE {"C11.DataLimit"})
\cup (IF POnlyLeadingEmpty(c) THEN {} ELSE {"C11.OnlyLeadingEmpty"})
\cup (IF c.fresh = PTot(c, "DATA") /\ c.reused = PTot(c, "BR") /\ c.fresh + c.reused = PSumSeq(c.ssizes) THEN {} ELSE {"C08.Accounting"})
ReportOther == Other(T[l]) = {} \/ PrintT(<<"OTHER", l, Other(T[l])>>)
Stats == PrintT(<<"STAT", l, Len(T[l].msgs), Len(T[l].ssizes)>>)
=============================================================================
