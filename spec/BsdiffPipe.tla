----------------------------- MODULE BsdiffPipe -----------------------------
(* Scanner pipeline of bsdiff.DiffContext.Do (bsdiff/diff.go): a dispatcher hands block     *)
(* indices round-robin to workers (work chan cap 1, guarded by a per-worker "consumed" token *)
(* chan cap 1), each worker streams the matches of its block followed by an end-of-chunk      *)
(* marker into its own matches chan (cap MC), a collector drains the workers round-robin and  *)
(* forwards to the output in block order. Prototype for C12 / C15.                            *)
EXTENDS Integers, Sequences, FiniteSets, TLC
CONSTANTS NW, NB, MPB, MCap      \* workers, blocks, matches per block, capacity of a matches channel
Workers == 0..(NW-1)
VARIABLES di,                  \* dispatcher: next block to hand out
          dclosed,             \* dispatcher closed all work channels
          token,               \* [w -> 0|1] content of the consumed channel
          work,                \* [w -> seq of block indices] (cap 1)
          wblk, wleft,         \* worker: block in hand (-1 none), matches still to send (MPB..0, -1 = send eoc)
          mch,                 \* [w -> seq of <<block, k>> | <<block, "eoc">>]
          cb,                  \* collector: block index being collected
          outp                 \* forwarded matches
vars == <<di,dclosed,token,work,wblk,wleft,mch,cb,outp>>
Init == /\ di = 0 /\ dclosed = FALSE /\ token = [w \in Workers |-> 1] /\ work = [w \in Workers |-> <<>>]
        /\ wblk = [w \in Workers |-> -1] /\ wleft = [w \in Workers |-> 0]
        /\ mch = [w \in Workers |-> <<>>] /\ cb = 0 /\ outp = <<>>
\* dispatcher: <-consumed[w]; work[w] <- i
Dispatch == /\ di < NB /\ LET w == di % NW IN
               /\ token[w] = 1 /\ Len(work[w]) < 1
               /\ token' = [token EXCEPT ![w] = 0] /\ work' = [work EXCEPT ![w] = Append(@, di)]
            /\ di' = di + 1 /\ UNCHANGED <<dclosed,wblk,wleft,mch,cb,outp>>
CloseWork == /\ di = NB /\ ~dclosed /\ dclosed' = TRUE /\ UNCHANGED <<di,token,work,wblk,wleft,mch,cb,outp>>
\* worker: take a block, stream its matches, then the end-of-chunk marker
Take(w) == /\ wblk[w] = -1 /\ work[w] # <<>>
           /\ wblk' = [wblk EXCEPT ![w] = Head(work[w])] /\ wleft' = [wleft EXCEPT ![w] = MPB]
           /\ work' = [work EXCEPT ![w] = Tail(@)] /\ UNCHANGED <<di,dclosed,token,mch,cb,outp>>
SendMatch(w) == /\ wblk[w] # -1 /\ wleft[w] > 0 /\ Len(mch[w]) < MCap
                /\ mch' = [mch EXCEPT ![w] = Append(@, <<wblk[w], MPB - wleft[w] + 1>>)]
                /\ wleft' = [wleft EXCEPT ![w] = @ - 1] /\ UNCHANGED <<di,dclosed,token,work,wblk,cb,outp>>
SendEoc(w) == /\ wblk[w] # -1 /\ wleft[w] = 0 /\ Len(mch[w]) < MCap
              /\ mch' = [mch EXCEPT ![w] = Append(@, <<wblk[w], 0>>)]
              /\ wblk' = [wblk EXCEPT ![w] = -1] /\ UNCHANGED <<di,dclosed,token,work,wleft,cb,outp>>
\* collector: for block cb read worker cb%NW until eoc, then hand the token back
Collect == /\ cb < NB /\ LET w == cb % NW IN
              /\ mch[w] # <<>>
              /\ mch' = [mch EXCEPT ![w] = Tail(@)]
              /\ IF Head(mch[w])[2] = 0
                 THEN /\ token[w] = 0 /\ token' = [token EXCEPT ![w] = 1] /\ cb' = cb + 1 /\ UNCHANGED outp
                 ELSE /\ outp' = Append(outp, Head(mch[w])) /\ UNCHANGED <<token, cb>>
           /\ UNCHANGED <<di,dclosed,work,wblk,wleft>>
Next == Dispatch \/ CloseWork \/ Collect \/ (\E w \in Workers : Take(w) \/ SendMatch(w) \/ SendEoc(w))
Spec == Init /\ [][Next]_vars /\ WF_vars(Next)
Finished == cb = NB /\ dclosed
\* matches are forwarded strictly in block order, each exactly once, and the pipeline never wedges
Expected == [k \in 1..(NB * MPB) |-> <<(k - 1) \div MPB, ((k - 1) % MPB) + 1>>]
OrderedPrefix == outp = SubSeq(Expected, 1, Len(outp))
NoWedge == Finished \/ ENABLED Next
Completes == <>(Finished /\ outp = Expected)
=============================================================================
