----------------------------- MODULE Trace_Wire -----------------------------
(* Trace validation for C13. Every line is one session of the REAL            *)
(* wire.ReadContext over a stream written by the real WriteContext /          *)
(* CompressWire: either the first reader (start = 0) or a brand-new reader    *)
(* resumed from a gob-round-tripped checkpoint popped after `start` messages. *)
(* Events: want (WantSave), msg (ReadMessage returned message idx; `emit` is  *)
(* the offset of the source checkpoint handed over during that read, -1 none),*)
(* pop (PopCheckpoint: off = -1 for nil), eof, err.                           *)
(*  - verdict: the property on the logged session (Viol)                      *)
(*  - conformance: the session is stepped through Wire.tla with the source as *)
(*    logged environment; an event the spec cannot take sets `drift`.         *)
EXTENDS Wire, Json
TR == ndJsonDeserialize("trace.ndjson")
VARIABLES t, e, drift
tvars == <<vars, t, e, drift>>
C == TR[t]
Ev == C.events[e]
\* A session with rewound > 0 is not a new reader: the reader had read `rewound` messages, was asked to save on the
\* way, and was rewound with Resume(cp) = Wire!Rewind. Whether the source handed over the pending save while the
\* reader discarded is the environment's choice; it is bound from the log (the pop before the first read). The source
\* restarts at the checkpoint's source offset, or - a coarse source, gran > 1 - at the multiple of gran below it.
EarlyPops(c) == {j \in 1..Len(c.events) : c.events[j].e = "pop" /\ c.events[j].idx = c.start /\ c.events[j].off # -1
                                            /\ c.events[j].srcoff >= (c.cpsrc \div c.gran) * c.gran /\ c.events[j].srcoff <= c.cpoff
                                            /\ \A i \in 1..(j - 1) : c.events[i].e = "want"}
TInit == /\ t \in 1..Len(TR) /\ e = 1 /\ drift = FALSE
         /\ lens = TR[t].mlens /\ kind = "logged" /\ bounds = {}
         /\ need = 0 /\ got = <<>>
         /\ IF TR[t].rewound > 0 /\ EarlyPops(TR[t]) # {}
            THEN saveSt = "has" /\ srcWant = FALSE /\ srcCp = TR[t].events[CHOOSE j \in EarlyPops(TR[t]) : TRUE].srcoff
            ELSE saveSt = "idle" /\ srcWant = (TR[t].rewound > 0) /\ srcCp = -1
         /\ IF TR[t].start = 0 THEN off = 0 /\ nextMsg = 1 /\ cps = <<>>
            ELSE \* a new reader: ReadContext.Resume(cp) = Wire!Resume
                 /\ cps = <<<<TR[t].cpoff, TR[t].cpsrc, TR[t].start + 1>>>>
                 /\ off = TR[t].cpoff /\ nextMsg = TR[t].start + 1
Keep == UNCHANGED <<lens,kind,bounds,off,nextMsg,need,saveSt,srcWant,srcCp,cps,got>>
Drifted == drift' = TRUE /\ Keep
EvWant == /\ Ev.e = "want"
          /\ IF saveSt = "idle" THEN WantSave /\ UNCHANGED drift       \* otherwise WantSave is a no-op in the code
             ELSE Keep /\ UNCHANGED drift
\* ReadMessage = Begin composed with one source step for the whole framed message
EvMsg == /\ Ev.e = "msg"
         /\ IF need = 0 /\ nextMsg <= Len(lens) /\ Ev.idx = nextMsg /\ (Ev.emit # -1 => srcWant) /\ Ev.emit <= off + Framed(lens[nextMsg])
            THEN LET n == Framed(lens[nextMsg]) IN
                 /\ off' = off + n /\ nextMsg' = nextMsg + 1 /\ got' = Append(got, nextMsg) /\ need' = 0
                 /\ srcCp' = IF Ev.emit # -1 THEN Ev.emit ELSE srcCp
                 /\ srcWant' = IF Ev.emit # -1 THEN FALSE ELSE srcWant
                 /\ saveSt' = IF Ev.emit # -1 THEN "has" ELSE saveSt
                 /\ UNCHANGED <<lens,kind,bounds,cps,drift>>
            ELSE Drifted
EvPop == /\ Ev.e = "pop"
         /\ IF Ev.off = -1 THEN (IF saveSt # "has" THEN Keep /\ UNCHANGED drift ELSE Drifted)
            ELSE IF saveSt = "has" /\ need = 0 /\ Ev.off = off /\ Ev.srcoff = srcCp THEN Pop /\ UNCHANGED drift
            ELSE Drifted
EvEnd == /\ Ev.e \in {"eof", "err"}
         /\ IF Ev.e = "eof" /\ nextMsg = Len(lens) + 1 THEN Keep /\ UNCHANGED drift ELSE Drifted
Step == e <= Len(C.events) /\ (EvWant \/ EvMsg \/ EvPop \/ EvEnd) /\ e' = e + 1 /\ UNCHANGED t
Stop == e > Len(C.events) /\ UNCHANGED tvars
TNext == Step \/ Stop
TSpec == TInit /\ [][TNext]_tvars

(* ---------------- verdict on the logged session ---------------- *)
MsgEvents(c) == SelectSeq(c.events, LAMBDA x : x.e = "msg")
PopEvents(c) == SelectSeq(c.events, LAMBDA x : x.e = "pop" /\ x.off # -1)
StartOf(c, i) == IF i - 1 > Len(c.mlens) \/ i < 1 THEN -1 ELSE Sum(SubSeq(c.mlens, 1, i - 1))   \* -1: no such boundary (a reader that ran past the end)
Viol(c) ==
  LET ms == MsgEvents(c)
      ps == PopEvents(c)
      last == c.events[Len(c.events)]
  IN (IF \E j \in 1..Len(c.events) : c.events[j].e = "err" THEN {"NoError"} ELSE {})
\cup (IF Len(ms) = Len(c.mlens) - c.start /\ \A j \in 1..Len(ms) : ms[j].idx = c.start + j /\ ms[j].ok THEN {} ELSE {"SameSequence"})
\cup (IF last.e = "eof" THEN {} ELSE {"EndOfStream"})
\cup (IF \A j \in 1..Len(ps) : ps[j].off = StartOf(c, ps[j].idx + 1) /\ ps[j].srcoff >= 0 /\ ps[j].srcoff <= ps[j].off THEN {} ELSE {"CheckpointAtNextUnread"})
\cup (IF c.start > 0 /\ c.cpoff # StartOf(c, c.start + 1) THEN {"ResumedAtNextUnread"} ELSE {})
Report == e # 1 \/ Viol(C) = {} \/ PrintT(<<"VIOL", t, Viol(C)>>)
AtEnd == e > Len(C.events)
ReportDrift == ~(AtEnd /\ drift) \/ PrintT(<<"DRIFT", t>>)
Stats == ~AtEnd \/ PrintT(<<"STAT", t, Len(C.events), Len(cps), IF C.start = 0 THEN 0 ELSE 1>>)
\* the design-level invariants of Wire.tla, evaluated along the real session
SpecInvariants == drift \/ (CheckpointsExact /\ InOrder /\ OffsetIsFramedSum)
=============================================================================
