SPECIFICATION Spec
CONSTANTS
  Top = {"a", "b", "c"}
  Contents = {"c1", "c2"}
INVARIANTS ResultIsNewNoKind NeverFailsNoKind
CHECK_DEADLOCK TRUE
