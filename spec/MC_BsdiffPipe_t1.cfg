SPECIFICATION Spec
CONSTANTS
  NW = 3
  NB = 5
  MPB = 3
  MCap = 2
INVARIANTS OrderedPrefix NoWedge
PROPERTY Completes
CHECK_DEADLOCK FALSE
