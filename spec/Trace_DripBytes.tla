-------------------------- MODULE Trace_DripBytes --------------------------
(* Trace validation for C18 at byte scale (64 KiB blocks): byte-precise write *)
(* slicings of the REAL validating pool. Contents are represented by digest   *)
(* facts: per signed block, per full block of the written data, the flushed   *)
(* tail, and the inner pool's content vs the same-length prefix of the data.  *)
(* The abstract layer DripProp is evaluated after every step.                 *)
EXTENDS DripProp, Json, TLC
T == ndJsonDeserialize("trace.ndjson")
VARIABLE l
Init == l \in 1..Len(T)
Next == UNCHANGED l
Spec == Init /\ [][Next]_l
RECURSIVE SumN(_, _)
SumN(steps, k) == IF k = 0 THEN 0 ELSE steps[k].n + SumN(steps, k - 1)
StepViol(c, k, p) ==
  LET st == c.steps[k]
      cl == st.op = "close"
      err == \E j \in 1..k : c.steps[j].res = "err"
      Good(i) == /\ i < Len(c.ssha)
                 /\ IF (i + 1) * c.bs <= p THEN c.dsha[i + 1] = c.ssha[i + 1]
                    ELSE cl /\ i * c.bs < p /\ c.tail = c.ssha[i + 1]
      w == SubSeq(c.w, 1, st.nw)
  IN IF st.nw > Len(c.w) THEN {"MarkerCount"}
     ELSE DPViol(c.mode, c.bs, c.sglen, p, cl, st.innb, st.ish = st.dsh, err, w, Good)
\* positions are recomputed from the write sizes
RECURSIVE Walk(_, _, _)
Walk(c, k, p) == IF k > Len(c.steps) THEN {} ELSE StepViol(c, k, p + c.steps[k].n) \cup Walk(c, k + 1, p + c.steps[k].n)
Viol(c) == Walk(c, 1, 0)
Report == Viol(T[l]) = {} \/ PrintT(<<"VIOL", l, Viol(T[l])>>)
Stats == PrintT(<<"STAT", l, Len(T[l].steps), Len(T[l].w)>>)
=============================================================================
