------------------------ MODULE Trace_OverlayStream ------------------------
(* Trace validation for C14 at the real constants. Every line is one session  *)
(* history of the REAL overlay writer (writes of arbitrary sizes, flushes,    *)
(* crashes resumed from the offsets reported after a flush, finalize), the    *)
(* overlay stream it left behind (decoded by an independent framing parser)   *)
(* and the result of the REAL OverlayPatchContext.Patch + truncate.           *)
(*  - verdict: OverlayProp on the real op stream, the checkpoints, the result *)
(*  - drift:   the implementation-shaped OverlayStream is stepped along the   *)
(*             recorded acts and must produce exactly the real op list.       *)
EXTENDS OverlayStream, Json
TR == ndJsonDeserialize("trace.ndjson")
VARIABLES t, a          \* trace line, next act
tvars == <<vars, t, a>>
TInit == /\ t \in 1..Len(TR) /\ a = 1
         /\ runs = TR[t].runs /\ pos = 0 /\ b = 0 /\ ops = <<>> /\ cp = <<0, 0>> /\ finalized = FALSE
Act == TR[t].acts[a]
Step == /\ a <= Len(TR[t].acts)
        /\ \/ (Act.op = "write" /\ Write(Act.n))
           \/ (Act.op = "flush" /\ Flush)
           \/ (Act.op = "crash" /\ CrashResume)
           \/ (Act.op = "finalize" /\ Finalize)
        /\ a' = a + 1 /\ UNCHANGED t
Stop == a > Len(TR[t].acts) /\ UNCHANGED tvars
TNext == Step \/ Stop
TSpec == TInit /\ [][TNext]_tvars

(* ---------------- verdict: the property on what the real code produced ---------------- *)
RealOps(c) == [k \in 1..Len(c.ops) |-> [t |-> c.ops[k].t, n |-> c.ops[k].n]]
RECURSIVE OffsOK(_, _, _)
OffsOK(c, k, off) == IF k > Len(c.ops) THEN TRUE ELSE c.ops[k].off = off /\ OffsOK(c, k + 1, off + c.ops[k].n)
RECURSIVE Lineage(_, _)
Lineage(c, k) ==      \* <<bytes handed over in the current lineage after act k, read offset of the last flush>>
  IF k = 0 THEN <<0, 0>>
  ELSE LET p == Lineage(c, k - 1)
           x == c.acts[k]
       IN CASE x.op = "write" -> <<p[1] + x.n, p[2]>>
            [] x.op = "flush" -> <<p[1], x.ro>>
            [] x.op = "crash" -> <<p[2], p[2]>>
            [] OTHER -> p
Viol(c) ==
  LET ro == RealOps(c) IN
     (IF c.done THEN {} ELSE {"EndMarker"})
\cup (IF OOpsOK(c.runs, ro, 0) THEN {} ELSE {"SkipsOnlyEqual"})
\cup (IF OffsOK(c, 1, 0) /\ \A k \in 1..Len(c.ops) : c.ops[k].t = "FRESH" => c.ops[k].fsha = c.ops[k].nsha THEN {} ELSE {"FreshCarriesNew"})
\cup (IF OOpsLen(ro) = c.newlen THEN {} ELSE {"TilesNew"})
\cup (IF c.patchok /\ c.outlen = c.newlen /\ c.outsha = c.newsha THEN {} ELSE {"ResultIsNew"})
\cup (IF \A k \in 1..Len(c.acts) : c.acts[k].op = "flush" =>
            (c.acts[k].exact /\ c.acts[k].cplen = c.acts[k].ro /\ c.acts[k].ro = Lineage(c, k)[1]) THEN {} ELSE {"CheckpointExact"})
Report == a # 1 \/ Viol(TR[t]) = {} \/ PrintT(<<"VIOL", t, Viol(TR[t])>>)
(* ---------------- drift ---------------- *)
AtEnd == a > Len(TR[t].acts)
\* (OverlayStream.tla reads the old file a full window at a time. When the old file is DELIVERED in short reads -
\*  shortold - the real writer emits what it could not compare as FRESH: the result is still the new file, the op list
\*  is another one. Those sessions are judged above but their op list is not compared with the model's.)
Drift == AtEnd /\ ~TR[t].shortold /\ ~(finalized /\ ops = RealOps(TR[t]))
ReportDrift == ~Drift \/ PrintT(<<"DRIFT", t>>)
Stats == ~AtEnd \/ PrintT(<<"STAT", t, Len(TR[t].acts), Len(TR[t].ops)>>)
=============================================================================
