----------------------------- MODULE Trace_Genie -----------------------------
(* Trace validation of the REAL pwr/genie on real patches: one line per (build *)
(* pair, big block size, new file) with the file's op series as decoded by the *)
(* independent patch decoder and the compositions the real Genie reported.     *)
(*   OBS    the compositions violate GenieProp (Genie.tla) - an observation:    *)
(*          genie is not one of the listed properties                           *)
(*   DRIFT  they differ from what the transcription of analyzeFile yields       *)
EXTENDS Genie, Json
T == ndJsonDeserialize("trace.ndjson")
VARIABLE l
\* (Genie's own variables are not used here: the machine is evaluated as the function Run below)
TInit == l \in 1..Len(T) /\ ops = <<>> /\ k = 0 /\ cur = <<>> /\ comp = <<>> /\ csize = 0 /\ bindex = 0 /\ out = <<>> /\ pc = "trace"
TNext == UNCHANGED <<l, vars>>
TSpec == TInit /\ [][TNext]_<<l, vars>>
NoSizes == <<>>
Op(x) == IF x.t = "DATA" THEN <<"DATA", x.len>> ELSE <<"BR", x.f + 1, x.i, x.n>>
Series(c) == [j \in 1..Len(c.series) |-> Op(c.series[j])]
Org(x) == IF x.t = "fresh" THEN <<"fresh", 0, 0, x.size>> ELSE <<"old", x.f + 1, x.off, x.size>>
Comps(c) == [j \in 1..Len(c.comps) |-> <<c.comps[j].bi, c.comps[j].size, [m \in 1..Len(c.comps[j].origins) |-> Org(c.comps[j].origins[m])]>>]
\* the transcription of analyzeFile, as a function (same steps as Take / Split / Rest / Finish)
RECURSIVE Run(_, _, _, _, _, _, _, _, _)
Run(xs, xk, xc, xm, xz, xb, xo, xbb, xf) ==
  IF xc # <<>> THEN
       IF xz + xc[4] > xbb
       THEN LET t == xbb - xz IN
            Run(xs, xk,
                IF t > 0 THEN <<xc[1], xc[2], IF xc[1] = "old" THEN xc[3] + t ELSE 0, xc[4] - t>> ELSE xc,
                <<>>, 0, xb + 1,
                Append(xo, <<xb, xz + t, IF t > 0 THEN Append(xm, <<xc[1], xc[2], xc[3], t>>) ELSE xm>>), xbb, xf)
       ELSE Run(xs, xk, <<>>, IF xc[4] > 0 THEN Append(xm, xc) ELSE xm, xz + xc[4], xb, xo, xbb, xf)
  ELSE IF xk > Len(xs) THEN (IF xz > 0 /\ xf > 0 THEN Append(xo, <<xb, xz, xm>>) ELSE xo)
  ELSE Run(xs, xk + 1,
           IF xs[xk][1] = "DATA" THEN (IF xs[xk][2] = 0 THEN <<"fresh", 0, 0, 0>> ELSE <<"fresh", 0, 0, xs[xk][2]>>)
           ELSE <<"old", xs[xk][2], xs[xk][3] * T[l].sb, xs[xk][4] * T[l].sb>>,
           xm, xz, xb, xo, xbb, xf)
Viol(c) == PGPViol(Comps(c), Series(c), c.size, c.sb, c.bb, c.olds)
Report == Viol(T[l]) = {} \/ PrintT(<<"OBS", l, Viol(T[l])>>)
Drift == Comps(T[l]) = Run(Series(T[l]), 1, <<>>, <<>>, 0, 0, <<>>, T[l].bb, T[l].size) \/ PrintT(<<"DRIFT", l>>)
=============================================================================
