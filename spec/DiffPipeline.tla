----------------------------- MODULE DiffPipeline -----------------------------
(* The per-file pipeline of DiffContext.WritePatch (pwr/diff.go):              *)
(*   reader task : ctxcopy.Do(MultiWriter(pipeA, pipeB), upstream)  (multiread) *)
(*   diff task   : ComputeDiff reading pipeA                                    *)
(*   sign task   : CreateSignature reading pipeB                                *)
(* run by taskgroup.Do, which returns when all three returned nil.              *)
(* io.Pipe: a Write blocks until every byte of it was taken by Reads; a Read    *)
(* takes min(len(buf), bytes offered). The upstream reader returns ARBITRARILY  *)
(* short reads (chunks); io.EOF may arrive TOGETHER with the last chunk         *)
(* (n > 0, err = EOF) or in a read of its own (0, EOF) - in the latter case     *)
(* ctxcopy still performs one zero-length Write to both pipes (a rendezvous     *)
(* with each consumer that delivers no byte) before it returns.                 *)
(* C15: what each consumer receives - hence what it                             *)
(* writes - is a function of the byte stream only, not of the chunking or the   *)
(* schedule; no deadlock; the group returns only after all three tasks.         *)
EXTENDS Integers, Sequences, FiniteSets, TLC
CONSTANTS N,          \* stream length
          BufA, BufB  \* read sizes the two consumers ask for (block size of the differ / scanner buffer)
\* all compositions of N into positive chunks
RECURSIVE Comps(_)
Comps(n) == IF n = 0 THEN {<<>>} ELSE UNION {{<<k>> \o c : c \in Comps(n - k)} : k \in 1..n}
VARIABLES chunks, ci,      \* chunking chosen by the upstream reader; index of the chunk being written
          lastEOF,         \* TRUE: the upstream returns io.EOF together with its last chunk
          wpc,             \* reader task: "read" | "wA" | "wB" | "zA" | "zB" | "close" | "done"
          offer,           \* bytes of the current chunk not yet taken from the pipe being written
          gotA, gotB,      \* stream positions reached by the consumers (bytes received, in order)
          eofA, eofB,      \* pipes closed by the reader
          doneA, doneB,    \* consumers returned
          grp              \* taskgroup: number of tasks that reported
vars == <<chunks, ci, lastEOF, wpc, offer, gotA, gotB, eofA, eofB, doneA, doneB, grp>>
Init == /\ chunks \in Comps(N) /\ lastEOF \in BOOLEAN /\ ci = 1 /\ wpc = "read" /\ offer = 0
        /\ gotA = 0 /\ gotB = 0 /\ eofA = FALSE /\ eofB = FALSE /\ doneA = FALSE /\ doneB = FALSE /\ grp = 0
\* upstream.Read returned the next chunk (or EOF)
RRead == /\ wpc = "read"
         /\ IF ci <= Len(chunks) THEN wpc' = "wA" /\ offer' = chunks[ci] /\ UNCHANGED ci
            ELSE wpc' = "zA" /\ UNCHANGED <<offer, ci>>      \* (0, EOF): eof noted, then Write(buf[:0])
         /\ UNCHANGED <<chunks, lastEOF, gotA, gotB, eofA, eofB, doneA, doneB, grp>>
\* consumer A's Read meets the pending pipe write: takes min(BufA, offer)
ATake == /\ wpc = "wA" /\ offer > 0 /\ ~doneA
         /\ LET k == IF BufA < offer THEN BufA ELSE offer IN
            /\ gotA' = gotA + k
            /\ (IF offer - k = 0 THEN wpc' = "wB" /\ offer' = chunks[ci] ELSE offer' = offer - k /\ UNCHANGED wpc)
         /\ UNCHANGED <<chunks, ci, lastEOF, gotB, eofA, eofB, doneA, doneB, grp>>
BTake == /\ wpc = "wB" /\ offer > 0 /\ ~doneB
         /\ LET k == IF BufB < offer THEN BufB ELSE offer IN
            /\ gotB' = gotB + k
            /\ (IF offer - k = 0
                THEN /\ ci' = ci + 1 /\ offer' = 0
                     \* the chunk that came with io.EOF was the last Read: the loop ends after this Write
                     /\ wpc' = IF lastEOF /\ ci = Len(chunks) THEN "close" ELSE "read"
                ELSE offer' = offer - k /\ UNCHANGED <<wpc, ci>>)
         /\ UNCHANGED <<chunks, lastEOF, gotA, eofA, eofB, doneA, doneB, grp>>
\* the zero-length Write after a (0, EOF) read: one rendezvous with each consumer's Read, which returns (0, nil)
AZero == /\ wpc = "zA" /\ ~doneA /\ wpc' = "zB"
         /\ UNCHANGED <<chunks, ci, lastEOF, offer, gotA, gotB, eofA, eofB, doneA, doneB, grp>>
BZero == /\ wpc = "zB" /\ ~doneB /\ wpc' = "close"
         /\ UNCHANGED <<chunks, ci, lastEOF, offer, gotA, gotB, eofA, eofB, doneA, doneB, grp>>
\* deferred close of both pipe writers, then the reader task reports
RClose == /\ wpc = "close" /\ eofA' = TRUE /\ eofB' = TRUE /\ wpc' = "done" /\ grp' = grp + 1
          /\ UNCHANGED <<chunks, ci, lastEOF, offer, gotA, gotB, doneA, doneB>>
\* a consumer sees EOF only after it took everything that was written to its pipe
AEOF == /\ eofA /\ ~doneA /\ doneA' = TRUE /\ grp' = grp + 1
        /\ UNCHANGED <<chunks, ci, lastEOF, wpc, offer, gotA, gotB, eofA, eofB, doneB>>
BEOF == /\ eofB /\ ~doneB /\ doneB' = TRUE /\ grp' = grp + 1
        /\ UNCHANGED <<chunks, ci, lastEOF, wpc, offer, gotA, gotB, eofA, eofB, doneA>>
Terminating == grp = 3 /\ UNCHANGED vars
Next == RRead \/ ATake \/ BTake \/ AZero \/ BZero \/ RClose \/ AEOF \/ BEOF \/ Terminating
Spec == Init /\ [][Next]_vars /\ WF_vars(Next)
(* ---- C15 ---- *)
\* consumers never see bytes out of order or beyond what was written (positions are contiguous by construction):
Prefixes == gotA <= N /\ gotB <= gotA
\* when a consumer returns it has received the WHOLE stream - whatever the chunking and the schedule
WholeStream == (doneA => gotA = N) /\ (doneB => gotB = N)
\* taskgroup.Do returns nil only after all three tasks reported
GroupAfterAll == grp = 3 => (wpc = "done" /\ doneA /\ doneB)
NoWedge == grp = 3 \/ ENABLED (RRead \/ ATake \/ BTake \/ AZero \/ BZero \/ RClose \/ AEOF \/ BEOF)
Completes == <>(grp = 3)
=============================================================================
