SPECIFICATION Spec
CONSTANTS
  NF = 3
  Targets = {0}
  MaxResumes = 2
  UseWhitelist = FALSE
  SkipReadsBH = TRUE
INVARIANTS ResultIsRef NeverErr CheckpointSane
CHECK_DEADLOCK FALSE
