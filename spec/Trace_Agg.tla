------------------------------ MODULE Trace_Agg ------------------------------
(* Model -> code for C05's aggregator: every sequence of per-block wounds      *)
(* (kind FILE or CLOSED_FILE, block i = [i*B, (i+1)*B)) of up to N blocks, for  *)
(* every aggregate limit, was sent through the REAL pwr.AggregateWounds; one    *)
(* line per (sequence, limit) with the wounds that came out.                    *)
(*   VIOL  an input FILE wound is not covered by the FILE wounds that came out, *)
(*         a CLOSED_FILE wound was lost or reordered, or a wound is ill-formed  *)
(*   DRIFT the output differs from what FileWounds.tla's Agg step computes      *)
EXTENDS Integers, Sequences, FiniteSets, Json, TLC
T == ndJsonDeserialize("trace.ndjson")
VARIABLE l
Init == l \in 1..Len(T)
Next == UNCHANGED l
Spec == Init /\ [][Next]_l
NoW == <<"none", 0, 0>>
\* the Agg operator of FileWounds.tla with the pending wound and the limit as parameters
AggStep(last, w, maxw) ==
  IF w[1] = "FILE"
  THEN IF last = NoW THEN <<w, <<>>>>
       ELSE IF last[3] <= w[2] /\ w[2] >= last[2]
            THEN LET m == <<"FILE", last[2], w[3]>> IN
                 IF m[3] - m[2] >= maxw THEN <<NoW, <<m>>>> ELSE <<m, <<>>>>
            ELSE <<w, <<last>>>>
  ELSE <<NoW, (IF last # NoW THEN <<last>> ELSE <<>>) \o <<w>>>>
RECURSIVE Fold(_, _, _, _, _)
Fold(in, k, last, out, maxw) ==
  IF k > Len(in) THEN out \o (IF last # NoW THEN <<last>> ELSE <<>>)
  ELSE LET r == AggStep(last, in[k], maxw) IN Fold(in, k + 1, r[1], out \o r[2], maxw)
AsW(x) == <<x.kind, x.start, x.end>>
In(c) == [k \in 1..Len(c.inw) |-> AsW(c.inw[k])]
Out(c) == [k \in 1..Len(c.outw) |-> AsW(c.outw[k])]
Covered(out, o) == \E k \in 1..Len(out) : out[k][1] = "FILE" /\ out[k][2] <= o /\ o < out[k][3]
Closed(s) == SelectSeq(s, LAMBDA w : w[1] = "CLOSED")
Viol(c) ==
  LET in == In(c) out == Out(c) IN
     (IF \A k \in 1..Len(in) : in[k][1] = "FILE" => \A o \in in[k][2]..(in[k][3] - 1) : Covered(out, o) THEN {} ELSE {"EveryInputWoundRelayed"})
\cup (IF Closed(out) = Closed(in) THEN {} ELSE {"ClosedFileMarkersRelayedInOrder"})
\cup (IF \A k \in 1..Len(out) : out[k][2] <= out[k][3] THEN {} ELSE {"WellFormed"})
Report == Viol(T[l]) = {} \/ PrintT(<<"VIOL", l, Viol(T[l])>>)
Drift == Out(T[l]) = Fold(In(T[l]), 1, NoW, <<>>, T[l].maxw) \/ PrintT(<<"DRIFT", l>>)
=============================================================================
