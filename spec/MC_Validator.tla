---------------------------- MODULE MC_Validator ----------------------------
(* Sweep of Validator.tla over the product of its parameters in one run. *)
EXTENDS Validator
CONSTANTS MaxFiles, MaxDirWounds, Ks, Consumers, FailAfters
Kinds == {"ok", "bad", "missing"}
MCConfigs == UNION { [nf : {n}, fk : [1..n -> Kinds], ndw : 0..MaxDirWounds, k : Ks, cons : Consumers, fa : FailAfters, ca : BOOLEAN] : n \in 0..MaxFiles }
=============================================================================
