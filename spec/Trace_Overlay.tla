---------------------------- MODULE Trace_Overlay ----------------------------
(* Trace validation for C02 on the BowlOverlay model's universe. Every line   *)
(* is an (old,new) pair of that universe that was materialised (symbol ->     *)
(* atom), diffed by the REAL differ and applied in place by the REAL patcher  *)
(* + overlay bowl, several times (Go map iteration orders); outcomes are      *)
(* reported in the model's terms (path -> none / file c / dir / sym t, plus   *)
(* entries outside the universe such as temporary names).                     *)
(*  - verdict: every real outcome is the new build, nothing left over, no     *)
(*    error; the old build was untouched right before Commit.                 *)
(*  - conformance: the commit model is run on the same pair; every real       *)
(*    outcome must be one of the model's terminal states (drift otherwise).   *)
EXTENDS BowlOverlay, Json
T == ndJsonDeserialize("trace.ndjson")
VARIABLE l
tvars == <<vars, l>>
Ent(e) == IF e.k = "file" THEN File(e.c) ELSE IF e.k = "dir" THEN Dir ELSE IF e.k = "sym" THEN Sym(e.t) ELSE None
ToBuild(r) == [p \in Paths |-> Ent(r[p])]
TInit == /\ l \in 1..Len(T)
         /\ old = ToBuild(T[l].old) /\ new = ToBuild(T[l].new)
         /\ fs = OnDisk(old)
         /\ phase = "dirs" /\ todo = DirsOf(new)
         /\ groupsLeft = GroupKeys /\ cleanup = {t \in Transpos : Redirected(t)}
         /\ failed = FALSE
TNext == (Next \/ Terminating) /\ UNCHANGED l
TSpec == TInit /\ [][TNext]_tvars
C == T[l]
Outcome(k) == C.outcomes[k]
RealFs(k) == [q \in AllPaths |-> IF q \in Paths THEN Ent(Outcome(k).final[q]) ELSE None]
OutcomeOK(k) == ~Outcome(k).failed /\ Outcome(k).extra = <<>> /\ RealFs(k) = OnDisk(new)
Viol == (IF \A k \in 1..Len(C.outcomes) : OutcomeOK(k) THEN {} ELSE {"ResultIsNew"})
   \cup (IF C.precommit_untouched THEN {} ELSE {"UntouchedUntilCommit"})
   \cup (IF C.differr = "" THEN {} ELSE {"DiffSucceeds"})
AtStart == phase = "dirs" /\ todo = DirsOf(new) /\ fs = OnDisk(old) /\ ~failed
Report == ~AtStart \/ Viol = {} \/ PrintT(<<"VIOL", l, Viol>>)
\* terminal states of the model: which real outcomes do they explain?
Terminal == phase = "done" \/ failed
Explains(k) == /\ Outcome(k).failed = failed
               /\ (~failed => RealFs(k) = fs /\ Outcome(k).extra = <<>>)
Fin == ~Terminal \/ PrintT(<<"FIN", l, {k \in 1..Len(C.outcomes) : Explains(k)}>>)
=============================================================================
