--------------------------- MODULE Trace_ValOutcome ---------------------------
(* Trace validation for C16 (outcome level): one line per run of the REAL      *)
(* Validate under a damage pattern, a consumer, a cancellation instant chosen  *)
(* through the hooks ("cancel when the main goroutine is about to dispatch     *)
(* file i", "when the worker finished file i", before the start, asynchronous) *)
(* and seeded scheduling jitter under GOMAXPROCS 1..16.                        *)
EXTENDS Integers, Sequences, FiniteSets, Json, TLC
T == ndJsonDeserialize("trace.ndjson")
VARIABLE l
Init == l \in 1..Len(T)
Next == UNCHANGED l
Spec == Init /\ [][Next]_l
Viol(c) ==
  IF ~c.returned THEN {"ValidateReturns"} ELSE
     (IF c.leak = 0 THEN {} ELSE {"NoGoroutineLeftBehind"})
\cup (IF c.consumer = "guardian" /\ c.ret = "nil" /\ c.damaged THEN {"CleanVerdictOnlyIfMatching"} ELSE {})
\cup (IF c.consumer = "guardian" /\ ~c.cancelled /\ ~c.damaged /\ c.ret # "nil" THEN {"UndamagedPassesFailFast"} ELSE {})
\cup (IF c.consumer = "guardian" /\ ~c.cancelled /\ c.damaged /\ c.ret # "wound" THEN {"FailFastReportsWound"} ELSE {})
\cup (IF c.consumer = "failing" /\ ~c.cancelled /\ c.damaged /\ c.ret = "nil" THEN {"ConsumerErrorPropagates"} ELSE {})
\cup (IF c.consumer = "writer" /\ ~c.cancelled /\ (c.ret # "nil" \/ (c.damaged /\ c.woundsinfile <= 0) \/ (~c.damaged /\ c.woundsinfile # 0)) THEN {"WriterRecordsWounds"} ELSE {})
Report == Viol(T[l]) = {} \/ PrintT(<<"VIOL", l, Viol(T[l])>>)
Stats == PrintT(<<"STAT", l, T[l].nfiles, IF T[l].cancelled THEN 1 ELSE 0>>)
=============================================================================
