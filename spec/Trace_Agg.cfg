SPECIFICATION Spec
INVARIANTS Report Drift
CHECK_DEADLOCK FALSE
