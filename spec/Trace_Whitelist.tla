--------------------------- MODULE Trace_Whitelist ---------------------------
(* Trace validation for C17: one line per patch (plain or optimized, decoded  *)
(* independently), with the outcome of the REAL patcher for a family of       *)
(* whitelists: touched count, error, the new-file indices the bowl was asked  *)
(* to write / transpose, the old-file indices opened through the target pool, *)
(* and the snapshot entries of the whitelisted files in the output.           *)
EXTENDS PatchProp, Json, TLC
T == ndJsonDeserialize("trace.ndjson")
VARIABLE l
Init == l \in 1..Len(T)
Next == UNCHANGED l
Spec == Init /\ [][Next]_l
\* old files the series of new file i may read: block-range sources and the bsdiff target
SeriesOf(c, i) == LET j == CHOOSE h \in PHdrs(c) : c.msgs[h].fi = i IN (j + 1)..PSeriesEnd(c, j)
MayRead(c, W) == { c.msgs[q].f : q \in {x \in UNION {SeriesOf(c, i) : i \in W} : c.msgs[x].k = "OP" /\ c.msgs[x].ty = "BR"} }
            \cup { c.msgs[q].tgt : q \in {x \in UNION {SeriesOf(c, i) : i \in W} : c.msgs[x].k = "BH"} }
SubViol(c, s) ==
  LET W == PAsSet(s.wl) IN
     (IF s.err = "" THEN {} ELSE {"FinishesWithoutError"})
\cup (IF s.touched = Cardinality(W) THEN {} ELSE {"TouchedExactlyWhitelisted"})
\cup (IF PAsSet(s.writers) \cup PAsSet(s.transposes) \subseteq W THEN {} ELSE {"BowlOnlyWhitelisted"})
\cup (IF s.err = "" /\ PAsSet(s.writers) \cup PAsSet(s.transposes) # W THEN {"EveryWhitelistedFileProduced"} ELSE {})
\cup (IF PAsSet(s.reads) \subseteq MayRead(c, W) THEN {} ELSE {"OldDataReadOnlyForWhitelisted"})
\cup (IF s.out = s.want /\ Len(s.want) = Cardinality(W) THEN {} ELSE {"WhitelistedFilesEqualFullApplication"})
Viol(c) == IF ~c.decoded THEN {"PatchDecodes"} ELSE IF ~PFraming(c) THEN {"Framing"}
           ELSE UNION {SubViol(c, c.subsets[k]) : k \in 1..Len(c.subsets)}
Report == Viol(T[l]) = {} \/ PrintT(<<"VIOL", l, Viol(T[l])>>)
Stats == PrintT(<<"STAT", l, Len(T[l].subsets), T[l].nbsdiff, T[l].maxtgt>>)
=============================================================================
