------------------------------- MODULE Drip -------------------------------
(* pwr/drip.Writer + the validate closure of pwr.ValidatingPool.GetWriter     *)
(* (pwr/validatingpool.go, pwr/blockvalidator.go), error mode and wound mode. *)
(* Implementation-shaped: one action per Write / Close call, the loop of      *)
(* drip.Writer.Write as a recursive function. Units are abstract              *)
(* (1 unit = 64KiB/BS bytes at real scale). C18.                              *)
EXTENDS DripProp, TLC, Json
CONSTANTS BS, Alphabet, MaxLen, MaxWrite,
          Modes,     \* subset of {"error", "wound"}
          Latch      \* TRUE: a failed Write latches its error (Write/Close fail from then on, nothing is flushed)
RECURSIVE SeqsUpTo(_)
SeqsUpTo(n) == IF n = 0 THEN {<<>>} ELSE LET S == SeqsUpTo(n-1) IN S \cup {Append(s, a) : s \in {t \in S : Len(t) = n-1}, a \in Alphabet}
VARIABLES mode, signed, data,  \* mode; signed content; content the caller wants to write (chosen in Init)
          pos,                 \* units of data already handed to Write
          buf, blockIndex,     \* drip buffer content; validate closure's block counter
          inner,               \* what reached the underlying pool
          wl,                  \* wound mode: markers sent to the wounds channel, in order
          latched,             \* drip writer's sticky error
          everErr,             \* some call returned an error
          closed, hist
vars == <<mode,signed,data,pos,buf,blockIndex,inner,wl,latched,everErr,closed,hist>>
SignedBlock(i) == BBlock(signed, BS, i)
\* ValidateAsError / ValidateAsWound: hash index beyond the group, or hashes differ
Valid(i, d) == i < BNumBlocks(Len(signed), BS) /\ SignedBlock(i) = d
Marker(i, d) == [k |-> IF Valid(i, d) THEN "H" ELSE "W", s |-> i * BS, e |-> i * BS + BBlockSize(Len(signed), BS, i)]
Init == /\ mode \in Modes /\ signed \in SeqsUpTo(MaxLen) /\ data \in SeqsUpTo(MaxLen)
        /\ pos = 0 /\ buf = <<>> /\ blockIndex = 0 /\ inner = <<>> /\ wl = <<>>
        /\ latched = FALSE /\ everErr = FALSE /\ closed = FALSE /\ hist = <<>>
\* the loop of drip.Writer.Write on d: -> <<buf, blockIndex, inner, wl, ok>>
RECURSIVE WriteLoop(_, _, _, _, _)
WriteLoop(d, b, bi, inn, w) ==
  IF d = <<>> THEN <<b, bi, inn, w, TRUE>>
  ELSE LET take == BMin(Len(d), BS - Len(b))
           b1 == b \o SubSeq(d, 1, take)
           d1 == SubSeq(d, take + 1, Len(d))
       IN IF Len(b1) = BS
          THEN IF mode = "wound" THEN WriteLoop(d1, <<>>, bi + 1, inn \o b1, Append(w, Marker(bi, b1)))
               ELSE IF Valid(bi, b1) THEN WriteLoop(d1, <<>>, bi + 1, inn \o b1, w)
               ELSE <<b1, bi + 1, inn, w, FALSE>>   \* error: counter advanced, buffer stays full
          ELSE WriteLoop(d1, b1, bi, inn, w)
Step(op, n, ok) == hist' = Append(hist, [op |-> op, n |-> n, res |-> IF ok THEN "ok" ELSE "err", inner |-> Len(inner'), nw |-> Len(wl')])
Write(n) == /\ ~closed /\ n >= 1 /\ pos + n <= Len(data)
            /\ IF Latch /\ latched
               THEN /\ UNCHANGED <<buf, blockIndex, inner, wl, latched>> /\ everErr' = TRUE /\ Step("write", n, FALSE)
               ELSE LET r == WriteLoop(SubSeq(data, pos + 1, pos + n), buf, blockIndex, inner, wl) IN
                    /\ buf' = r[1] /\ blockIndex' = r[2] /\ inner' = r[3] /\ wl' = r[4]
                    /\ latched' = (latched \/ ~r[5]) /\ everErr' = (everErr \/ ~r[5])
                    /\ Step("write", n, r[5])
            /\ pos' = pos + n
            /\ UNCHANGED <<mode, signed, data, closed>>
Close == /\ ~closed
         /\ IF Latch /\ latched
            THEN /\ UNCHANGED <<buf, blockIndex, inner, wl, latched>> /\ everErr' = TRUE /\ Step("close", 0, FALSE)
            ELSE LET ok == buf = <<>> \/ mode = "wound" \/ Valid(blockIndex, buf) IN
                 /\ inner' = IF buf # <<>> /\ ok THEN inner \o buf ELSE inner
                 /\ wl' = IF buf # <<>> /\ mode = "wound" THEN Append(wl, Marker(blockIndex, buf)) ELSE wl
                 /\ blockIndex' = IF buf # <<>> THEN blockIndex + 1 ELSE blockIndex
                 /\ buf' = IF ok THEN <<>> ELSE buf
                 /\ latched' = (latched \/ ~ok) /\ everErr' = (everErr \/ ~ok)
                 /\ Step("close", 0, ok)
         /\ closed' = TRUE /\ UNCHANGED <<mode, signed, data, pos>>
Next == (\E n \in 1..MaxWrite : Write(n)) \/ Close
Spec == Init /\ [][Next]_vars
Terminating == closed /\ UNCHANGED vars

(* ------------------------------ C18 ------------------------------ *)
(* The abstract layer (DripProp) evaluated on the model's own observables. *)
Good(i) == i < BNumBlocks(Len(signed), BS) /\ SignedBlock(i) = BBlock(SubSeq(data, 1, pos), BS, i)
PropertyHolds == DPViol(mode, BS, Len(signed), pos, closed, Len(inner), inner = SubSeq(data, 1, Len(inner)), everErr, wl, Good) = {}
\* one witness path per transition, for replay on the real pool
EmitEdge == PrintT(<<"EDGE", ToJson([mode |-> mode, signed |-> signed, data |-> data, hist |-> hist'])>>)
View == <<mode,signed,data,pos,buf,blockIndex,inner,wl,latched,everErr,closed>>
=============================================================================
