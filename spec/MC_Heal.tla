------------------------------- MODULE MC_Heal -------------------------------
(* Tree: x/ , x/y/ , x/y/f , x/g , symlink l ; every well-formed damaged disk, every interleaving. *)
EXTENDS Heal
MCPaths == {"x", "x/y", "x/y/f", "x/g", "l"}
MCParent == [p \in MCPaths |-> CASE p = "x" -> "/" [] p = "x/y" -> "x" [] p = "x/y/f" -> "x/y" [] p = "x/g" -> "x" [] p = "l" -> "/"]
MCExpect == [p \in MCPaths |-> CASE p \in {"x", "x/y"} -> "dir" [] p \in {"x/y/f", "x/g"} -> "file" [] p = "l" -> "sym"]
MCDirOrder == <<"x", "x/y">>
MCSymOrder == <<"l">>
MCFileOrder == <<"x/g", "x/y/f">>
=============================================================================
