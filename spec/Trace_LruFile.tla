--------------------------- MODULE Trace_LruFile ---------------------------
(* Trace validation for the read cache of C12: every line is one walk         *)
(* (Read / Seek sequence generated from the LruFile model's state graph)      *)
(* executed on the REAL lrufile.New(chunk, entries) over the same file. The   *)
(* verdict compares every real read with a plain reader of the file; the      *)
(* model's prediction (bytes, EOF, offset, hit/miss counters) is compared too *)
(* (drift).                                                                    *)
EXTENDS Integers, Sequences, FiniteSets, Json, TLC
T == ndJsonDeserialize("trace.ndjson")
VARIABLE l
Init == l \in 1..Len(T)
Next == UNCHANGED l
Spec == Init /\ [][Next]_l
\* plain reader semantics along the walk: position before step k
RECURSIVE PosBefore(_, _)
PosBefore(c, k) == IF k = 1 THEN 0 ELSE c.steps[k-1].off        \* the offset the real object reported after the previous step
\* the file the cache is over at step k: the content given with the last reset, else the initial one
RECURSIVE FileAt(_, _)
FileAt(c, k) == IF k = 0 THEN c.file ELSE IF c.steps[k].op = "reset" THEN c.steps[k].bytes ELSE FileAt(c, k - 1)
StepViol(c, k) ==
  LET st == c.steps[k]
      p == PosBefore(c, k)
      file == FileAt(c, k - 1)
      size == Len(file)
  IN IF st.op \notin {"read", "seek", "reset"} THEN {"ReadReturnsNoError"}       \* "read-error:<text>": Read failed (or panicked) on a healthy file
     ELSE IF st.op = "reset" THEN (IF st.off = 0 /\ ~st.eof THEN {} ELSE {"ResetRewinds"})
     ELSE IF st.op = "read"
     THEN (IF st.bytes = SubSeq(file, p + 1, p + Len(st.bytes)) THEN {} ELSE {"ReadsEqualPlainReader"})
     \cup (IF Len(st.bytes) = (IF p + st.a <= size THEN st.a ELSE size - p) THEN {} ELSE {"ReadLength"})
     \cup (IF Len(st.bytes) < st.a => st.eof THEN {} ELSE {"ShortReadReportsEOF"})
     \cup (IF st.off = p + Len(st.bytes) THEN {} ELSE {"OffsetAdvances"})
     ELSE (IF (st.a >= 0 /\ st.a <= size) => (~st.eof /\ st.off = st.a) THEN {} ELSE {"ValidSeek"})
     \cup (IF (st.a < 0 \/ st.a > size) => st.eof THEN {} ELSE {"InvalidSeekFails"})
Viol(c) == UNION {StepViol(c, k) : k \in 1..Len(c.steps)}
Report == Viol(T[l]) = {} \/ PrintT(<<"VIOL", l, Viol(T[l])>>)
Drift(c) == \E k \in 1..Len(c.steps) :
   ~(c.model[k].bytes = c.steps[k].bytes /\ c.model[k].eof = c.steps[k].eof /\ c.model[k].off = c.steps[k].off
     /\ c.model[k].hits = c.steps[k].hits /\ c.model[k].misses = c.steps[k].misses)
ReportDrift == ~Drift(T[l]) \/ PrintT(<<"DRIFT", l>>)
=============================================================================
