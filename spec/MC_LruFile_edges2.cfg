SPECIFICATION Spec
CONSTANTS
  CS = 1
  NE = 3
  MaxLen = 4
  Alphabet = {0, 1}
  MaxOps = 5
ACTION_CONSTRAINT EmitEdge
VIEW View
CHECK_DEADLOCK FALSE
