SPECIFICATION Spec
CONSTANTS
  BS = 4
  MaxSize = 10
  NFiles = 3
INVARIANTS BlocksExact ReadBackInverts ShortSizeRule
CHECK_DEADLOCK TRUE
