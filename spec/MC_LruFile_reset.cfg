SPECIFICATION SpecRampR
CONSTANTS
  CS = 1
  NE = 2
  MaxLen = 3
  Alphabet = {0, 1}
  MaxOps = 4
INVARIANTS LastIsPlain Capacity
ACTION_CONSTRAINT EmitFull
CHECK_DEADLOCK FALSE
