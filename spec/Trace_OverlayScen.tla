-------------------------- MODULE Trace_OverlayScen --------------------------
(* Trace validation for C02 at real scale: generated build pairs (renames,    *)
(* swaps, chains, duplications with or without the original, patched and      *)
(* renamed, grow / shrink / empty, deleted directories, symlink changes)      *)
(* applied in place by the REAL patcher + overlay bowl, R commits per pair.   *)
EXTENDS Integers, Sequences, FiniteSets, Json, TLC
T == ndJsonDeserialize("trace.ndjson")
VARIABLE l
Init == l \in 1..Len(T)
Next == UNCHANGED l
Spec == Init /\ [][Next]_l
AsSet(s) == {s[k] : k \in 1..Len(s)}
Viol(c) == IF c.differr # "" THEN {"DiffSucceeds"} ELSE
     (IF \A k \in 1..Len(c.errs) : c.errs[k] = "" THEN {} ELSE {"CommitSucceeds"})
\cup (IF \A k \in 1..Len(c.outlists) : AsSet(c.outlists[k]) = AsSet(c.newlist) THEN {} ELSE {"ResultIsNew"})
\cup (IF c.precommit_untouched THEN {} ELSE {"UntouchedUntilCommit"})
Report == Viol(T[l]) = {} \/ PrintT(<<"VIOL", l, Viol(T[l])>>)
Stats == PrintT(<<"STAT", l, Len(T[l].outlists)>>)
=============================================================================
