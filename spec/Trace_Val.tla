------------------------------- MODULE Trace_Val -------------------------------
(* Conformance of the REAL Validate with the goroutine protocol Validator.tla. *)
(* Every line is one free-running execution with seeded jitter; the hooks log   *)
(* each goroutine ("role": m main, w worker, c consumer goroutine, e the        *)
(* environment's cancel) in ITS OWN program order - there are no cross-thread   *)
(* timestamps. The trace spec consumes each role's log in order under any       *)
(* interleaving of the roles; actions without a hook are taken silently. A run  *)
(* is accepted iff some interleaving consumes all logs and ends with the logged *)
(* return value (reported as <<"ACC", ti>>).                                    *)
EXTENDS Validator, Json
TR == ndJsonDeserialize("trace.ndjson")
VARIABLES ti, pos
tvars == <<vars, cfg, ti, pos>>
Roles == {"m", "w", "c", "e"}
Logs == TR[ti].logs
Has(r) == pos[r] <= Len(Logs[r])
Ev(r) == Logs[r][pos[r]]
Adv(r) == pos' = [pos EXCEPT ![r] = @ + 1]
Is(r, p) == Has(r) /\ Ev(r).p = p
Obs(r, p, cond) == Is(r, p) /\ cond /\ Adv(r) /\ UNCHANGED vars          \* pre-hooks: pure observations of the pc
CfgOf(c) == [nf |-> c.nfiles, fk |-> c.kinds, ndw |-> 0, k |-> 1024, cons |-> c.consumer, fa |-> 1, ca |-> TRUE]
TInit == /\ ti \in 1..Len(TR) /\ pos = [r \in Roles |-> 1]
         /\ cfg = CfgOf(TR[ti])
         /\ pcM = "dirs" /\ pcW = "idle" /\ pcC = "do"
         /\ f = 1 /\ dw = 0 /\ cur = 0
         /\ wounds = <<>> /\ woundsClosed = FALSE
         /\ fiClosed = FALSE /\ cancelled = FALSE
         /\ workerErrs = <<>> /\ consumerErrs = <<>>
         /\ ctxDone = FALSE /\ retErr = Nil /\ ret = "none"
         /\ seen = 0 /\ checked = {}
Logged ==
  \/ Obs("m", "m.select", pcM = "loop" /\ f = Ev("m").a + 1)
  \/ (Is("m", "m.sentIndex") /\ f = Ev("m").a + 1 /\ MSendIndex /\ Adv("m"))
  \/ (Is("m", "m.gotConsumerErr") /\ MRecvConsumerErr /\ Adv("m"))
  \/ (Is("m", "m.gotWorkerErr") /\ MRecvWorkerErr /\ Adv("m"))
  \/ (Is("m", "m.closeFI") /\ MCloseFI /\ Adv("m"))
  \/ (Is("m", "m.gotW") /\ MWaitW /\ Adv("m"))
  \/ (Is("m", "m.gotC") /\ MWaitC /\ Adv("m"))
  \/ Obs("w", "w.doOne", pcW = "doOne" /\ cur = Ev("w").a + 1)
  \/ (Is("w", "w.fileDone") /\ cur = Ev("w").a + 1 /\ (WStream \/ WMissingSend \/ WMissingCancelled) /\ Adv("w"))
  \/ (Is("w", "w.closed") /\ fiClosed /\ WClosed /\ Adv("w"))
  \/ (Is("w", "w.cancelled") /\ cancelled /\ WClosed /\ Adv("w"))
  \/ (Is("c", "c.doReturned") /\ pcC = "do" /\ (CRecv \/ CClosed \/ CCtxDone) /\ pcC' = "drain" /\ Adv("c"))
  \/ (Is("e", "e.cancel") /\ Cancel /\ Adv("e"))
Silent == /\ \/ MStartWorker \/ MLoopEnd \/ MDirWound \/ WExit \/ CDrain \/ CDrainEnd
             \/ (pcC = "do" /\ CRecv /\ pcC' = "do")
          /\ UNCHANGED pos
TNext == (Logged \/ Silent) /\ UNCHANGED <<cfg, ti>>
TSpec == TInit /\ [][TNext]_tvars
AllConsumed == \A r \in Roles : pos[r] = Len(Logs[r]) + 1
RealRet == CASE TR[ti].ret = "nil" -> Nil [] TR[ti].ret = "wound" -> "woundErr" [] TR[ti].ret = "cancelled" -> "cancelledErr" [] OTHER -> "ioErr"
RetOK == pcM = "ret" /\ ret = RealRet
Accept == ~(AllConsumed /\ RetOK) \/ PrintT(<<"ACC", ti>>)
\* C16 on the real outcome along an accepted interleaving
RealNoFalseValid == (AllConsumed /\ RetOK /\ TR[ti].consumer = "guardian" /\ TR[ti].ret = "nil") => ~Damage
=============================================================================
