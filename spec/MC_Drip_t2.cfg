SPECIFICATION MCSpec
CONSTANTS
  BS = 3
  Alphabet = {0, 1}
  MaxLen = 6
  MaxWrite = 6
  Modes = {"error", "wound"}
  Latch = TRUE
INVARIANT PropertyHolds
VIEW View
CHECK_DEADLOCK TRUE
