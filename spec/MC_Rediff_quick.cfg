SPECIFICATION Spec
CONSTANTS
  NT = 3
  ForceMapAll = FALSE
  SizeLimit = 0
  TieFix = FALSE
INVARIANTS WellFormedOutput BestTarget RespectsLimit
CHECK_DEADLOCK TRUE
