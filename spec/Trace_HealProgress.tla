-------------------------- MODULE Trace_HealProgress --------------------------
(* Trace validation of the REAL archive healer's progress accounting: one line per  *)
(* healed build (sizes of its files, one damage per file, the totals the healer     *)
(* reports and the fractions it handed to Consumer.Progress, as numerators).        *)
(*   OBS    the reported fraction left [0,1] or did not end at 1 (contract of       *)
(*          HealProgress.tla: ProgressBounded, FinalExact) - an observation: the     *)
(*          healer's accounting is not one of the listed properties                  *)
(*   DRIFT  totals differ from what HealProgress.tla's Events/Fold predict          *)
EXTENDS HealProgress, Json
T == ndJsonDeserialize("trace.ndjson")
VARIABLE l
TInit == /\ l \in 1..Len(T)
         /\ size = <<>> /\ disk = <<>> /\ ord = <<>> /\ reported = FALSE /\ pos = <<>> /\ queued = {} /\ toHeal = <<>>
         /\ healthy = 0 /\ healing = 0 /\ healed = 0 /\ corrupted = 0
TNext == UNCHANGED <<l, vars>>
TSpec == TInit /\ [][TNext]_<<l, vars>>
TBS == 65536
TKinds == {"ok", "flip", "short", "long", "missing"}
Tot(c, f) == FileTotals(c.sizes[f], c.disks[f])
\* corrupted and healed do not depend on the order of a file's events, the healthy count does
AnyTot(c, f) == CHOOSE t \in Tot(c, f) : TRUE
RECURSIVE SumF(_, _, _)
SumF(c, n, field) == IF n = 0 THEN 0
                     ELSE SumF(c, n - 1, field)
                          + (IF field = "corrupted" THEN AnyTot(c, n).corrupted
                             ELSE IF AnyTot(c, n).q THEN c.sizes[n] ELSE 0)
ExpHealed(c) == SumF(c, Len(c.sizes), "healed")
ExpCorrupted(c) == SumF(c, Len(c.sizes), "corrupted")
RECURSIVE Healthies(_, _)
Healthies(c, n) == IF n = 0 THEN {0} ELSE {a + t.healthy : a \in Healthies(c, n - 1), t \in Tot(c, n)}
ExpFinal(c) == {h + ExpHealed(c) : h \in Healthies(c, Len(c.sizes))}
OrderFree(c) == \A f \in 1..Len(c.sizes) : \A t1, t2 \in Tot(c, f) : t1.corrupted = t2.corrupted /\ t1.q = t2.q
Viol(c) == (IF c.maxnum > c.total THEN {"ProgressAboveOne"} ELSE {})
           \cup (IF c.total > 0 /\ c.finalnum # c.total THEN {"FinalNotOne"} ELSE {})
           \cup (IF c.nan > 0 THEN {"ProgressNotANumber"} ELSE {})
           \cup (IF c.backwards > 0 THEN {"ProgressBackwards"} ELSE {})
RECURSIVE SumExcess(_, _)
SumExcess(c, n) == IF n = 0 THEN 0 ELSE SumExcess(c, n - 1) + ScanExcess(c.sizes[n], c.disks[n])
ScanViol(c) == (IF c.scanmaxnum > c.total THEN {"ScanAboveOne"} ELSE {})
               \cup (IF c.scanbackwards > 0 THEN {"ScanBackwards"} ELSE {})
               \cup (IF c.scannan > 0 THEN {"ScanNotANumber"} ELSE {})
ScanReport == ScanViol(T[l]) = {} \/ PrintT(<<"SCANOBS", l, ScanViol(T[l])>>)
ScanDrift == T[l].scanerr # "" \/ T[l].total = 0
             \/ ( /\ T[l].scanfinalnum = T[l].total
                  /\ T[l].scanmaxnum <= T[l].total + SumExcess(T[l], Len(T[l].sizes))
                  /\ T[l].scanmaxnum >= T[l].total
                  /\ (Len(T[l].sizes) = 1 => T[l].scanmaxnum = T[l].total + SumExcess(T[l], 1)) )
             \/ PrintT(<<"SCANDRIFT", l, SumExcess(T[l], Len(T[l].sizes))>>)
Report == Viol(T[l]) = {} \/ PrintT(<<"OBS", l, Viol(T[l])>>)
\* the heal itself must have worked, or the line says nothing about accounting
Usable(c) == c.err = "" /\ c.aftererr = ""
Drift == ~Usable(T[l])
         \/ ( /\ T[l].healed = ExpHealed(T[l])
              /\ T[l].corrupted = ExpCorrupted(T[l])
              /\ (T[l].total = 0 \/ T[l].finalnum \in ExpFinal(T[l]))
              /\ OrderFree(T[l]) )
         \/ PrintT(<<"DRIFT", l, ExpHealed(T[l]), ExpCorrupted(T[l]), ExpFinal(T[l])>>)
Unusable == Usable(T[l]) \/ PrintT(<<"UNUSABLE", l>>)
=============================================================================
