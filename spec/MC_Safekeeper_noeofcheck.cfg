SPECIFICATION Spec
CONSTANTS
  BS = 2
  C = 1
  MaxLen = 5
  Alphabet = {0, 1}
  Repaired = TRUE
  EOFChecked = FALSE
INVARIANTS NeverSilentlyWrong UndamagedAccepted
CHECK_DEADLOCK TRUE
