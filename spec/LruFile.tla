------------------------------ MODULE LruFile ------------------------------
(* bsdiff/lrufile: chunked LRU read cache over an io.ReadSeeker. Geometry is a constructor *)
(* parameter, so the real object runs at model scale. Prototype for C12.                    *)
EXTENDS Integers, Sequences, FiniteSets, TLC, Json
CONSTANTS CS, NE, MaxLen, Alphabet, MaxOps
RECURSIVE SeqsUpTo(_)
SeqsUpTo(n) == IF n = 0 THEN {<<>>} ELSE LET S == SeqsUpTo(n-1) IN S \cup {Append(s, a) : s \in {t \in S : Len(t) = n-1}, a \in Alphabet}
VARIABLES file,         \* content of the underlying file (input)
          off,          \* lf.offset
          lru,          \* sequence of chunk indices, most recent last (simplelru order)
          slot,         \* [chunk index -> storage slot] for cached chunks
          hits, misses, nops, hist
vars == <<file,off,lru,slot,hits,misses,nops,hist>>
Min(a,b) == IF a < b THEN a ELSE b
Size == Len(file)
Init == /\ file \in SeqsUpTo(MaxLen) /\ off = 0 /\ lru = <<>> /\ slot = <<>>
        /\ hits = 0 /\ misses = 0 /\ nops = 0 /\ hist = <<>>
Remove(s, x) == SelectSeq(s, LAMBDA y : y # x)
\* getChunk(c): hit => move to front; miss => Add (evicting the oldest when full), lowest free slot
Touch(st, c) ==                             \* st = <<lru, slotmap(as set of <<chunk,slot>>), hits, misses>>
  IF \E p \in st[2] : p[1] = c
  THEN <<Append(Remove(st[1], c), c), st[2], st[3] + 1, st[4]>>
  ELSE LET full == Len(st[1]) >= NE
           victim == Head(st[1])
           l1 == IF full THEN Tail(st[1]) ELSE st[1]
           m1 == IF full THEN {p \in st[2] : p[1] # victim} ELSE st[2]
           used == {p[2] : p \in m1}
           free == CHOOSE k \in 0..(NE-1) : k \notin used /\ \A j \in 0..(NE-1) : j \notin used => k <= j
       IN <<Append(l1, c), m1 \cup {<<c, free>>}, st[3], st[4] + 1>>
\* Read(buf) with len(buf) = n
RECURSIVE ReadLoop(_, _, _, _)
ReadLoop(rem, o, st, acc) ==               \* -> <<bytes, offset, st, eof>>
  IF rem = 0 THEN <<acc, o, st, FALSE>>
  ELSE LET c == o \div CS
           st1 == Touch(st, c)
           start == o % CS
           cstart == c * CS
           cend0 == cstart + CS
           lastChunk == cend0 > Size
           csize == (IF lastChunk THEN Size ELSE cend0) - cstart
           end0 == start + rem
           clipped == end0 > csize
           end == IF clipped THEN csize ELSE end0
           eof == clipped /\ lastChunk
           got == IF end > start THEN SubSeq(file, cstart + start + 1, cstart + end) ELSE <<>>
       IN IF eof THEN <<acc \o got, o + Len(got), st1, TRUE>>
          ELSE ReadLoop(rem - Len(got), o + Len(got), st1, acc \o got)
SlotSet == {<<lru[i], slot[i]>> : i \in 1..Len(lru)}
Read(n) == /\ nops < MaxOps
           /\ LET r == ReadLoop(n, off, <<lru, SlotSet, hits, misses>>, <<>>)
                  l2 == r[3][1]
              IN /\ off' = r[2] /\ lru' = l2
                 /\ slot' = [i \in 1..Len(l2) |-> (CHOOSE p \in r[3][2] : p[1] = l2[i])[2]]
                 /\ hits' = r[3][3] /\ misses' = r[3][4]
                 /\ hist' = Append(hist, [op |-> "read", a |-> n, bytes |-> r[1], eof |-> r[4], off |-> r[2], hits |-> r[3][3], misses |-> r[3][4]])
           /\ nops' = nops + 1 /\ UNCHANGED file
Seek(o) == /\ nops < MaxOps
           /\ LET ok == o >= 0 /\ o <= Size IN
              /\ off' = IF ok THEN o ELSE 0
              /\ hist' = Append(hist, [op |-> "seek", a |-> o, bytes |-> <<>>, eof |-> ~ok, off |-> off', hits |-> hits, misses |-> misses])
           /\ nops' = nops + 1 /\ UNCHANGED <<file, lru, slot, hits, misses>>
\* Reset(rs): the cache object is handed another file (the patcher keeps ONE cache for all old files of a patch):
\* everything cached is forgotten, counters restart. `same`: the caller passes the very same reader object, whose
\* content changed underneath (same length) - nothing may survive that either.
Reverse(s) == [i \in 1..Len(s) |-> s[Len(s) + 1 - i]]
Reset(same) == /\ nops < MaxOps
               /\ file' = Reverse(file) /\ off' = 0 /\ lru' = <<>> /\ slot' = <<>> /\ hits' = 0 /\ misses' = 0
               /\ hist' = Append(hist, [op |-> "reset", a |-> IF same THEN 0 ELSE 1, bytes |-> Reverse(file), eof |-> FALSE, off |-> 0, hits |-> 0, misses |-> 0])
               /\ nops' = nops + 1
Next == (\E n \in 1..(MaxLen + 1) : Read(n)) \/ (\E o \in 0..(MaxLen + 1) : Seek(o))
NextR == Next \/ (\E same \in BOOLEAN : Reset(same))
Spec == Init /\ [][Next]_vars
Terminating == nops = MaxOps /\ UNCHANGED vars
MCSpec == Init /\ [][Next \/ Terminating]_vars
(* C12 (cache part): reads equal a plain reader; cache never exceeds its capacity; slots are distinct *)
LastIsPlain == hist # <<>> /\ hist[Len(hist)].op = "read" =>
                 LET h == hist[Len(hist)]
                     before == h.off - Len(h.bytes)
                 IN h.bytes = SubSeq(file, before + 1, h.off) /\ (Len(h.bytes) < h.a => h.eof)
Capacity == Len(lru) <= NE /\ Cardinality({slot[i] : i \in 1..Len(slot)}) = Len(slot)
EmitEdge == PrintT(<<"EDGE", ToJson([file |-> file, hist |-> hist'])>>)
View == <<file, off, lru, slot, nops>>
(* History-complete enumeration. The witness walks above cover every transition of THIS model's state graph; a     *)
(* defect of the real cache has a state of its own (two chunks sharing a slot, a slot marked free while in use)   *)
(* that only some histories reach. Here the walk itself is the state (no VIEW): every sequence of MaxOps reads    *)
(* and seeks over ONE file whose bytes are pairwise different, so that a chunk served from the wrong slot shows.   *)
InitRamp == /\ file = [i \in 1..MaxLen |-> i - 1] /\ off = 0 /\ lru = <<>> /\ slot = <<>>
            /\ hits = 0 /\ misses = 0 /\ nops = 0 /\ hist = <<>>
SpecRamp == InitRamp /\ [][Next]_vars
SpecRampR == InitRamp /\ [][NextR]_vars            \* ... with resets
EmitFull == nops' < MaxOps \/ PrintT(<<"EDGE", ToJson([file |-> [i \in 1..MaxLen |-> i - 1], hist |-> hist'])>>)   \* (file: the INITIAL content)
=============================================================================
