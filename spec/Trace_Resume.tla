----------------------------- MODULE Trace_Resume -----------------------------
(* Trace validation for C03. One line per (build pair, patch kind,            *)
(* compression, bowl kind):                                                   *)
(*  - msgs: the patch decoded by an independent parser, with running          *)
(*    positions (pos/off) and stream offsets (start/end) of every message;    *)
(*  - cps: the fields of every checkpoint the REAL patcher handed to an       *)
(*    always-save consumer during an uninterrupted run (gob-encoded at Save); *)
(*  - tests: REAL interrupted runs (stopped at checkpoint k+lag, unsynced     *)
(*    suffixes of files written after checkpoint k lost), resumed from the    *)
(*    gob-decoded checkpoint k in a brand-new patcher + bowl, possibly        *)
(*    stopped and resumed again; the committed tree.                          *)
EXTENDS PatchProp, Json, TLC
T == ndJsonDeserialize("trace.ndjson")
VARIABLE l
Init == l \in 1..Len(T)
Next == UNCHANGED l
Spec == Init /\ [][Next]_l
\* header of the series message j belongs to
HdrOf(c, j) == CHOOSE h \in PHdrs(c) : h <= j /\ \A g \in PHdrs(c) : g <= j => g <= h
WholeFile(c, h) == LET op == c.msgs[h + 1] sz == c.ssizes[c.msgs[h].fi + 1] IN
   /\ c.msgs[h].ty = "R" /\ op.k = "OP" /\ op.ty = "BR" /\ op.i = 0
   /\ op.f >= 0 /\ op.f < Len(c.tsizes) /\ c.tsizes[op.f + 1] = sz /\ op.n = PNumBlocks(sz)
\* message j is followed by a loop top of processRsync / processBsdiff (a place where a checkpoint can be taken)
LoopTopAfter(c, j) ==
  LET m == c.msgs[j] h == HdrOf(c, j) IN
  IF m.k = "OP" THEN m.ty \in {"BR", "DATA"} /\ c.msgs[h].ty = "R" /\ ~WholeFile(c, h)
  ELSE IF m.k = "BH" THEN TRUE
  ELSE IF m.k = "CTL" THEN ~m.eof
  ELSE FALSE
\* what the checkpoint taken after message j must say
CpOK(c, cp, j) ==
  LET m == c.msgs[j] h == HdrOf(c, j) IN
  /\ LoopTopAfter(c, j)
  /\ cp.fi = c.msgs[h].fi /\ cp.shfi = cp.fi
  /\ cp.srcoff >= 0 /\ cp.srcoff <= cp.moff
  /\ IF c.msgs[h].ty = "R"
     THEN cp.kind = 1 /\ cp.woff = m.pos + m.len
     ELSE /\ cp.kind = 2 /\ cp.tgt = c.msgs[h + 1].tgt
          /\ IF m.k = "BH" THEN cp.woff = 0 /\ cp.oldoff = 0
             ELSE cp.woff = m.pos + m.len /\ cp.oldoff = m.off + m.add + m.seek
  /\ (cp.ovread # -1 => cp.ovread = cp.woff /\ cp.ovoff >= 0)
  /\ (c.bowl = "overlay" => cp.nover + cp.nmove + cp.ntrans <= Len(c.ssizes))
CpSane(c, k) == \E j \in 1..Len(c.msgs) : c.msgs[j].end = c.cps[k].moff /\ CpOK(c, c.cps[k], j)
\* checkpoints make progress through the stream
CpOrdered(c) == \A k \in 1..(Len(c.cps) - 1) : c.cps[k].moff < c.cps[k + 1].moff
\* with a byte-granular source (no compression) and a consumer that always wants to save, the save protocol is
\* deterministic: prediction of the boundaries at which a checkpoint is handed over (three-state machine of
\* wire.ReadContext, one transition per loop top and per message read)
RECURSIVE Predict(_, _, _, _)
Predict(c, j, st, acc) ==       \* j = number of messages read so far
  IF j > Len(c.msgs) THEN acc
  ELSE LET top == j >= 1 /\ LoopTopAfter(c, j)
           st1 == IF top THEN (IF st = "idle" THEN "waiting" ELSE IF st = "has" THEN "idle" ELSE st) ELSE st
           acc1 == IF top /\ st = "has" THEN Append(acc, c.msgs[j].end) ELSE acc
           st2 == IF j < Len(c.msgs) /\ st1 = "waiting" THEN "has" ELSE st1     \* reading message j+1
       IN Predict(c, j + 1, st2, acc1)
Predicted(c) == Predict(c, 0, "idle", <<>>)
Actual(c) == [k \in 1..Len(c.cps) |-> c.cps[k].moff]
\* "a consumer that always asks to save is eventually given checkpoints": at most two loop tops pass between
\* consecutive checkpoints when the source can save at any byte
LoopTops(c) == {j \in 1..Len(c.msgs) : LoopTopAfter(c, j)}
\* (a save requested at one loop top can only be handed out at a LATER loop top: the reader produces the checkpoint
\*  while it reads the next message. A patch with a single loop top in all cannot hand out any checkpoint.)
Eventually(c) == (c.algo = "NONE" /\ Cardinality(LoopTops(c)) >= 2) =>
   \A j \in LoopTops(c) : \E k \in 1..Len(c.cps) :
       \E q \in LoopTops(c) : c.msgs[q].end = c.cps[k].moff /\ Cardinality({x \in LoopTops(c) : (x > j /\ x <= q) \/ (x >= q /\ x < j)}) <= 2
TestViol(c, t) ==
     (IF t.err = "" THEN {} ELSE {"ResumeCompletes"})
\cup (IF PAsSet(t.out) = PAsSet(c.new) THEN {} ELSE {"ResumedResultIsUninterruptedResult"})
Viol(c) ==
  IF ~c.decoded THEN {"PatchDecodes"} ELSE IF ~PFraming(c) THEN {"Framing"} ELSE
     (IF c.referr = "" /\ PAsSet(c.refout) = PAsSet(c.new) THEN {} ELSE {"UninterruptedRunYieldsNew"})
\cup (IF \A k \in 1..Len(c.cps) : CpSane(c, k) THEN {} ELSE {"CheckpointConsistent"})
\cup (IF CpOrdered(c) THEN {} ELSE {"CheckpointsAdvance"})
\cup (IF Eventually(c) THEN {} ELSE {"EventuallyGivenCheckpoints"})
\cup UNION {TestViol(c, c.tests[k]) : k \in 1..Len(c.tests)}
Report == Viol(T[l]) = {} \/ PrintT(<<"VIOL", l, Viol(T[l])>>)
Drift(c) == c.decoded /\ PFraming(c) /\ c.algo = "NONE" /\ Predicted(c) # Actual(c)
ReportDrift == ~Drift(T[l]) \/ PrintT(<<"DRIFT", l>>)
Other(c) == IF c.precommit_untouched THEN {} ELSE {"C02.UntouchedUntilCommit"}
ReportOther == Other(T[l]) = {} \/ PrintT(<<"OTHER", l, Other(T[l])>>)
Stats == PrintT(<<"STAT", l, Len(T[l].cps), Len(T[l].tests), Cardinality(LoopTops(T[l]))>>)
=============================================================================
