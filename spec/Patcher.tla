------------------------------ MODULE Patcher ------------------------------
(* pwr/patcher: savingPatcher.Resume / processRsync / processBsdiff / skipFile, with the  *)
(* SaveConsumer protocol, crash and resume into a brand-new patcher + fresh bowl.          *)
(* Data is abstract: every byte the patch produces is a piece <<message index, unit>>.     *)
(* Each message carries f1 = the value a reader sees in protobuf field 1 when it decodes   *)
(* the message as a SyncOp (this is how skipFile recognises the end marker).               *)
(* Prototype for C03 / C17.                                                                *)
EXTENDS Integers, Sequences, FiniteSets, TLC
CONSTANTS NF,           \* number of files in the new build
          Targets,      \* possible bsdiff target indices (include 2049 to explore aliasing)
          MaxResumes,
          UseWhitelist, \* TRUE: explore every whitelist; FALSE: no whitelist (C03)
          SkipReadsBH   \* TRUE: skipFile consumes the BsdiffHeader of a bsdiff series before looking for the end marker
END == 2049
SH(i, ty)        == [k |-> "SH", fi |-> i, ty |-> ty, f1 |-> IF ty = "B" THEN 1 ELSE 0, sz |-> 0, full |-> FALSE, eof |-> FALSE, seek |-> 0]
BH(t)            == [k |-> "BH", fi |-> 0, ty |-> "", f1 |-> t, sz |-> 0, full |-> FALSE, eof |-> FALSE, seek |-> t]
OPR(sz, full)    == [k |-> "OP", fi |-> 0, ty |-> "BR", f1 |-> 0, sz |-> sz, full |-> full, eof |-> FALSE, seek |-> 0]
OPD(sz)          == [k |-> "OP", fi |-> 0, ty |-> "DATA", f1 |-> 1, sz |-> sz, full |-> FALSE, eof |-> FALSE, seek |-> 0]
OPE              == [k |-> "OP", fi |-> 0, ty |-> "END", f1 |-> END, sz |-> 0, full |-> FALSE, eof |-> FALSE, seek |-> 0]
CTL(sz, sk)      == [k |-> "CTL", fi |-> 0, ty |-> "", f1 |-> 0, sz |-> sz, full |-> FALSE, eof |-> FALSE, seek |-> sk]
CEOF             == [k |-> "CTL", fi |-> 0, ty |-> "", f1 |-> 0, sz |-> 0, full |-> FALSE, eof |-> TRUE, seek |-> 0]
\* the series a differ / optimizer can emit for one file
Series(i) == { <<SH(i,"R"), OPR(2, TRUE), OPE>>,                       \* whole-file copy / rename
               <<SH(i,"R"), OPR(2, TRUE), OPD(0), OPE>>,               \* ... with the historical trailing empty DATA
               <<SH(i,"R"), OPD(0), OPE>>,                             \* empty file
               <<SH(i,"R"), OPD(2), OPE>>,                             \* brand new
               <<SH(i,"R"), OPR(1, FALSE), OPD(1), OPR(1, FALSE), OPE>> }  \* patched
         \cup { <<SH(i,"B"), BH(t), CTL(1, 1), CTL(2, 0), CEOF, OPE>> : t \in Targets }
RECURSIVE Patches(_)
Patches(i) == IF i = NF THEN {<<>>} ELSE {s \o rest : s \in Series(i), rest \in Patches(i + 1)}

VARIABLES patch, wl,                 \* inputs: the patch, the whitelist (set of file indices)
          mi, fi, phase, wOff, oldOff, tgt, touched,
          saveSt,                    \* "idle" | "waiting" | "has"   (wire.ReadContext save state)
          out,                       \* [0..NF-1 -> sequence of pieces]: output folder (survives crashes)
          cps,                       \* checkpoints handed to the SaveConsumer in this lineage
          status, resumes, calls     \* calls: file indices the bowl / target pool were asked about
vars == <<patch,wl,mi,fi,phase,wOff,oldOff,tgt,touched,saveSt,out,cps,status,resumes,calls>>
Files == 0..(NF-1)
Pieces(m, j) == IF m.full THEN <<<<j, 0>>>> ELSE [u \in 1..m.sz |-> <<j, u>>]
\* positional write at offset o (files are opened without truncation)
Overwrite(s, o, ps) == [p \in 1..(IF o + Len(ps) > Len(s) THEN o + Len(ps) ELSE Len(s)) |->
                          IF p > o /\ p <= o + Len(ps) THEN ps[p - o] ELSE s[p]]
\* reference = uninterrupted full application
RECURSIVE RefFrom(_, _, _)
RefFrom(j, i, acc) == IF j > Len(patch) THEN acc
                      ELSE LET m == patch[j] IN
                           IF m.k = "SH" THEN RefFrom(j + 1, m.fi, acc)
                           ELSE IF m.k \in {"OP","CTL"} /\ (m.sz > 0 \/ m.full) THEN RefFrom(j + 1, i, [acc EXCEPT ![i] = @ \o Pieces(m, j)])
                           ELSE RefFrom(j + 1, i, acc)
Ref == RefFrom(1, 0, [i \in Files |-> <<>>])

Init == /\ patch \in Patches(0)
        /\ wl \in (IF UseWhitelist THEN SUBSET Files ELSE {Files})
        /\ mi = 1 /\ fi = 0 /\ phase = "hdr" /\ wOff = 0 /\ oldOff = 0 /\ tgt = 0 /\ touched = 0
        /\ saveSt = "idle" /\ out = [i \in Files |-> <<>>] /\ cps = <<>>
        /\ status = "run" /\ resumes = 0 /\ calls = {}
M == patch[mi]
Running == status = "run" /\ mi <= Len(patch)
EndFile(t) == /\ fi' = fi + 1 /\ phase' = "hdr" /\ touched' = touched + t
              /\ status' = IF fi + 1 = NF THEN "done" ELSE "run"
\* the source hands the reader a checkpoint during some read after WantSave
SaveProgress == IF saveSt = "waiting" THEN saveSt' \in {"waiting", "has"} ELSE saveSt' = saveSt

ReadHeader == /\ Running /\ phase = "hdr"
              /\ IF M.k # "SH" \/ M.fi # fi THEN status' = "err" /\ UNCHANGED <<phase>>
                 ELSE /\ status' = "run"
                      /\ phase' = IF fi \notin wl THEN (IF SkipReadsBH /\ M.ty = "B" THEN "skipbh" ELSE "skip")
                                  ELSE IF M.ty = "R" THEN "first" ELSE "bh"
              /\ mi' = mi + 1 /\ SaveProgress
              /\ UNCHANGED <<patch,wl,fi,wOff,oldOff,tgt,touched,out,cps,resumes,calls>>
\* skipFile: read messages AS SyncOp until field 1 says HEY_YOU_DID_IT
Skip == /\ Running /\ phase = "skip"
        /\ mi' = mi + 1 /\ SaveProgress
        /\ IF M.f1 = END THEN EndFile(0) ELSE UNCHANGED <<fi,phase,touched,status>>
        /\ UNCHANGED <<patch,wl,wOff,oldOff,tgt,out,cps,resumes,calls>>
\* repaired skipFile: the bsdiff header is read as what it is
SkipBH == /\ Running /\ phase = "skipbh"
          /\ mi' = mi + 1 /\ SaveProgress /\ phase' = "skip"
          /\ UNCHANGED <<patch,wl,fi,wOff,oldOff,tgt,touched,out,cps,status,resumes,calls>>
First == /\ Running /\ phase = "first"
         /\ mi' = mi + 1 /\ SaveProgress /\ calls' = calls \cup {fi}
         /\ IF M.full THEN /\ out' = [out EXCEPT ![fi] = Pieces(M, mi)]     \* bowl.Transpose
                           /\ phase' = "fullend" /\ wOff' = 0
                      ELSE /\ out' = [out EXCEPT ![fi] = Overwrite(@, 0, Pieces(M, mi))]
                           /\ phase' = "ops" /\ wOff' = M.sz
         /\ UNCHANGED <<patch,wl,fi,oldOff,tgt,touched,cps,status,resumes>>
FullEnd == /\ Running /\ phase = "fullend"
           /\ mi' = mi + 1 /\ SaveProgress
           /\ IF M.f1 = END THEN EndFile(1) ELSE UNCHANGED <<fi,phase,touched,status>>
           /\ UNCHANGED <<patch,wl,wOff,oldOff,tgt,out,cps,resumes,calls>>
ReadOp == /\ Running /\ phase = "ops"
          /\ mi' = mi + 1 /\ SaveProgress
          /\ IF M.f1 = END THEN EndFile(1) /\ UNCHANGED <<out,wOff>>
             ELSE /\ out' = [out EXCEPT ![fi] = Overwrite(@, wOff, Pieces(M, mi))]
                  /\ wOff' = wOff + M.sz /\ UNCHANGED <<fi,phase,touched,status>>
          /\ UNCHANGED <<patch,wl,oldOff,tgt,cps,resumes,calls>>
ReadBH == /\ Running /\ phase = "bh"
          /\ mi' = mi + 1 /\ SaveProgress /\ calls' = calls \cup {fi}
          /\ tgt' = M.seek /\ oldOff' = 0 /\ wOff' = 0 /\ phase' = "ctl"
          /\ UNCHANGED <<patch,wl,fi,touched,out,cps,status,resumes>>
ReadCtl == /\ Running /\ phase = "ctl"
           /\ mi' = mi + 1 /\ SaveProgress
           /\ IF M.eof THEN phase' = "sentinel" /\ UNCHANGED <<out,wOff,oldOff>>
              ELSE /\ out' = [out EXCEPT ![fi] = Overwrite(@, wOff, Pieces(M, mi))]
                   /\ wOff' = wOff + M.sz /\ oldOff' = oldOff + M.sz + M.seek /\ UNCHANGED phase
           /\ UNCHANGED <<patch,wl,fi,tgt,touched,cps,status,resumes,calls>>
Sentinel == /\ Running /\ phase = "sentinel"
            /\ mi' = mi + 1 /\ SaveProgress
            /\ IF M.f1 = END /\ wOff = Len(Ref[fi]) THEN EndFile(1) ELSE status' = "err" /\ UNCHANGED <<fi,phase,touched>>
            /\ UNCHANGED <<patch,wl,wOff,oldOff,tgt,out,cps,resumes,calls>>
\* loop top of processRsync / processBsdiff: ShouldSave -> WantSave -> PopCheckpoint -> Save
AtLoopTop == status = "run" /\ phase \in {"ops", "ctl"}
WantSave == /\ AtLoopTop /\ saveSt = "idle" /\ saveSt' = "waiting"
            /\ UNCHANGED <<patch,wl,mi,fi,phase,wOff,oldOff,tgt,touched,out,cps,status,resumes,calls>>
Checkpoint == [mi |-> mi, fi |-> fi, phase |-> phase, wOff |-> wOff, oldOff |-> oldOff, tgt |-> tgt,
               lens |-> [i \in Files |-> Len(out[i])]]
Save(stop) == /\ AtLoopTop /\ saveSt = "has"
              /\ cps' = Append(cps, Checkpoint) /\ saveSt' = "idle"
              /\ status' = IF stop THEN "stopped" ELSE "run"
              /\ UNCHANGED <<patch,wl,mi,fi,phase,wOff,oldOff,tgt,touched,out,resumes,calls>>
\* stop/crash, then a NEW patcher and a NEW bowl resume from a serialized checkpoint of this lineage;
\* writes made after that checkpoint are wholly or partly on disk
Resume(k, keepAll) ==
  /\ status \in {"run", "stopped"} /\ resumes < MaxResumes /\ k \in 1..Len(cps)
  /\ (status = "stopped" => k = Len(cps))
  /\ LET c == cps[k] IN
     /\ mi' = c.mi /\ fi' = c.fi /\ phase' = c.phase /\ wOff' = c.wOff /\ oldOff' = c.oldOff /\ tgt' = c.tgt
     /\ out' = [i \in Files |-> IF keepAll THEN out[i] ELSE SubSeq(out[i], 1, c.lens[i])]
     /\ cps' = SubSeq(cps, 1, k)
  /\ saveSt' = "idle" /\ status' = "run" /\ resumes' = resumes + 1 /\ touched' = 0
  /\ calls' = {}
  /\ UNCHANGED <<patch, wl>>
Terminating == status \in {"done", "err"} /\ UNCHANGED vars
Next == Terminating \/ ReadHeader \/ Skip \/ SkipBH \/ First \/ FullEnd \/ ReadOp \/ ReadBH \/ ReadCtl \/ Sentinel
        \/ WantSave \/ Save(TRUE) \/ Save(FALSE)
        \/ (\E k \in 1..Len(cps), ka \in BOOLEAN : Resume(k, ka))
Spec == Init /\ [][Next]_vars

(* ---- C03 ---- *)
FinalSize(i) == Len(Ref[i])                                     \* the fresh bowl truncates to the container size
ResultIsRef == status = "done" => \A i \in wl : SubSeq(out[i], 1, FinalSize(i)) = Ref[i] /\ Len(out[i]) >= FinalSize(i)
NeverErr == status # "err"
CheckpointSane == \A k \in 1..Len(cps) : cps[k].mi <= Len(patch) /\ patch[cps[k].mi].k \in {"OP", "CTL"}
(* ---- C17 ---- *)
TouchedExactly == (status = "done" /\ resumes = 0) => touched = Cardinality(wl)
OnlyWhitelisted == calls \subseteq wl
=============================================================================
