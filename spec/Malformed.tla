------------------------------ MODULE Malformed ------------------------------
(* C10: what the readers of downloaded artifacts do with a stream whose      *)
(* framed messages carry arbitrary field values, or that stops early.        *)
(*                                                                           *)
(* Implementation-shaped: one action per ReadMessage of                      *)
(*   pwr/patcher/patcher.go (Resume, skipFile), patcher_rsync.go             *)
(*   (processRsync, isFullFileOp, makeWop -> wsync.ApplySingle),             *)
(*   patcher_bsdiff.go (processBsdiff -> bsdiff Apply, sentinel, size),      *)
(*   pwr/rediff/rediff.go (analyzePatch then Optimize over the same stream), *)
(*   pwr/sign.go ReadSignature + pwr/hashinfo.go ComputeHashInfo,            *)
(*   pwr/overlay/overlay_patch.go Patch.                                     *)
(* A message is modelled at WIRE level (protobuf field number -> value): the *)
(* readers decode whatever comes next as the type they expect, fields of the *)
(* wrong wire type are ignored (golang/protobuf keeps them as unknown), so a *)
(* bsdiff control read as a SyncOp is a BLOCK_RANGE of file 0 and so on.     *)
(* Every subscript the code performs with a value read from the stream is an *)
(* explicit precondition here: where the code has no check the machine ends  *)
(* in outcome "panic"; Checked = TRUE is the code with its bounds checks.    *)
(* Sizes and lengths are real byte counts (BS = 65536); values beyond Big in *)
(* magnitude stand for "huge" and are never multiplied.                      *)
EXTENDS Integers, Sequences, FiniteSets, TLC

CONSTANTS BS,          \* block size
          UTSizes,     \* MC universe: old container file sizes
          USSizes,     \* MC universe: new container file sizes
          USamePath,   \* MC universe: per new file, index of the old file with the same path or -1
          Checked,     \* TRUE: bounds checks present (current code); FALSE: the code as found
          MaxMut,      \* MC: mutations applied to a valid stream
          CutMut,      \* MC: truncations are combined with at most this many mutations
          Consumers    \* MC: which readers to explore

VARIABLES cons, base, tsz, ssz, spath, msgs, cutk, how, nmut, r
input == <<cons, base, tsz, ssz, spath, msgs, cutk, how, nmut>>
vars == <<input, r>>

Big == 10000
HUGE == 1073741824
END == 2049
OEND == 2040

NT == Len(tsz)
NS == Len(ssz)
NumBlocks(sz) == (sz + BS - 1) \div BS
InT(i) == i >= 0 /\ i < NT

(* ------------------------------ wire-level messages ------------------------------ *)
Z == [v1 |-> 0, e1 |-> 0, v2 |-> 0, v3 |-> 0, v4 |-> 0, v16 |-> 0, b1 |-> 0, b2 |-> 0, b3 |-> 0, b5 |-> 0]
SH(ty, fi) == [Z EXCEPT !.v1 = ty, !.e1 = ty, !.v16 = fi]                       \* SyncHeader{type=1, fileIndex=16}
BH(t) == [Z EXCEPT !.v1 = t, !.e1 = t]                                         \* BsdiffHeader{targetIndex=1}
OP(ty, f, i, n, dl) == [Z EXCEPT !.v1 = ty, !.e1 = ty, !.v2 = f, !.v3 = i, !.v4 = n, !.b5 = dl]  \* SyncOp
CTL(add, cp, seek, eof) == [Z EXCEPT !.b1 = add, !.b2 = cp, !.v3 = seek, !.v4 = eof]  \* bsdiff.Control
HASH == [Z EXCEPT !.v1 = 7, !.e1 = 7, !.b2 = 16]                               \* BlockHash{weak=1, strong=2}
OV(ty, ln, dl) == [Z EXCEPT !.v1 = ty, !.e1 = ty, !.v2 = ln, !.b3 = dl]          \* OverlayOp{type=1, len=2, data=3}
EndOp == OP(END, 0, 0, 0, 0)

(* valid streams over the MC universe <<98304, 131072, 0>> -> <<98304, 140000, 0, 131072>> *)
BaseSeq(b) ==
  CASE b = "plain" -> << SH(0, 0), OP(0, 0, 0, 2, 0), EndOp,
                         SH(0, 1), OP(0, 1, 0, 1, 0), OP(0, 1, 1, 1, 0), OP(1, 0, 0, 0, 8928), EndOp,
                         SH(0, 2), OP(1, 0, 0, 0, 0), EndOp,
                         SH(0, 3), OP(0, 1, 0, 2, 0), EndOp >>
    [] b = "opt" ->   << SH(0, 0), OP(0, 0, 0, 1, 0), OP(1, 0, 0, 0, 32768), EndOp,
                         SH(1, 1), BH(1), CTL(65536, 0, 0, 0), CTL(65536, 8928, -131072, 0), CTL(0, 0, 0, 1), EndOp,
                         SH(0, 2), OP(1, 0, 0, 0, 0), EndOp,
                         SH(1, 3), BH(1), CTL(131072, 0, 0, 0), CTL(0, 0, 0, 1), EndOp >>
    \* a FIRST PUSH: the old container has no file at all (NT = 0: every file index is out of range, NT - 1 is negative);
    \* universe << >> -> <<98304, 0>>
    [] b = "push" ->  << SH(0, 0), OP(1, 0, 0, 0, 98304), EndOp,
                         SH(0, 1), OP(1, 0, 0, 0, 0), EndOp >>
    [] b = "sig" ->   << HASH, HASH, HASH, HASH, HASH >>
    [] b = "overlay" -> << OV(0, 1000, 0), OV(1, 0, 500), OV(0, 2000, 0), OV(1, 0, 3), OV(OEND, 0, 0) >>
    [] b = "none" ->  << >>
PushSSizes == <<98304, 0>>
BasesOf(c) == CASE c \in {"apply", "skip", "rediff"} -> {"plain", "opt", "push"}
                [] c = "sig" -> {"sig"}
                [] c = "overlay" -> {"overlay"}
                [] c = "hashinfo" -> {"none"}

(* field values a mutation may install *)
Fields == {"v1", "v2", "v3", "v4", "v16", "b1", "b2", "b3", "b5"}
ValsOf(f) ==
  CASE f = "v1" -> {-1, 0, 1, 2, 7, END, OEND, NT, HUGE}
    [] f = "v2" -> {-1, 0, 1, NT - 1, NT, HUGE, -HUGE}
    [] f = "v3" -> {-1, 0, 1, 2, 3, HUGE, -HUGE, -131072, 98304}
    [] f = "v4" -> {-1, 0, 1, 2, 3, HUGE}
    [] f = "v16" -> {-1, HUGE} \cup 0..NS
    [] f = "b1" -> {0, 2, 200000}
    [] f = "b2" -> {0, 2}
    [] f = "b3" -> {0, 2}
    [] f = "b5" -> {0, 3, 40000}
\* only the fields some reader of this family looks at
FieldsOf(c) == CASE c \in {"apply", "skip", "rediff"} -> {"v1", "v2", "v3", "v4", "v16", "b1", "b2", "b5"}
                 [] c = "sig" -> {"v1", "b2"}
                 [] c = "overlay" -> {"v1", "v2", "b3"}
                 [] c = "hashinfo" -> {}
\* field 1 read as an enum keeps the low 32 bits of the varint: the stream's "huge" (2^40) becomes 0
Enum32(v) == IF v = HUGE \/ v = -HUGE THEN 0 ELSE v
SetField(m, f, v) ==
  CASE f = "v1" -> [m EXCEPT !.v1 = v, !.e1 = Enum32(v)] [] f = "v2" -> [m EXCEPT !.v2 = v] [] f = "v3" -> [m EXCEPT !.v3 = v]
    [] f = "v4" -> [m EXCEPT !.v4 = v] [] f = "v16" -> [m EXCEPT !.v16 = v] [] f = "b1" -> [m EXCEPT !.b1 = v]
    [] f = "b2" -> [m EXCEPT !.b2 = v] [] f = "b3" -> [m EXCEPT !.b3 = v] [] f = "b5" -> [m EXCEPT !.b5 = v]
Drop(s, k) == SubSeq(s, 1, k - 1) \o SubSeq(s, k + 1, Len(s))
Dup(s, k) == SubSeq(s, 1, k) \o SubSeq(s, k, Len(s))

(* ------------------------------ machine registers ------------------------------ *)
R0 == [pc |-> "mutate", phase |-> 0, mi |-> 1, fi |-> 0, bi |-> 0, wlen |-> 0, oldOff |-> 0, tgt |-> 0,
       nbr |-> 0, ndata |-> 0, reused |-> FALSE, mapped |-> {}, hn |-> 0,
       outcome |-> "run", site |-> "", fz |-> FALSE]

FirstPc(c) == CASE c \in {"apply", "skip"} -> "file" [] c = "rediff" -> "an_file" [] c = "sig" -> "sg"
                [] c = "overlay" -> "ov" [] c = "hashinfo" -> "hi"

\* the state in which the reader starts on a stream cut before message k (k = 0: inside magic/header/containers)
StartState(c, k, h, hn) ==
  IF k = 0 /\ c # "hashinfo"
  THEN IF c = "sig" /\ h = "boundary"
       THEN [R0 EXCEPT !.pc = "end", !.outcome = "done", !.site = "EOF instead of the container: empty signature"]
       ELSE [R0 EXCEPT !.pc = "end", !.outcome = "error", !.site = "prelude"]
  ELSE [R0 EXCEPT !.pc = FirstPc(c), !.phase = 1, !.hn = hn]

Avail == r.mi <= Len(msgs) /\ r.mi < cutk
CleanEOF == r.mi > Len(msgs) \/ (r.mi >= cutk /\ how = "boundary")
M == msgs[r.mi]
Running == r.outcome = "run" /\ r.pc # "mutate"
End(o, s) == r' = [r EXCEPT !.outcome = o, !.site = s, !.pc = "end"]
Err(s) == End("error", s)
Panic(s) == End("panic", s)
Unchecked(checkedSite, panicSite) == IF Checked THEN Err(checkedSite) ELSE Panic(panicSite)

(* ------------------------------ patcher ------------------------------ *)
NextFile == r' = [r EXCEPT !.pc = "file", !.fi = r.fi + 1, !.mi = r.mi + 1]

PFile ==
  /\ r.pc = "file"
  /\ IF r.fi = NS THEN End("done", "")
     ELSE IF ~Avail THEN Err("eof")
     ELSE IF M.v16 # r.fi THEN Err("sync header index")
     ELSE IF M.e1 \notin {0, 1} THEN Err("unknown series kind")
     ELSE r' = [r EXCEPT !.mi = r.mi + 1, !.wlen = 0,
                         !.pc = IF cons = "skip" THEN (IF M.e1 = 1 THEN "skip_bh" ELSE "skip_loop")
                                ELSE IF M.e1 = 0 THEN "rs_first" ELSE "bs_head"]

PSkipBH == r.pc = "skip_bh" /\ (IF ~Avail THEN Err("eof") ELSE r' = [r EXCEPT !.mi = r.mi + 1, !.pc = "skip_loop"])
PSkipLoop ==
  /\ r.pc = "skip_loop"
  /\ IF ~Avail THEN Err("eof") ELSE IF M.e1 = END THEN NextFile ELSE r' = [r EXCEPT !.mi = r.mi + 1]

\* bytes wsync.ApplySingle relays for a block range (a LimitReader copy: a short file ends it silently)
BRCopy(f, bi, span) ==
  LET size == tsz[f + 1]
      start == BS * bi
      avail == IF start >= size THEN 0 ELSE size - start
  IN IF span > Big THEN avail
     ELSE IF span < -Big THEN 0
     ELSE LET lastIndex == bi + span - 1
              lastSize == IF BS * (lastIndex + 1) > size THEN size % BS ELSE BS
              opSize == (span - 1) * BS + lastSize
          IN IF opSize <= 0 THEN 0 ELSE IF opSize > avail THEN avail ELSE opSize

\* makeWop + wsync.ApplySingle
Relay(m) ==
  IF m.e1 = 0 THEN
       IF ~InT(m.v2) THEN Unchecked("block range file index", "wsync/algo.go pool.GetSize")
       ELSE IF m.v3 < 0 THEN Err("negative seek")
       ELSE IF m.v3 > Big
            THEN \/ r' = [r EXCEPT !.outcome = "error", !.site = "seek beyond the file system's limit", !.pc = "end", !.fz = TRUE]
                 \/ r' = [r EXCEPT !.mi = r.mi + 1, !.pc = "rs_loop", !.fz = TRUE]
       ELSE r' = [r EXCEPT !.mi = r.mi + 1, !.pc = "rs_loop", !.wlen = r.wlen + BRCopy(m.v2, m.v3, m.v4)]
  ELSE IF m.e1 = 1 THEN r' = [r EXCEPT !.mi = r.mi + 1, !.pc = "rs_loop", !.wlen = r.wlen + m.b5]
  ELSE Err("unknown sync op type")

PRsFirst ==
  /\ r.pc = "rs_first"
  /\ IF ~Avail THEN Err("eof")
     ELSE IF M.e1 = 0 /\ M.v3 = 0 /\ ~InT(M.v2) /\ ~Checked THEN Panic("patcher_rsync.go isFullFileOp")
     ELSE IF M.e1 = 0 /\ M.v3 = 0 /\ InT(M.v2) /\ tsz[M.v2 + 1] = ssz[r.fi + 1] /\ M.v4 = NumBlocks(ssz[r.fi + 1])
          THEN r' = [r EXCEPT !.mi = r.mi + 1, !.pc = "rs_tail"]            \* bowl.Transpose
     ELSE Relay(M)
PRsLoop ==
  /\ r.pc = "rs_loop"
  /\ IF ~Avail THEN Err("eof") ELSE IF M.e1 = END THEN NextFile ELSE Relay(M)
PRsTail ==
  /\ r.pc = "rs_tail"
  /\ IF ~Avail THEN Err("eof") ELSE IF M.e1 = END THEN NextFile ELSE r' = [r EXCEPT !.mi = r.mi + 1]

PBsHead ==
  /\ r.pc = "bs_head"
  /\ IF ~Avail THEN Err("eof")
     ELSE IF ~InT(M.v1) THEN Unchecked("bsdiff target index", "patcher_bsdiff.go targetPool.GetReadSeeker")
     ELSE r' = [r EXCEPT !.mi = r.mi + 1, !.pc = "bs_loop", !.tgt = M.v1, !.oldOff = 0, !.wlen = 0]
PBsLoop ==
  /\ r.pc = "bs_loop"
  /\ IF ~Avail THEN Err("eof")
     ELSE IF M.v4 # 0 THEN r' = [r EXCEPT !.mi = r.mi + 1, !.pc = "bs_sentinel"]
     ELSE LET size == tsz[r.tgt + 1] IN
          IF r.oldOff < 0 \/ r.oldOff > size THEN Err("invalid seek")
          ELSE IF M.b1 > size - r.oldOff THEN Err("bsdiff-add past the end of the old file")
          ELSE r' = [r EXCEPT !.mi = r.mi + 1, !.wlen = r.wlen + M.b1 + M.b2, !.oldOff = r.oldOff + M.b1 + M.v3]
PBsSentinel ==
  /\ r.pc = "bs_sentinel"
  /\ IF ~Avail THEN Err("eof")
     ELSE IF M.e1 # END THEN Err("expected sentinel")
     ELSE IF r.wlen # ssz[r.fi + 1] THEN Err("final size")
     ELSE NextFile

(* ------------------------------ optimizer ------------------------------ *)
AnFile ==
  /\ r.pc = "an_file"
  /\ IF r.fi = NS THEN r' = [r EXCEPT !.phase = 2, !.pc = "op_file", !.fi = 0, !.mi = 1]
     ELSE IF ~Avail THEN Err("eof")
     ELSE IF M.v16 # r.fi THEN Err("sync header index")
     ELSE r' = [r EXCEPT !.mi = r.mi + 1, !.pc = "an_ops", !.nbr = 0, !.ndata = 0, !.reused = FALSE]
WantsMapping ==
  IF ssz[r.fi + 1] = 0 THEN FALSE
  ELSE IF r.nbr = 1 /\ r.ndata = 0 THEN FALSE
  ELSE IF r.reused THEN TRUE
  ELSE spath[r.fi + 1] >= 0 /\ tsz[spath[r.fi + 1] + 1] > 0
AnOps ==
  /\ r.pc = "an_ops"
  /\ IF ~Avail THEN Err("eof")
     ELSE IF M.e1 = 0 THEN
            IF ~InT(M.v2) THEN Unchecked("block range file index", "rediff.go analyzePatch")
            ELSE r' = [r EXCEPT !.mi = r.mi + 1, !.nbr = IF r.nbr < 2 THEN r.nbr + 1 ELSE 2, !.reused = TRUE]
     ELSE IF M.e1 = 1 THEN r' = [r EXCEPT !.mi = r.mi + 1, !.ndata = 1]
     ELSE IF M.e1 = END THEN r' = [r EXCEPT !.mi = r.mi + 1, !.pc = "an_file", !.fi = r.fi + 1,
                                            !.mapped = IF WantsMapping THEN r.mapped \cup {r.fi} ELSE r.mapped]
     ELSE Err("unknown sync type op")
OpFile ==
  /\ r.pc = "op_file"
  /\ IF r.fi = NS THEN End("done", "")
     ELSE IF ~Avail THEN Err("eof")
     ELSE IF M.v16 # r.fi THEN Err("sync header index")
     ELSE r' = [r EXCEPT !.mi = r.mi + 1, !.pc = IF r.fi \in r.mapped THEN "op_drop" ELSE "op_copy"]
OpOps ==
  /\ r.pc \in {"op_drop", "op_copy"}
  /\ IF ~Avail THEN Err("eof")
     ELSE IF M.e1 = END THEN r' = [r EXCEPT !.mi = r.mi + 1, !.pc = "op_file", !.fi = r.fi + 1]
     ELSE r' = [r EXCEPT !.mi = r.mi + 1]

(* ------------------------------ signature ------------------------------ *)
\* ReadSignature: one hash per block (one for an empty file); a clean EOF just ends the reading
SgRead ==
  /\ r.pc = "sg"
  /\ IF r.fi = NT THEN r' = [r EXCEPT !.pc = "hi"]
     ELSE LET nb == NumBlocks(tsz[r.fi + 1]) IN
       IF Avail THEN
            IF nb = 0 \/ r.bi + 1 = nb
            THEN r' = [r EXCEPT !.mi = r.mi + 1, !.hn = r.hn + 1, !.fi = r.fi + 1, !.bi = 0]
            ELSE r' = [r EXCEPT !.mi = r.mi + 1, !.hn = r.hn + 1, !.bi = r.bi + 1]
       ELSE IF ~CleanEOF THEN Err("unexpected EOF")
       ELSE IF nb = 0 THEN r' = [r EXCEPT !.pc = "hi"]                 \* break out of the file loop
       ELSE r' = [r EXCEPT !.fi = r.fi + 1, !.bi = 0]                   \* break out of the block loop only

\* ComputeHashInfo over hn hashes: the first file whose group does not fit
RECURSIVE HIWalk(_, _, _)
HIWalk(f, idx, limit) ==
  IF f > NT THEN <<"end", idx>>
  ELSE IF tsz[f] = 0 THEN HIWalk(f + 1, idx + 1, limit)
  ELSE IF idx + NumBlocks(tsz[f]) > limit THEN <<"over", idx>>
  ELSE HIWalk(f + 1, idx + NumBlocks(tsz[f]), limit)
HashInfo ==
  /\ r.pc = "hi"
  /\ IF Checked
     THEN LET w == HIWalk(1, 0, r.hn) IN
          IF w[1] = "over" THEN Err("not enough hashes") ELSE IF w[2] # r.hn THEN Err("hash count") ELSE End("done", "")
     ELSE \E cap \in {r.hn, 2 * r.hn} :        \* slicing up to the capacity append() left is legal Go
          LET w == HIWalk(1, 0, cap) IN
          IF w[1] = "over" THEN Panic("hashinfo.go slice past the hash list")
          ELSE IF w[2] # r.hn THEN Err("hash count") ELSE End("done", "")

(* ------------------------------ overlay ------------------------------ *)
OvRead ==
  /\ r.pc = "ov"
  /\ IF ~Avail THEN Err("eof")
     ELSE IF M.e1 = OEND THEN End("done", "")
     ELSE IF M.e1 = 0 THEN
            IF M.v2 > Big * Big
            THEN \/ r' = [r EXCEPT !.outcome = "error", !.site = "seek beyond the file system's limit", !.pc = "end", !.fz = TRUE]
                 \/ r' = [r EXCEPT !.mi = r.mi + 1, !.fz = TRUE]
            ELSE IF r.wlen + M.v2 < 0 THEN Err("negative seek")
            ELSE r' = [r EXCEPT !.mi = r.mi + 1, !.wlen = r.wlen + M.v2]
     ELSE IF M.e1 = 1 THEN r' = [r EXCEPT !.mi = r.mi + 1, !.wlen = r.wlen + M.b3]
     ELSE r' = [r EXCEPT !.mi = r.mi + 1]                              \* unknown op kinds are ignored

Step == /\ Running
        /\ \/ PFile \/ PSkipBH \/ PSkipLoop \/ PRsFirst \/ PRsLoop \/ PRsTail \/ PBsHead \/ PBsLoop \/ PBsSentinel
           \/ AnFile \/ AnOps \/ OpFile \/ OpOps \/ SgRead \/ HashInfo \/ OvRead
        /\ UNCHANGED input

(* ------------------------------ MC: mutations of valid streams ------------------------------ *)
Init == /\ cons \in Consumers /\ base \in BasesOf(cons)
        /\ tsz = (IF base = "push" THEN << >> ELSE UTSizes) /\ ssz = (IF base = "push" THEN PushSSizes ELSE USSizes)
        /\ spath = (IF base = "push" THEN <<-1, -1>> ELSE USamePath)
        /\ msgs = BaseSeq(base) /\ cutk = Len(msgs) + 1 /\ how = "boundary" /\ nmut = 0
        /\ r = R0
Mutate ==
  /\ r.pc = "mutate" /\ nmut < MaxMut
  /\ \/ \E k \in 1..Len(msgs), f \in FieldsOf(cons) : \E v \in ValsOf(f) \ {msgs[k][f]} :
          msgs' = [msgs EXCEPT ![k] = SetField(msgs[k], f, v)]
     \/ \E k \in 1..Len(msgs) : msgs' = Drop(msgs, k)
     \/ \E k \in 1..Len(msgs) : msgs' = Dup(msgs, k)
  /\ nmut' = nmut + 1 /\ cutk' = Len(msgs') + 1
  /\ UNCHANGED <<cons, base, tsz, ssz, spath, how, r>>
NeedHashes == LET w == HIWalk(1, 0, 1000) IN w[2]
Start ==
  /\ r.pc = "mutate"
  /\ \/ cutk' = cutk /\ how' = how /\ (\E hn \in (IF cons = "hashinfo" THEN 0..(NeedHashes + 2) ELSE {0}) : r' = StartState(cons, cutk, how, hn))
     \/ /\ nmut <= CutMut /\ cons # "hashinfo"
        /\ \E k \in 0..Len(msgs), h \in {"boundary", "inside"} : cutk' = k /\ how' = h /\ r' = StartState(cons, k, h, 0)
  /\ UNCHANGED <<cons, base, tsz, ssz, spath, msgs, nmut>>
Next == Mutate \/ Start \/ Step
Spec == Init /\ [][Next]_vars

Terminal == r.outcome # "run"
TypeOK == /\ r.mi \in 1..(Len(msgs) + 1) /\ r.fi \in 0..(IF NS > NT THEN NS ELSE NT)
          /\ r.outcome \in {"run", "error", "done", "panic"}
(* C10 *)
NoPanic == r.outcome # "panic"
\* no reader loops forever: every step consumes a message, moves to the next phase, or ends
Rank == r.phase * 1000 + r.mi * 10 + (IF r.pc \in {"hi", "end"} THEN 5 ELSE 0) + (IF r.pc = "sg" THEN r.fi ELSE 0)
Progress == [][Running => (r'.outcome # "run" \/ Rank' > Rank)]_vars
=============================================================================
