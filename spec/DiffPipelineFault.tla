-------------------------- MODULE DiffPipelineFault --------------------------
(* Growth beyond the listed properties: the per-file pipeline of               *)
(* DiffContext.WritePatch (DiffPipeline.tla) when a task FAILS.                *)
(*                                                                             *)
(*   reader task : ctxcopy.Do(MultiWriter(pipeA, pipeB), upstream)  (multiread) *)
(*   diff task   : ComputeDiff reading pipeA, writing ops to the patch writer   *)
(*   sign task   : CreateSignature reading pipeB, writing hashes                *)
(*                                                                             *)
(* taskgroup.Do returns "as soon as one of the tasks has returned a non-nil    *)
(* error" (its own comment) - it does not wait for the others and nobody       *)
(* closes the READ ends of the pipes. A consumer that failed stops reading;    *)
(* an io.Pipe write blocks until every byte was taken; so the reader task can  *)
(* stay blocked for ever in its write to the pipe of the failed consumer, and  *)
(* the other consumer for ever in its read. WritePatch has returned the error  *)
(* by then: the goroutines (and the open source file) are left behind.         *)
(*                                                                             *)
(* Faults modelled: the diff task's writer fails once the differ has consumed  *)
(* FailA bytes (a value > N: never); the sign task's likewise at FailB; the     *)
(* upstream read fails after FailR chunks (ctxcopy then closes both pipes      *)
(* WITH the error: that path is clean).                                        *)
EXTENDS Integers, Sequences, FiniteSets, TLC
CONSTANTS N, BufA, BufB, FailAs, FailBs, FailRs
Has(f) == f <= N          \* a fault point beyond the stream length never fires
RECURSIVE Comps(_)
Comps(n) == IF n = 0 THEN {<<>>} ELSE UNION {{<<k>> \o c : c \in Comps(n - k)} : k \in 1..n}
VARIABLES chunks, ci, wpc, offer, gotA, gotB, eofA, eofB,
          stA, stB, stR,     \* task states: "run" | "ok" | "err"
          failA, failB, failR,
          ret                \* what taskgroup.Do returned: "no" | "nil" | "err"
vars == <<chunks, ci, wpc, offer, gotA, gotB, eofA, eofB, stA, stB, stR, failA, failB, failR, ret>>
Init == /\ chunks \in Comps(N) /\ ci = 1 /\ wpc = "read" /\ offer = 0 /\ gotA = 0 /\ gotB = 0
        /\ eofA = "open" /\ eofB = "open"                 \* "open" | "eof" | "err" (CloseWithError)
        /\ stA = "run" /\ stB = "run" /\ stR = "run" /\ ret = "no"
        /\ failA \in FailAs /\ failB \in FailBs /\ failR \in FailRs
        /\ Cardinality({x \in {1, 2, 3} : Has(<<failA, failB, failR>>[x])}) <= 1        \* one fault at a time
keepF == UNCHANGED <<chunks, failA, failB, failR>>
\* ---- reader task (multiread.Do)
RRead == /\ wpc = "read" /\ stR = "run"
         /\ IF Has(failR) /\ ci - 1 >= failR
            THEN \* upstream.Read failed: CloseWithError on both pipes, task returns the error
                 /\ eofA' = "err" /\ eofB' = "err" /\ stR' = "err" /\ wpc' = "done" /\ UNCHANGED <<offer, ci>>
            ELSE IF ci <= Len(chunks) THEN wpc' = "wA" /\ offer' = chunks[ci] /\ UNCHANGED <<ci, eofA, eofB, stR>>
            ELSE wpc' = "zA" /\ UNCHANGED <<offer, ci, eofA, eofB, stR>>     \* (0, EOF): one zero-length Write to each pipe
         /\ keepF /\ UNCHANGED <<gotA, gotB, stA, stB, ret>>
ATake == /\ wpc = "wA" /\ offer > 0 /\ stA = "run" /\ ~(Has(failA) /\ gotA >= failA)
         /\ LET k == IF BufA < offer THEN BufA ELSE offer IN
            /\ gotA' = gotA + k
            /\ (IF offer - k = 0 THEN wpc' = "wB" /\ offer' = chunks[ci] ELSE offer' = offer - k /\ UNCHANGED wpc)
         /\ keepF /\ UNCHANGED <<ci, gotB, eofA, eofB, stA, stB, stR, ret>>
BTake == /\ wpc = "wB" /\ offer > 0 /\ stB = "run" /\ ~(Has(failB) /\ gotB >= failB)
         /\ LET k == IF BufB < offer THEN BufB ELSE offer IN
            /\ gotB' = gotB + k
            /\ (IF offer - k = 0 THEN ci' = ci + 1 /\ offer' = 0 /\ wpc' = "read" ELSE offer' = offer - k /\ UNCHANGED <<wpc, ci>>)
         /\ keepF /\ UNCHANGED <<gotA, eofA, eofB, stA, stB, stR, ret>>
\* the zero-length Write is a rendezvous with a Read of the consumer all the same
AZero == /\ wpc = "zA" /\ stA = "run" /\ ~(Has(failA) /\ gotA >= failA) /\ wpc' = "zB"
         /\ keepF /\ UNCHANGED <<ci, offer, gotA, gotB, eofA, eofB, stA, stB, stR, ret>>
BZero == /\ wpc = "zB" /\ stB = "run" /\ ~(Has(failB) /\ gotB >= failB) /\ wpc' = "close"
         /\ keepF /\ UNCHANGED <<ci, offer, gotA, gotB, eofA, eofB, stA, stB, stR, ret>>
RClose == /\ wpc = "close" /\ eofA' = "eof" /\ eofB' = "eof" /\ wpc' = "done" /\ stR' = "ok"
          /\ keepF /\ UNCHANGED <<ci, offer, gotA, gotB, stA, stB, ret>>
\* ---- consumers
\* the writer the consumer writes to fails: the consumer returns that error and reads no more
AFail == /\ stA = "run" /\ Has(failA) /\ gotA >= failA /\ stA' = "err"
         /\ keepF /\ UNCHANGED <<ci, wpc, offer, gotA, gotB, eofA, eofB, stB, stR, ret>>
BFail == /\ stB = "run" /\ Has(failB) /\ gotB >= failB /\ stB' = "err"
         /\ keepF /\ UNCHANGED <<ci, wpc, offer, gotA, gotB, eofA, eofB, stA, stR, ret>>
\* a consumer sees the end (or the reader's error) of its pipe only when no write is pending for it
AEnd == /\ stA = "run" /\ eofA # "open" /\ ~(Has(failA) /\ gotA >= failA)
        /\ stA' = IF eofA = "eof" THEN "ok" ELSE "err"
        /\ keepF /\ UNCHANGED <<ci, wpc, offer, gotA, gotB, eofA, eofB, stB, stR, ret>>
BEnd == /\ stB = "run" /\ eofB # "open" /\ ~(Has(failB) /\ gotB >= failB)
        /\ stB' = IF eofB = "eof" THEN "ok" ELSE "err"
        /\ keepF /\ UNCHANGED <<ci, wpc, offer, gotA, gotB, eofA, eofB, stA, stR, ret>>
\* ---- taskgroup.Do: returns at the first error it receives, or when all three reported nil
GroupReturn == /\ ret = "no"
               /\ \/ (\E s \in {stA, stB, stR} : s = "err") /\ ret' = "err"
                  \/ (stA = "ok" /\ stB = "ok" /\ stR = "ok") /\ ret' = "nil"
               /\ keepF /\ UNCHANGED <<ci, wpc, offer, gotA, gotB, eofA, eofB, stA, stB, stR>>
Quiet == stA # "run" /\ stB # "run" /\ stR # "run"
Terminating == ret # "no" /\ UNCHANGED vars
Next == RRead \/ ATake \/ BTake \/ AZero \/ BZero \/ RClose \/ AFail \/ BFail \/ AEnd \/ BEnd \/ GroupReturn \/ Terminating
Spec == Init /\ [][Next]_vars /\ WF_vars(RRead \/ ATake \/ BTake \/ AZero \/ BZero \/ RClose \/ AFail \/ BFail \/ AEnd \/ BEnd) /\ WF_vars(GroupReturn)
(* ---- what holds ---- *)
\* the caller always gets an answer, and nil only after all three tasks returned nil with the whole stream consumed
Returns == <>(ret # "no")
NilMeansAllDone == ret = "nil" => (Quiet /\ gotA = N /\ gotB = N)
ErrOnlyIfFault == ret = "err" => (Has(failA) \/ Has(failB) \/ Has(failR))
\* an upstream read error reaches everybody
UpstreamErrorIsClean == (~Has(failA) /\ ~Has(failB)) => <>Quiet
(* ---- what does NOT hold (expected counterexample; bound to the real code as an OBSERVATION) ---- *)
\* every task eventually returns: false when a consumer fails before the reader task is through
NoTaskLeftBehind == <>Quiet
\* the states in which tasks are left behind for good (no task action enabled, not quiet)
Stuck == ~Quiet /\ ~ENABLED (RRead \/ ATake \/ BTake \/ AZero \/ BZero \/ RClose \/ AFail \/ BFail \/ AEnd \/ BEnd)
NeverStuck == ~Stuck
=============================================================================
