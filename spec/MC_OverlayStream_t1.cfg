SPECIFICATION MCSpec
CONSTANTS
  W = 4
  T = 1
  MaxUnits = 10
  MaxWrite = 10
  MaxCrashes = 2
INVARIANTS SkipsOnlyEqual OffsetsExact CheckpointExact ResultIsNew NoEmptyOps
CHECK_DEADLOCK TRUE
