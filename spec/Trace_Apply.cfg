SPECIFICATION Spec
INVARIANTS Report ReportOther Stats
CHECK_DEADLOCK FALSE
