SPECIFICATION TSpec
CONSTANTS
  SB = 1
  BB = 1
  OldSizes <- NoSizes
  MaxOps = 0
  MaxData = 0
INVARIANTS Report Drift
CHECK_DEADLOCK FALSE
