SPECIFICATION MCSpec
CONSTANTS
  BSs = {1, 2, 3}
  Alphabet = {0, 1}
  NOld = 1
  MaxOld = 4
  MaxNew = 5
  MaxData = 3
INVARIANTS Reconstructs InBounds Merged DataLimit OnlyLeadingEmpty
CHECK_DEADLOCK TRUE
