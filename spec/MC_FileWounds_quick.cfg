SPECIFICATION Spec
CONSTANTS
  BS = 2
  MaxW = 4
  MaxLen = 5
  Alphabet = {0, 1}
  OrderedSizeWound = TRUE
INVARIANTS EveryDifferenceCovered LengthMismatchReported DamageReported WellFormed NoFalseWound
CHECK_DEADLOCK TRUE
