----------------------------- MODULE OpStream -----------------------------
(* Abstract layer for rsync operation streams (C11, reused by C01/C08).       *)
(* An op is [t |-> "data", d |-> <<bytes>>] or                                *)
(*          [t |-> "range", f |-> file(1-based), i |-> block index, n |-> span]. *)
(* All operators are parameterised by the block size and the old files so     *)
(* that they serve the model checker and the trace specs alike.               *)
EXTENDS Integers, Sequences, FiniteSets

OSMin(a, b) == IF a < b THEN a ELSE b
OSNumBlocks(len, b) == (len + b - 1) \div b

\* bytes addressed by a block range of old file o (clipped to the file: a short last block)
OSRangeBytes(o, b, op) == SubSeq(o, op.i * b + 1, OSMin((op.i + op.n) * b, Len(o)))

RECURSIVE OSReplay(_, _, _)
OSReplay(os, b, ops) ==
  IF ops = <<>> THEN <<>>
  ELSE (IF Head(ops).t = "data" THEN Head(ops).d ELSE OSRangeBytes(os[Head(ops).f], b, Head(ops)))
       \o OSReplay(os, b, Tail(ops))

\* every block range addresses blocks that exist in the named old file
OSInBounds(os, b, ops) ==
  \A k \in 1..Len(ops) : ops[k].t = "range" =>
     /\ ops[k].f \in 1..Len(os)
     /\ ops[k].i >= 0 /\ ops[k].n >= 1
     /\ ops[k].i + ops[k].n <= OSNumBlocks(Len(os[ops[k].f]), b)

\* consecutive ranges of the same file are merged
OSMerged(ops) ==
  \A k \in 1..(Len(ops) - 1) :
     ~(ops[k].t = "range" /\ ops[k+1].t = "range" /\ ops[k].f = ops[k+1].f /\ ops[k].i + ops[k].n = ops[k+1].i)

OSDataLimit(ops, max) == \A k \in 1..Len(ops) : ops[k].t = "data" => Len(ops[k].d) <= max
OSOnlyLeadingEmpty(ops) == \A k \in 2..Len(ops) : ~(ops[k].t = "data" /\ ops[k].d = <<>>)
OSKnownTypes(ops) == \A k \in 1..Len(ops) : ops[k].t \in {"data", "range"}

\* names of the clauses of C11 that a finished op list violates
OSViolations(os, b, src, ops, max) ==
  IF ~OSKnownTypes(ops) THEN {"KnownTypes"}
  ELSE IF ~OSInBounds(os, b, ops) THEN {"InBounds"}
  ELSE    (IF OSReplay(os, b, ops) = src THEN {} ELSE {"Reconstructs"})
     \cup (IF OSMerged(ops) THEN {} ELSE {"Merged"})
     \cup (IF OSDataLimit(ops, max) THEN {} ELSE {"DataLimit"})
     \cup (IF OSOnlyLeadingEmpty(ops) THEN {} ELSE {"OnlyLeadingEmpty"})
=============================================================================
