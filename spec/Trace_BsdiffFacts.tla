-------------------------- MODULE Trace_BsdiffFacts --------------------------
(* C12 at real scale: control series of the REAL differ as digest facts.      *)
(* TLC recomputes the applier automaton's old offset and output position from *)
(* the lengths and seeks, checks that every add section stays inside the old  *)
(* file, that the digests of what each control yields equal the digests of    *)
(* the new file at that position, the single final end-of-series message,     *)
(* and the real applier's offsets, output and resumptions.                    *)
EXTENDS Integers, Sequences, FiniteSets, Json, TLC
T == ndJsonDeserialize("trace.ndjson")
VARIABLE l
Init == l \in 1..Len(T)
Next == UNCHANGED l
Spec == Init /\ [][Next]_l
\* The harness logs its own running automaton state (off, pos) with every control, including the final
\* end-of-series record; TLC checks that these are exactly the automaton's (local step equations - no deep
\* recursion, series of 10^5 controls are common), that every add section stays inside the old file, and
\* the digest facts.
N(c) == Len(c.ctl)
StepOK(c, k) == LET x == c.ctl[k] IN
   /\ ~x.eof
   /\ x.off >= 0 /\ x.off + x.addlen <= c.oldlen
   /\ x.pos + x.addlen + x.copylen <= c.newlen
   /\ x.addsha = x.newadd /\ x.copysha = x.newcopy
   /\ c.ctl[k + 1].off = x.off + x.addlen + x.seek
   /\ c.ctl[k + 1].pos = x.pos + x.addlen + x.copylen
OneFinalEof(c) == N(c) >= 1 /\ c.ctl[N(c)].eof /\ \A k \in 1..(N(c) - 1) : ~c.ctl[k].eof
SeriesOK(c) == /\ N(c) >= 1 /\ c.ctl[1].off = 0 /\ c.ctl[1].pos = 0
               /\ \A k \in 1..(N(c) - 1) : StepOK(c, k)
               /\ c.ctl[N(c)].pos = c.newlen
Viol(c) ==
     (IF OneFinalEof(c) THEN {} ELSE {"OneFinalEndOfSeries"})
\cup (IF OneFinalEof(c) /\ SeriesOK(c) THEN {} ELSE {"SeriesYieldsNew"})
\cup (IF c.differr = "" THEN {} ELSE {"DifferFails"})
\cup (IF c.applyok /\ c.outlen = c.newlen /\ c.outsha = c.newsha THEN {} ELSE {"RealApplyYieldsNew"})
\cup (IF \A k \in 1..Len(c.resumes) : c.resumes[k].ok THEN {} ELSE {"RealResumeSameRemainder"})
Report == Viol(T[l]) = {} \/ PrintT(<<"VIOL", l, Viol(T[l])>>)
\* drift: the real applier's old offset after control k is the automaton's
Drift(c) == c.applyok /\ OneFinalEof(c) /\ (Len(c.offs) # N(c) - 1 \/ \E k \in 1..Len(c.offs) : c.offs[k] # c.ctl[k + 1].off)
ReportDrift == ~Drift(T[l]) \/ PrintT(<<"DRIFT", l>>)
Stats == PrintT(<<"STAT", l, Len(T[l].ctl), T[l].parts>>)
=============================================================================
