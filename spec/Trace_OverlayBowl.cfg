SPECIFICATION Spec
INVARIANTS Report Stats
CHECK_DEADLOCK FALSE
