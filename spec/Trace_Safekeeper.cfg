SPECIFICATION TSpec
CONSTANTS
  BS = 2
  C = 1
  MaxLen = 0
  Alphabet = {0}
  Repaired = TRUE
  EOFChecked = TRUE
INVARIANTS Report ReportDrift
CHECK_DEADLOCK TRUE
