SPECIFICATION TSpec
CONSTANTS
  W = 131072
  T = 8192
INVARIANTS Report ReportDrift Stats
CHECK_DEADLOCK TRUE
