------------------------------- MODULE Blocks -------------------------------
(* Block arithmetic shared by the signature / validation family              *)
(* (pwr.ComputeNumBlocks, pwr.ComputeBlockSize, hash slot layout).           *)
EXTENDS Integers, Sequences
BMin(a, b) == IF a < b THEN a ELSE b
BNumBlocks(size, bs) == (size + bs - 1) \div bs
\* pwr.ComputeBlockSize: the short last block; NOTE it returns size % bs for every index past the end too
BBlockSize(size, bs, i) == IF bs * (i + 1) > size THEN size % bs ELSE bs
\* hash slots a file occupies in the flat signature list: an empty file still has one
BHashSlots(size, bs) == IF size = 0 THEN 1 ELSE BNumBlocks(size, bs)
BBlock(s, bs, i) == SubSeq(s, i * bs + 1, BMin((i + 1) * bs, Len(s)))
=============================================================================
