--------------------------- MODULE Trace_Malformed ---------------------------
(* Trace validation for C10. One line per execution of a REAL reader on a     *)
(* stream serialised from wire-level messages (the line carries the message   *)
(* table, the container sizes, where the stream was cut, and what the real    *)
(* code did: error | done | panic | hang | crash). For every line the machine *)
(* of Malformed.tla runs on exactly that input:                               *)
(*   VIOL   the real reader did not return (error or completion)              *)
(*   OTHER  the model itself reaches a subscript without a check (Checked)    *)
(*   DRIFT  the model predicts the other of error/done (not a C10 violation)  *)
EXTENDS Malformed, Json
T == ndJsonDeserialize("trace.ndjson")
VARIABLE l
TInit ==
  /\ l \in 1..Len(T)
  /\ cons = T[l].cons /\ base = "trace" /\ tsz = T[l].tsizes /\ ssz = T[l].ssizes /\ spath = T[l].spath
  /\ msgs = T[l].msgs /\ cutk = T[l].cutk /\ how = T[l].how /\ nmut = 0
  /\ r = IF T[l].cutk = -1     \* cut inside a compressed section: which message it hits is not observable
         THEN [R0 EXCEPT !.pc = "end", !.outcome = "unknown", !.fz = TRUE]
         ELSE StartState(T[l].cons, T[l].cutk, T[l].how, T[l].hn)
TNext == Step /\ UNCHANGED l
TSpec == TInit /\ [][TNext]_<<vars, l>>
Real == T[l].outcome
Viol == IF Real \in {"error", "done"} THEN {} ELSE {"ReturnsErrorOrCompletes"}
Report == ~Terminal \/ Viol = {} \/ PrintT(<<"VIOL", l, Viol>>)
ModelSafe == r.outcome # "panic" \/ PrintT(<<"OTHER", l, "model reaches an unchecked subscript", r.site>>)
Drift == ~Terminal \/ r.fz \/ Real \notin {"error", "done"} \/ r.outcome = Real
         \/ PrintT(<<"DRIFT", l, r.outcome, r.site>>)
NoUniverse == <<>>
Stats == ~Terminal \/ PrintT(<<"FIN", l>>)
=============================================================================
