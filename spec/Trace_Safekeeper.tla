--------------------------- MODULE Trace_Safekeeper ---------------------------
(* Trace validation for C09 at unit scale: one old file, signed vs actual      *)
(* content, read through the REAL safekeeper by (a) copy-until-EOF with a      *)
(* 32 KiB buffer (freshBowl.Transpose) or (b) a block-range copy through       *)
(* io.LimitReader (wsync.ApplySingleFull). Verdict on the real outcome; drift  *)
(* against the reader model Safekeeper.tla stepped on the same case.           *)
EXTENDS Safekeeper, Json
TR == ndJsonDeserialize("trace.ndjson")
VARIABLE t
TInit == /\ t \in 1..Len(TR) /\ signed = TR[t].signed /\ actual = TR[t].actual /\ mode = TR[t].mode
         /\ off = StartOff /\ cache = <<>>
         /\ remaining = OpSize /\ outp = <<>> /\ result = "run" /\ eofd = TR[t].eofd
TNext == Next /\ UNCHANGED t
TSpec == TInit /\ [][TNext]_<<vars, t>>
Viol == (IF TR[t].result = "ok" /\ TR[t].out # Expected THEN {"NeverSilentlyWrong"} ELSE {})
   \cup (IF ~Damaged /\ TR[t].result = "error" THEN {"UndamagedAccepted"} ELSE {})
AtStart == result = "run" /\ outp = <<>> /\ cache = <<>>
Report == ~AtStart \/ Viol = {} \/ PrintT(<<"VIOL", t, Viol>>)
Drift == result # "run" /\ ~(result = TR[t].result /\ (result = "ok" => outp = TR[t].out))
ReportDrift == ~Drift \/ PrintT(<<"DRIFT", t>>)
=============================================================================
