--------------------------- MODULE Trace_FileWounds ---------------------------
(* Trace validation for C05, file part, at unit scale (1 unit = 32 KiB, block *)
(* = 2 units, MaxWoundSize = 128 units). Every line is a (signed, actual)     *)
(* pair of one file: the REAL Validate ran on a directory holding `actual`    *)
(* against the signature of `signed` with a wounds file, and in fail-fast     *)
(* mode. Verdict: the property on the real wounds. Drift: the per-file wound  *)
(* model FileWounds.tla is stepped on the same pair and must produce the same *)
(* wounds (the size wound is sent by the worker directly while block wounds   *)
(* travel through aggregator and relay goroutines: only the relayed           *)
(* sub-sequence is compared in order).                                        *)
EXTENDS FileWounds, Json
TR == ndJsonDeserialize("trace.ndjson")
VARIABLE t
TInit == /\ t \in 1..Len(TR) /\ signed = TR[t].signed /\ actual = TR[t].actual
         /\ bi = 0 /\ last = NoW /\ outw = <<>> /\ phase = "stream"
TNext == Next /\ UNCHANGED t
TSpec == TInit /\ [][TNext]_<<vars, t>>
U == TR[t].unit
Aligned == \A k \in 1..Len(TR[t].wounds) : TR[t].wounds[k].start % U = 0 /\ TR[t].wounds[k].end % U = 0
Real == [k \in 1..Len(TR[t].wounds) |-> <<TR[t].wounds[k].kind, TR[t].wounds[k].start \div U, TR[t].wounds[k].end \div U>>]
RCovered(o) == \E k \in 1..Len(Real) : Real[k][1] = "FILE" /\ Real[k][2] <= o /\ o < Real[k][3]
Viol ==
  IF TR[t].err # "" THEN {"ValidateReturns"} ELSE IF ~Aligned THEN {"WoundAlignment"} ELSE
     (IF \A o \in 0..(S - 1) : (o < L /\ DiffersAt(o)) => RCovered(o) THEN {} ELSE {"EveryDifferenceCovered"})
\cup (IF L # S /\ Len(Real) = 0 THEN {"LengthMismatchReported"} ELSE {})
\cup (IF actual # signed /\ Len(Real) = 0 THEN {"DeviationReported"} ELSE {})
\cup (IF actual # signed /\ ~TR[t].failfast THEN {"FailFastErrs"} ELSE {})
\cup (IF actual = signed /\ (Len(Real) # 0 \/ TR[t].failfast) THEN {"NoFalseWound"} ELSE {})
\cup (IF \A k \in 1..Len(Real) : Real[k][1] = "FILE" /\ 0 <= Real[k][2] /\ Real[k][2] <= Real[k][3] THEN {} ELSE {"WellFormedRange"})
AtStart == phase = "stream" /\ bi = 0 /\ outw = <<>>
Report == ~AtStart \/ Viol = {} \/ PrintT(<<"VIOL", t, Viol>>)
ModelFileWounds == SelectSeq(outw, LAMBDA w : w[1] = "FILE")
RECURSIVE DropFirst(_, _)
DropFirst(sq, x) == IF sq = <<>> THEN <<>> ELSE IF Head(sq) = x THEN Tail(sq) ELSE <<Head(sq)>> \o DropFirst(Tail(sq), x)
Has(sq, x) == \E k \in 1..Len(sq) : sq[k] = x
Drift == phase = "done" /\ TR[t].err = "" /\ Aligned /\
             ~(IF L # S THEN Has(Real, SizeW) /\ DropFirst(ModelFileWounds, SizeW) = DropFirst(Real, SizeW)
               ELSE ModelFileWounds = Real)
ReportDrift == ~Drift \/ PrintT(<<"DRIFT", t>>)
=============================================================================
