--------------------------- MODULE Trace_DiffLeak ---------------------------
(* Growth beyond the listed properties (DiffPipelineFault.tla): every line is  *)
(* one REAL DiffContext.WritePatch into which a fault was injected (patch      *)
(* writer, signature writer or source reader failing at a chosen byte, or no   *)
(* fault). Recorded: the error returned and the goroutines started by          *)
(* taskgroup.Do that are still alive 400 ms after WritePatch returned.         *)
(*   OBS  what the model says can happen and is not nice: tasks left behind    *)
(*        after a consumer failed (NoTaskLeftBehind is violated in the model)  *)
(*   ODD  what the model says cannot happen (its invariants NilMeansAllDone,   *)
(*        ErrOnlyIfFault, UpstreamErrorIsClean on the real run)                *)
EXTENDS Integers, Sequences, FiniteSets, Json, TLC
T == ndJsonDeserialize("trace.ndjson")
VARIABLE l
Init == l \in 1..Len(T)
Next == UNCHANGED l
Spec == Init /\ [][Next]_l
Obs(c) == IF c.left > 0 /\ c.err # "" /\ c.fault \in {"patch", "sig", "transient"} THEN {"TasksLeftBehindAfterAConsumerFailed"} ELSE {}
Odd(c) == (IF c.err = "" /\ c.left > 0 THEN {"NilMeansAllDone"} ELSE {})
     \cup (IF c.err # "" /\ ~c.fired THEN {"ErrOnlyIfFault"} ELSE {})
     \cup (IF c.fault = "source" /\ c.left > 0 THEN {"UpstreamErrorIsClean"} ELSE {})
     \cup (IF c.fault = "source" /\ c.fired /\ c.err = "" THEN {"UpstreamErrorIsReported"} ELSE {})
\* (ComputeDiff flushes its pending block-range op in a deferred function that assigns the named result: a writer
\*  whose error is NOT sticky could in principle turn an earlier error into nil. Not observed.)
Masked(c) == IF c.fault = "transient" /\ c.fired /\ c.err = "" /\ c.rebuilds # "yes" THEN {"NilReturnWithAPatchThatDoesNotRebuild"} ELSE {}
Report == Obs(T[l]) = {} \/ PrintT(<<"OBS", l, Obs(T[l])>>)
ReportOdd == Odd(T[l]) \cup Masked(T[l]) = {} \/ PrintT(<<"ODD", l, Odd(T[l]) \cup Masked(T[l])>>)
=============================================================================
