SPECIFICATION Spec
INVARIANTS Report ReportDrift ReportOther Stats
CHECK_DEADLOCK FALSE
