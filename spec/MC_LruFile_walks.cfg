SPECIFICATION SpecRamp
CONSTANTS
  CS = 1
  NE = 2
  MaxLen = 3
  Alphabet = {0, 1}
  MaxOps = 5
ACTION_CONSTRAINT EmitFull
CHECK_DEADLOCK FALSE
