SPECIFICATION TSpec
CONSTANTS
  BS = 2
  MaxW = 128
  MaxLen = 0
  Alphabet = {0}
  OrderedSizeWound = TRUE
INVARIANTS Report ReportDrift
CHECK_DEADLOCK TRUE
