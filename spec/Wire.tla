-------------------------------- MODULE Wire --------------------------------
(* wire.ReadContext over a savior.Source: uvarint length prefix + body, offset counted in    *)
(* decompressed bytes, three-state save protocol, resume from a (reader offset, source       *)
(* checkpoint) pair where the source checkpoint may be EARLIER than the reader offset.       *)
(* Source kinds: "byte" (seek source: checkpoint at the start of any read once asked) and     *)
(* "block" (decompressor: checkpoint only when a read ends on a block boundary).              *)
(* Prototype for C13 (and the reader part of C03).                                            *)
EXTENDS Integers, Sequences, FiniteSets, TLC
CONSTANTS MaxMsgs, MaxLen, SrcKinds
\* uvarint length of n (7 bits per byte)
RECURSIVE VarLen(_)
VarLen(n) == IF n < 128 THEN 1 ELSE 1 + VarLen(n \div 128)
Framed(n) == VarLen(n) + n
RECURSIVE Sum(_)
Sum(s) == IF s = <<>> THEN 0 ELSE Framed(Head(s)) + Sum(Tail(s))
RECURSIVE LenSeqs(_)
LenSeqs(k) == IF k = 0 THEN {<<>>} ELSE LET S == LenSeqs(k-1) IN S \cup {Append(s, n) : s \in {x \in S : Len(x) = k-1}, n \in 0..MaxLen}
VARIABLES lens, kind, bounds,     \* message body lengths; source kind; block boundaries (offsets) of a block source
          off,                    \* reader offset = bytes consumed from the source
          nextMsg, need,          \* index of the message being read / still to read; bytes still needed for it (0 = at a boundary)
          saveSt, srcWant, srcCp, \* reader save state; source's wantSave flag; source checkpoint offset held by the reader
          cps,                    \* popped checkpoints: <<readerOffset, sourceOffset, nextMsg>>
          got                     \* indices of messages returned by ReadMessage since the last (re)start, in order
vars == <<lens,kind,bounds,off,nextMsg,need,saveSt,srcWant,srcCp,cps,got>>
Total == Sum(lens)
Start(i) == Sum(SubSeq(lens, 1, i - 1))
Init == /\ lens \in LenSeqs(MaxMsgs) /\ kind \in SrcKinds
        /\ bounds \in SUBSET (1..Sum(lens))
        /\ (kind = "byte" => bounds = {})
        /\ off = 0 /\ nextMsg = 1 /\ need = 0 /\ saveSt = "idle" /\ srcWant = FALSE /\ srcCp = -1
        /\ cps = <<>> /\ got = <<>>
AtBoundary == need = 0
\* ReadContext.WantSave (only acts when idle)
WantSave == /\ AtBoundary /\ saveSt = "idle" /\ saveSt' = "waiting" /\ srcWant' = TRUE
            /\ UNCHANGED <<lens,kind,bounds,off,nextMsg,need,srcCp,cps,got>>
\* ReadMessage begins: it now needs the whole framed message
Begin == /\ AtBoundary /\ nextMsg <= Len(lens) /\ need' = Framed(lens[nextMsg])
         /\ UNCHANGED <<lens,kind,bounds,off,nextMsg,saveSt,srcWant,srcCp,cps,got>>
\* one source read of n bytes on behalf of ReadMessage (ReadByte for the prefix, ReadFull chunks for the body).
\* emit = -1: the source hands over no checkpoint during this read; otherwise the offset of the checkpoint.
\*   "byte"   seek source: once asked, a checkpoint at the offset BEFORE the read (handleSave)
\*   "block"  decompressor: once asked, a checkpoint when the read ends on a block boundary (offset AFTER)
\*   "logged" trace validation: the source is the environment, its checkpoint offset is bound from the log
SrcStep(n, emit) ==
              /\ need > 0 /\ n >= 1 /\ n <= need
              /\ (kind = "block" => \A b \in bounds : ~(off < b /\ b < off + n))       \* a read never crosses a block boundary
              /\ (emit # -1 => srcWant)                                                 \* a source only saves when asked
              /\ (kind = "byte" => emit = IF srcWant THEN off ELSE -1)
              /\ (kind = "block" => emit = IF srcWant /\ (off + n) \in bounds THEN off + n ELSE -1)
              /\ (kind = "logged" => emit <= off + n)
              /\ srcCp' = IF emit # -1 THEN emit ELSE srcCp
              /\ srcWant' = IF emit # -1 THEN FALSE ELSE srcWant
              /\ saveSt' = IF emit # -1 THEN "has" ELSE saveSt
              /\ off' = off + n /\ need' = need - n
              /\ (IF need - n = 0 THEN got' = Append(got, nextMsg) /\ nextMsg' = nextMsg + 1 ELSE UNCHANGED <<got, nextMsg>>)
              /\ UNCHANGED <<lens,kind,bounds,cps>>
SrcRead(n) == \E emit \in {-1, off, off + n} : SrcStep(n, emit)
\* PopCheckpoint between two messages
Pop == /\ AtBoundary /\ saveSt = "has"
       /\ cps' = Append(cps, <<off, srcCp, nextMsg>>) /\ saveSt' = "idle" /\ srcCp' = -1
       /\ UNCHANGED <<lens,kind,bounds,off,nextMsg,need,srcWant,got>>
\* a NEW reader over the same bytes resumes from a (serialized) checkpoint: source restarts at its own
\* offset, the reader discards Offset - sourceOffset bytes
Resume(k) == /\ k \in 1..Len(cps)
             /\ cps[k][2] <= cps[k][1]                                   \* else: "source resumed after our offset" error
             /\ off' = cps[k][1] /\ nextMsg' = cps[k][3] /\ need' = 0
             /\ saveSt' = "idle" /\ srcWant' = FALSE /\ srcCp' = -1 /\ got' = <<>>
             /\ UNCHANGED <<lens,kind,bounds,cps>>
\* the SAME reader is rewound to a checkpoint (a patcher object that is resumed a second time keeps its reader):
\* ReadContext.Resume resets the reader's save state, but the source object lives on - a save it was asked for stays
\* pending (seeksource keeps its flag across Resume) and is handed over WHILE THE READER DISCARDS the
\* Offset - sourceOffset bytes in front of the boundary. The checkpoint popped next pairs the boundary with a source
\* offset inside [sourceOffset, Offset]. (Found by trace validation: the real reader popped a checkpoint where the
\* first version of this spec, which reset srcWant on every Resume, said there was none.)
Rewind(k) == /\ k \in 1..Len(cps)
             /\ cps[k][2] <= cps[k][1]
             /\ AtBoundary
             /\ off' = cps[k][1] /\ nextMsg' = cps[k][3] /\ need' = 0 /\ got' = <<>>
             /\ \E emit \in {-1} \cup (cps[k][2]..cps[k][1]) :
                  /\ (emit # -1 => srcWant /\ cps[k][2] < cps[k][1])
                  /\ (kind = "byte" => emit = IF srcWant /\ cps[k][2] < cps[k][1] THEN cps[k][2] ELSE -1)
                  /\ (kind = "block" => emit = -1 \/ (emit \in bounds /\ emit > cps[k][2]))
                  /\ saveSt' = IF emit # -1 THEN "has" ELSE "idle"
                  /\ srcCp' = emit
                  /\ srcWant' = IF emit # -1 THEN FALSE ELSE srcWant
             /\ UNCHANGED <<lens,kind,bounds,cps>>
Terminating == nextMsg > Len(lens) /\ need = 0 /\ UNCHANGED vars
Next == Terminating \/ WantSave \/ Begin \/ (\E n \in 1..(MaxLen + 2) : SrcRead(n)) \/ Pop \/ (\E k \in 1..Len(cps) : Resume(k) \/ Rewind(k))
Spec == Init /\ [][Next]_vars
(* ---- C13 ---- *)
\* every popped checkpoint names a message boundary, the source part is not later than the reader part
CheckpointsExact == \A k \in 1..Len(cps) : cps[k][1] = Start(cps[k][3]) /\ cps[k][2] >= 0 /\ cps[k][2] <= cps[k][1]
\* messages come back in order without gaps (after a resume: starting at the checkpoint's next message)
InOrder == \A j \in 1..(Len(got) - 1) : got[j + 1] = got[j] + 1
OffsetIsFramedSum == AtBoundary => off = Start(nextMsg)
Bound == Len(cps) <= 2
=============================================================================
