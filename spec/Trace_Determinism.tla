--------------------------- MODULE Trace_Determinism ---------------------------
(* Trace validation for C15: every line is one build pair that the REAL differ  *)
(* processed R times (GOMAXPROCS 1..16, source readers returning seeded short   *)
(* reads and yielding at seeded points) and whose patch the REAL optimizer      *)
(* rewrote R times with fixed parameters. All runs of equal input must yield    *)
(* equal patch, signature and optimized-patch digests.                          *)
EXTENDS Integers, Sequences, FiniteSets, Json, TLC
T == ndJsonDeserialize("trace.ndjson")
VARIABLE l
Init == l \in 1..Len(T)
Next == UNCHANGED l
Spec == Init /\ [][Next]_l
AsSet(s) == {s[k] : k \in 1..Len(s)}
Viol(c) ==
     (IF c.differrs = <<>> /\ c.opterrs = <<>> THEN {} ELSE {"RunsSucceed"})
\cup (IF Cardinality(AsSet(c.patchshas)) = 1 THEN {} ELSE {"SamePatchBytes"})
\cup (IF Cardinality(AsSet(c.sigshas)) = 1 THEN {} ELSE {"SameSignatureBytes"})
\cup (IF Cardinality(AsSet(c.optshas)) = 1 THEN {} ELSE {"OptimizerDeterministic"})
\cup (IF Len(c.anamaps) = 1 /\ (c.optmaps = <<>> \/ c.anamaps[1] = c.optmaps[1]) THEN {} ELSE {"OptimizerChoosesSameTargetsEveryTime"})
Report == Viol(T[l]) = {} \/ PrintT(<<"VIOL", l, Viol(T[l])>>)
Stats == PrintT(<<"STAT", l, T[l].runs, Cardinality(AsSet(T[l].procs))>>)
=============================================================================
