---------------------------- MODULE Trace_Bsdiff ----------------------------
(* Trace validation for C12 at small scale: every line is one execution of    *)
(* the REAL bsdiff.DiffContext.Do (control series verbatim) followed by the   *)
(* REAL IndividualPatchContext.Apply (old offset after every control, output, *)
(* resumption from every saved offset). The abstract automaton BsdiffCtl      *)
(* decides: the series is accepted for (old,new), resumes give the same       *)
(* remainder, and the real applier agrees with the automaton.                 *)
EXTENDS BsdiffCtl, FiniteSets, Json
T == ndJsonDeserialize("trace.ndjson")
VARIABLE l
Init == l \in 1..Len(T)
Next == UNCHANGED l
Spec == Init /\ [][Next]_l
Ctl(c) == [k \in 1..Len(c.ctl) |-> [add |-> c.ctl[k].add, copy |-> c.ctl[k].copy, seek |-> c.ctl[k].seek, eof |-> c.ctl[k].eof]]
NonEof(cs) == SelectSeq(cs, LAMBDA x : ~x.eof)
Viol(c) ==
  LET cs == Ctl(c) IN
     (IF c.differr = "" THEN {} ELSE {"DifferFails"})
\cup (IF Len(cs) >= 1 /\ cs[Len(cs)].eof /\ \A k \in 1..(Len(cs) - 1) : ~cs[k].eof THEN {} ELSE {"OneFinalEndOfSeries"})
\cup (IF Apply(c.old, cs)[3] = "eof" /\ Apply(c.old, cs)[2] = c.new THEN {} ELSE {"SeriesYieldsNew"})
\cup (IF c.applyok /\ c.out = c.new THEN {} ELSE {"RealApplyYieldsNew"})
\cup (IF \A k \in 1..Len(c.resumes) : c.resumes[k] THEN {} ELSE {"RealResumeSameRemainder"})
\cup (IF \A k \in 0..Len(NonEof(cs)) : ResumeOK(c.old, cs, k) THEN {} ELSE {"ResumeSameRemainder"})
Report == Viol(T[l]) = {} \/ PrintT(<<"VIOL", l, Viol(T[l])>>)
\* drift: the real applier's offset trajectory equals the automaton's
Drift(c) == LET cs == Ctl(c) IN
            \/ Len(c.offs) # Len(NonEof(cs))
            \/ \E k \in 1..Len(c.offs) : Run(c.old, <<0, <<>>, "run">>, SubSeq(cs, 1, k))[1] # c.offs[k]
ReportDrift == ~(T[l].applyok /\ Drift(T[l])) \/ PrintT(<<"DRIFT", l>>)
=============================================================================
