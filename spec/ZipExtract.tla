---------------------------- MODULE ZipExtract ----------------------------
(* archiver.ExtractZip (archiver/zip.go): worker pool, unbuffered index channel, *)
(* resume file = index of the last entry completed by ANY worker, crash/restart. *)
EXTENDS Integers, FiniteSets, TLC
CONSTANTS NW, NE, MaxCrashes,
          Repaired   \* TRUE: the resume file records the highest index below which EVERYTHING is complete
Workers == 1..NW
Entries == 0..(NE-1)
VARIABLES next,        \* next entry index main will dispatch
          wstate,      \* [Workers -> "idle" | "busy" | "written" | "exit"]
          wentry,      \* entry a worker holds
          disk,        \* [Entries -> "absent" | "partial" | "full"]   (survives crashes)
          resumeFile,  \* -1 = no file; else last index written           (survives crashes)
          lastDone,    \* value read from the resume file at start of this run
          chanClosed, crashes, finished,
          doneSet      \* repaired: indices completed in this run but not yet covered by the contiguous register
vars == <<next,wstate,wentry,disk,resumeFile,lastDone,chanClosed,crashes,finished,doneSet>>
Init == /\ next = 0 /\ wstate = [w \in Workers |-> "idle"] /\ wentry = [w \in Workers |-> -1]
        /\ disk = [e \in Entries |-> "absent"] /\ resumeFile = -1 /\ lastDone = -1
        /\ chanClosed = FALSE /\ crashes = 0 /\ finished = FALSE /\ doneSet = {}
\* rendezvous: main sends index, an idle worker takes it
Dispatch(w) == /\ ~finished /\ next < NE /\ wstate[w] = "idle"
               /\ wentry' = [wentry EXCEPT ![w] = next] /\ next' = next + 1
               /\ wstate' = [wstate EXCEPT ![w] = "busy"]
               /\ UNCHANGED <<disk,resumeFile,lastDone,chanClosed,crashes,finished,doneSet>>
\* entries at or below lastDone are skipped
Skip(w) == /\ wstate[w] = "busy" /\ wentry[w] <= lastDone
           /\ wstate' = [wstate EXCEPT ![w] = "idle"]
           /\ UNCHANGED <<next,wentry,disk,resumeFile,lastDone,chanClosed,crashes,finished,doneSet>>
StartWrite(w) == /\ wstate[w] = "busy" /\ wentry[w] > lastDone /\ disk[wentry[w]] # "partial"
                 /\ disk' = [disk EXCEPT ![wentry[w]] = "partial"]      \* RemoveAll + create + copying
                 /\ UNCHANGED <<next,wstate,wentry,resumeFile,lastDone,chanClosed,crashes,finished,doneSet>>
FinishWrite(w) == /\ wstate[w] = "busy" /\ wentry[w] > lastDone /\ disk[wentry[w]] = "partial"
                  /\ disk' = [disk EXCEPT ![wentry[w]] = "full"]
                  /\ wstate' = [wstate EXCEPT ![w] = "written"]
                  /\ UNCHANGED <<next,wentry,resumeFile,lastDone,chanClosed,crashes,finished,doneSet>>
\* highest c such that every index in (from, c] is in S
RECURSIVE Contig(_, _)
Contig(from, S) == IF (from + 1) \in S THEN Contig(from + 1, S) ELSE from
WriteProgress(w) == /\ wstate[w] = "written"
                    /\ IF Repaired
                       THEN LET S == doneSet \cup {wentry[w]}
                                base == IF resumeFile > lastDone THEN resumeFile ELSE lastDone
                                c == Contig(base, S)
                            IN /\ resumeFile' = (IF c > base THEN c ELSE resumeFile)
                               /\ doneSet' = {e \in S : e > c}
                       ELSE resumeFile' = wentry[w] /\ UNCHANGED doneSet
                    /\ wstate' = [wstate EXCEPT ![w] = "idle"]
                    /\ UNCHANGED <<next,wentry,disk,lastDone,chanClosed,crashes,finished>>
CloseChan == /\ next = NE /\ ~chanClosed /\ chanClosed' = TRUE
             /\ UNCHANGED <<next,wstate,wentry,disk,resumeFile,lastDone,crashes,finished,doneSet>>
WorkerExit(w) == /\ chanClosed /\ wstate[w] = "idle" /\ wstate' = [wstate EXCEPT ![w] = "exit"]
                 /\ UNCHANGED <<next,wentry,disk,resumeFile,lastDone,chanClosed,crashes,finished,doneSet>>
Finish == /\ \A w \in Workers : wstate[w] = "exit" /\ ~finished
          /\ finished' = TRUE /\ resumeFile' = -1           \* deferred os.Remove(resume file)
          /\ UNCHANGED <<next,wstate,wentry,disk,lastDone,chanClosed,crashes,doneSet>>
\* process killed at any instant; destination folder and resume file survive; restart
Crash == /\ ~finished /\ crashes < MaxCrashes
         /\ crashes' = crashes + 1 /\ lastDone' = resumeFile
         /\ next' = 0 /\ wstate' = [w \in Workers |-> "idle"] /\ wentry' = [w \in Workers |-> -1]
         /\ chanClosed' = FALSE /\ doneSet' = {}
         /\ UNCHANGED <<disk,resumeFile,finished>>
Next == \/ \E w \in Workers : Dispatch(w) \/ Skip(w) \/ StartWrite(w) \/ FinishWrite(w) \/ WriteProgress(w) \/ WorkerExit(w)
        \/ CloseChan \/ Finish \/ Crash
Terminating == finished /\ UNCHANGED vars
Spec == Init /\ [][Next \/ Terminating]_vars
CompleteTree == finished => \A e \in Entries : disk[e] = "full"
=============================================================================
