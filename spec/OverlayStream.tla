--------------------------- MODULE OverlayStream ---------------------------
(* pwr/overlay: overlayWriter (bufio of size W in front of                    *)
(* overlayProcessor.Write/write) - implementation-shaped, scale-free over     *)
(* equality runs; sessions resumed from the offsets reported after a flush.   *)
(* W = 128 KiB window, T = 8 KiB threshold: an equal run is skipped iff its   *)
(* part inside one window is longer than T. C14.                              *)
EXTENDS OverlayProp, TLC
CONSTANTS W, T
\* overlayProcessor.write on one window: the scan over the bytes read from the old file
RECURSIVE Scan(_, _, _, _)
Scan(cl, cur, lastOp, acc) ==           \* cl: clipped runs; returns <<ops, lastOp, rbuflen>>
  IF cl = <<>> \/ Head(cl).k = "X" THEN <<acc, lastOp, cur>>
  ELSE LET r == Head(cl) IN
       IF r.k = "E" /\ r.n > T
       THEN Scan(Tail(cl), cur + r.n, cur + r.n,
                 acc \o (IF cur > lastOp THEN <<[t |-> "FRESH", n |-> cur - lastOp]>> ELSE <<>>) \o <<[t |-> "SKIP", n |-> r.n]>>)
       ELSE Scan(Tail(cl), cur + r.n, lastOp, acc)
\* adjacent clipped runs of the same kind are one streak for the scanner
RECURSIVE Coalesce(_)
Coalesce(cl) == IF Len(cl) < 2 THEN cl
                ELSE IF cl[1].k = cl[2].k THEN Coalesce(<<[k |-> cl[1].k, n |-> cl[1].n + cl[2].n]>> \o SubSeq(cl, 3, Len(cl)))
                ELSE <<cl[1]>> \o Coalesce(Tail(cl))
WindowOps(runs, p, n) ==
  LET cl == Coalesce(OClip(runs, 0, p, n))
      s == Scan(cl, 0, 0, <<>>)
      rbuflen == s[3]
  IN s[1] \o (IF s[2] < rbuflen THEN <<[t |-> "FRESH", n |-> rbuflen - s[2]]>> ELSE <<>>)
          \o (IF rbuflen < n THEN <<[t |-> "FRESH", n |-> n - rbuflen]>> ELSE <<>>)
VARIABLES runs,          \* the content relation (input)
          pos, b,        \* bytes processed (= ReadOffset); bytes sitting in the bufio buffer
          ops,           \* overlay ops emitted so far
          cp,            \* <<readOffset, #ops>> reported after the last Flush (a checkpoint)
          finalized
vars == <<runs,pos,b,ops,cp,finalized>>
\* overlayProcessor.Write(buf): `for written < len(buf) { n := write(buf); buf = buf[n:]; written += n }`
\* the bound shrinks while `written` grows, so a long chunk may be consumed only partly (short write)
RECURSIVE ProcWrite(_, _, _, _, _)
ProcWrite(rs, p, rem, written, acc) ==      \* -> <<consumed, ops>>
  IF ~(written < rem) THEN <<written, acc>>
  ELSE LET w == OMin(rem, W) IN ProcWrite(rs, p + w, rem - w, written + w, acc \o WindowOps(rs, p, w))
NewLen == OTotal(runs)
\* bufio.Writer.Write(n) in front of the processor
RECURSIVE BufWrite(_, _, _, _, _)
BufWrite(rs, n, bb, pp, acc) ==            \* -> <<b, pos, ops>>
  IF n > W - bb
  THEN IF bb = 0 THEN LET r == ProcWrite(rs, pp, n, 0, <<>>) IN BufWrite(rs, n - r[1], 0, pp + r[1], acc \o r[2])   \* large write, empty buffer: direct (possibly short)
       ELSE LET take == W - bb IN BufWrite(rs, n - take, 0, pp + W, acc \o ProcWrite(rs, pp, W, 0, <<>>)[2])       \* fill, flush one full window
  ELSE <<bb + n, pp, acc>>
Write(n) == /\ ~finalized /\ n >= 1 /\ pos + b + n <= NewLen
            /\ LET r == BufWrite(runs, n, b, pos, ops) IN b' = r[1] /\ pos' = r[2] /\ ops' = r[3]
            /\ UNCHANGED <<runs, cp, finalized>>
Flush == /\ ~finalized
         /\ ops' = ops \o ProcWrite(runs, pos, b, 0, <<>>)[2] /\ pos' = pos + b /\ b' = 0
         /\ cp' = <<pos + b, Len(ops')>>
         /\ UNCHANGED <<runs, finalized>>
\* crash: everything after the checkpointed overlay offset is stale; a new writer resumes from cp
\* (a session can also start over from nothing: cp = <<0,0>>)
CrashResume == /\ ~finalized
               /\ pos' = cp[1] /\ b' = 0 /\ ops' = SubSeq(ops, 1, cp[2])
               /\ UNCHANGED <<runs, cp, finalized>>
Finalize == /\ ~finalized /\ pos + b = NewLen
            /\ ops' = ops \o ProcWrite(runs, pos, b, 0, <<>>)[2] /\ pos' = pos + b /\ b' = 0 /\ finalized' = TRUE
            /\ UNCHANGED <<runs, cp>>
Terminating == finalized /\ UNCHANGED vars

(* ---- C14 on the model's own op stream ---- *)
SkipsOnlyEqual == OOpsOK(runs, ops, 0)
OffsetsExact == OOpsLen(ops) = pos                      \* read offset advances with every emitted op
CheckpointExact == OCheckpointOK(ops, cp)
ResultIsNew == finalized => OOpsLen(ops) = NewLen
NoEmptyOps == \A k \in 1..Len(ops) : ops[k].n >= 1
=============================================================================
