SPECIFICATION Spec
CONSTANTS
  NW = 2
  NB = 4
  MPB = 2
  MCap = 1
INVARIANTS OrderedPrefix NoWedge
PROPERTY Completes
CHECK_DEADLOCK FALSE
