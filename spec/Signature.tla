------------------------------ MODULE Signature ------------------------------
(* How a file's bytes become signature blocks, and how the flat hash list is   *)
(* cut back into per-file groups (C04).                                        *)
(*  - producer: wsync.CreateSignature = bufio.Scanner with a buffer of exactly *)
(*    one block and splitfunc (a full block as soon as the buffer holds one,   *)
(*    the remainder at EOF), fed by a reader that may return ARBITRARILY short *)
(*    reads (the diff-time signer sits behind an io.Pipe fed by ctxcopy; the   *)
(*    stand-alone signer reads the pool directly); an empty file still yields  *)
(*    one (empty) block.                                                        *)
(*  - consumer: pwr.ReadSignature / ComputeHashInfo derive block counts, short *)
(*    sizes and per-file groups from the container's file sizes alone.         *)
EXTENDS Blocks, FiniteSets, TLC
CONSTANTS BS, MaxSize, NFiles
VARIABLES sizes,        \* file sizes of the container (input)
          fi,           \* file being signed
          left,         \* bytes of it not yet delivered by the reader
          buf,          \* bytes sitting in the scanner's buffer
          blocks,       \* block lengths emitted for the current file
          flat,         \* flat list of <<file, block index, length>> in emission order = signature stream
          pc
vars == <<sizes, fi, left, buf, blocks, flat, pc>>
Init == /\ sizes \in [1..NFiles -> 0..MaxSize]
        /\ fi = 1 /\ left = sizes[1] /\ buf = 0 /\ blocks = <<>> /\ flat = <<>> /\ pc = "scan"
Emit(n) == /\ blocks' = Append(blocks, n) /\ flat' = Append(flat, <<fi, Len(blocks), n>>)
\* the underlying reader hands over k bytes (any short read), never more than the free space of the buffer
Fill(k) == /\ pc = "scan" /\ buf < BS /\ left > 0 /\ k \in 1..BMin(left, BS - buf)
           /\ buf' = buf + k /\ left' = left - k /\ UNCHANGED <<sizes, fi, blocks, flat, pc>>
\* splitfunc: a block-full
SplitFull == /\ pc = "scan" /\ buf >= BS /\ Emit(BS) /\ buf' = buf - BS /\ UNCHANGED <<sizes, fi, left, pc>>
\* splitfunc at EOF: whatever is left (if anything), then the scan ends
SplitEOF == /\ pc = "scan" /\ buf < BS /\ left = 0
            /\ IF buf > 0 THEN Emit(buf) /\ buf' = 0 /\ UNCHANGED pc
               ELSE pc' = "after" /\ UNCHANGED <<blocks, flat, buf>>
            /\ UNCHANGED <<sizes, fi, left>>
\* "let empty files have a 0-length shortblock", then on to the next file
After == /\ pc = "after"
         /\ LET bl == IF blocks = <<>> THEN <<0>> ELSE blocks
                fl == IF blocks = <<>> THEN Append(flat, <<fi, 0, 0>>) ELSE flat
            IN /\ flat' = fl
               /\ IF fi = NFiles THEN pc' = "done" /\ UNCHANGED <<fi, left>> /\ blocks' = bl
                  ELSE /\ fi' = fi + 1 /\ left' = sizes[fi + 1] /\ blocks' = <<>> /\ pc' = "scan"
         /\ UNCHANGED <<sizes, buf>>
Terminating == pc = "done" /\ UNCHANGED vars
Next == (\E k \in 1..BS : Fill(k)) \/ SplitFull \/ SplitEOF \/ After \/ Terminating
Spec == Init /\ [][Next]_vars
(* ---- C04 ---- *)
\* what the signature of a file of n bytes must be
Expected(n) == IF n = 0 THEN <<0>>
               ELSE [i \in 1..BNumBlocks(n, BS) |-> BBlockSize(n, BS, i - 1)]
FileBlocks(f) == LET idx == {j \in 1..Len(flat) : flat[j][1] = f} IN
                 [i \in 1..Cardinality(idx) |-> flat[CHOOSE j \in idx : Cardinality({x \in idx : x < j}) = i - 1][3]]
BlocksExact == pc = "done" => \A f \in 1..NFiles : FileBlocks(f) = Expected(sizes[f])
\* read back: ReadSignature walks the container, takes BHashSlots(size) hashes per file in order
RECURSIVE Offset(_)
Offset(f) == IF f = 1 THEN 0 ELSE Offset(f - 1) + BHashSlots(sizes[f - 1], BS)
ReadBackInverts == pc = "done" =>
   /\ Len(flat) = Offset(NFiles) + BHashSlots(sizes[NFiles], BS)
   /\ \A f \in 1..NFiles : \A i \in 1..BHashSlots(sizes[f], BS) :
        /\ flat[Offset(f) + i][1] = f /\ flat[Offset(f) + i][2] = i - 1
        /\ flat[Offset(f) + i][3] = (IF sizes[f] = 0 THEN 0 ELSE BBlockSize(sizes[f], BS, i - 1))
\* the short size ReadSignature assigns: 0 for full blocks, size % BS for the last short one
ShortSizeRule == \A f \in 1..NFiles : \A i \in 0..(BNumBlocks(sizes[f], BS) - 1) :
   (IF (i + 1) * BS > sizes[f] THEN sizes[f] % BS ELSE 0) = (IF BBlockSize(sizes[f], BS, i) = BS THEN 0 ELSE BBlockSize(sizes[f], BS, i))
=============================================================================
