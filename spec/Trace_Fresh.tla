----------------------------- MODULE Trace_Fresh -----------------------------
(* Trace validation for C08: every line is one real WritePatch over a pair of *)
(* builds of high-entropy content related by a logged edit script. Per new    *)
(* file: the bytes the edits introduce, the number k of edits, and the fresh  *)
(* (DATA) / reused (block range) bytes found in its series of the decoded     *)
(* patch; plus the differ's own counters.                                      *)
EXTENDS Integers, Sequences, FiniteSets, Json, TLC
BS == 65536
T == ndJsonDeserialize("trace.ndjson")
VARIABLE l
Init == l \in 1..Len(T)
Next == UNCHANGED l
Spec == Init /\ [][Next]_l
RECURSIVE Sum(_, _)
Sum(fs, k) == IF k = 0 THEN 0 ELSE fs[k].size + Sum(fs, k - 1)
FileViol(f) ==
     (IF f.fresh + f.reused = f.size THEN {} ELSE {"FileAddsUp"})
\cup (IF f.from # "" /\ f.k = 0 /\ f.fresh # 0 THEN {"EqualContentSendsNothing"} ELSE {})
\cup (IF f.fresh <= f.introduced + (2 * f.k + 2) * BS THEN {} ELSE {"EditBound"})
Viol(c) ==
  IF c.differr # "" THEN {"DiffSucceeds"} ELSE IF ~c.decoded THEN {"PatchDecodes"} ELSE
     UNION {FileViol(c.files[k]) : k \in 1..Len(c.files)}
\cup (IF c.fresh = c.databytes /\ c.reused = c.rangebytes THEN {} ELSE {"CountersMatchPatch"})
\cup (IF c.fresh + c.reused = c.total /\ c.total = Sum(c.files, Len(c.files)) THEN {} ELSE {"CountersAddUp"})
\cup (IF c.identical /\ c.databytes # 0 THEN {"IdenticalBuildsCarryNoData"} ELSE {})
Report == Viol(T[l]) = {} \/ PrintT(<<"VIOL", l, Viol(T[l])>>)
Stats == PrintT(<<"STAT", l, Len(T[l].files), Cardinality({k \in 1..Len(T[l].files) : T[l].files[k].k > 0})>>)
=============================================================================
