SPECIFICATION TSpec
CONSTANTS
  BSs = {1}
  Alphabet = {0}
  NOld = 1
  MaxOld = 0
  MaxNew = 0
  MaxData = 4194304
INVARIANTS ReportDrift ModelOK
CHECK_DEADLOCK TRUE
