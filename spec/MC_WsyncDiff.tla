--------------------------- MODULE MC_WsyncDiff ---------------------------
(* Exhaustive configuration of WsyncDiff for C11. *)
EXTENDS WsyncDiff
View == <<bs, olds, src, pref, base, sumTail, validTo, dataTail, dataHead, rd, lastRun, rolling, shortSize, aPop, b1, b2, beta, prevOp, out, sendCount, pc>>
MCNext == Next \/ Terminating
MCSpec == Init /\ [][MCNext]_vars
=============================================================================
