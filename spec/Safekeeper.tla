----------------------------- MODULE Safekeeper -----------------------------
(* pwr/safekeeper.go: every Read first validates the block containing the current offset   *)
(* (comparing as many bytes as the SIGNED block has), caches the verdict per block, then    *)
(* returns whatever the underlying read returns. Consumers: whole-file copy until EOF       *)
(* (freshBowl.Transpose) and block-range copy through io.LimitReader (ApplySingleFull).     *)
(* Units: BS units per block, consumers read C units at a time. Prototype for C09.          *)
EXTENDS Integers, Sequences, FiniteSets, TLC
CONSTANTS BS, C, MaxLen, Alphabet,
          Repaired,  \* TRUE: short validation reads count as mismatches, nothing is handed out beyond the signed size, data past it is an error
          EOFChecked \* TRUE: an end of file reported before the signed size is an error even when it comes WITH bytes (below)
RECURSIVE SeqsUpTo(_)
SeqsUpTo(n) == IF n = 0 THEN {<<>>} ELSE LET S == SeqsUpTo(n-1) IN S \cup {Append(s, a) : s \in {t \in S : Len(t) = n-1}, a \in Alphabet}
Min(a,b) == IF a < b THEN a ELSE b
VARIABLES signed, actual,     \* signed content of the old file; what is really on disk
          mode,               \* <<-1,0>> (copy until EOF) | <<i, n>> (block range i, span n) | <<-2, j>> (ONE cache chunk: Seek to
                              \* j*C, ReadFull of C units - how bsdiff's lrufile reads the old file: it may enter a block in its middle)
          off, cache,         \* reader offset; cache: block index -> "ok" | "bad" | "eof"
          remaining,          \* LimitReader budget (only for ranges)
          outp, result,       \* bytes delivered to the bowl; "run" | "ok" | "error"
          eofd                \* environment: the inner pool's readers report io.EOF TOGETHER with the last bytes of a file
                              \* (n > 0, err = EOF), as io.Reader allows. Every consumer then stops without another Read -
                              \* so nothing comes back to validate the block that should follow.
vars == <<signed,actual,mode,off,cache,remaining,outp,result,eofd>>
S == Len(signed)
NumBlocks(n) == (n + BS - 1) \div BS
\* pwr.ComputeBlockSize(fileSize, blockIndex)
BlockSize(i) == IF BS * (i + 1) > S THEN S % BS ELSE BS
SignedBlock(i) == SubSeq(signed, i*BS + 1, Min((i+1)*BS, S))
\* hash groups: empty files have no group
HasHash(i) == S > 0 /\ i < NumBlocks(S)
\* validateBlock: Seek(block start); Read(buf[:BlockSize]); io.EOF from that read is returned as the error
Verdict(i) == LET want == BlockSize(i)
                  start == i * BS
                  got == SubSeq(actual, start + 1, Min(start + want, Len(actual)))
              IN IF ~Repaired /\ want > 0 /\ start >= Len(actual) THEN "eof"          \* os.File.Read at/after EOF with a non-empty buffer
                 ELSE IF HasHash(i) /\ got = SignedBlock(i) THEN "ok" ELSE "bad"
OpSize == IF mode[1] = -1 THEN 0 ELSE IF mode[1] = -2 THEN C
          ELSE LET last == mode[1] + mode[2] - 1 IN (mode[2] - 1) * BS + (IF BS * (last + 1) > S THEN S % BS ELSE BS)
StartOff == IF mode[1] = -1 THEN 0 ELSE IF mode[1] = -2 THEN mode[2] * C ELSE mode[1] * BS
Damaged == actual # signed
Init == /\ signed \in SeqsUpTo(MaxLen) /\ actual \in SeqsUpTo(MaxLen + 1)
        /\ mode \in {<<-1, 0>>} \cup {<<i, n>> : i \in 0..(NumBlocks(S) - 1), n \in 1..NumBlocks(S)} \cup {<<-2, j>> : j \in 0..((S + C - 1) \div C - 1)}
        /\ (mode[1] >= 0 => mode[1] + mode[2] <= NumBlocks(S))
        /\ (mode[1] = -1 => S > 0)                      \* empty files are never transposed
        /\ off = StartOff /\ cache = <<>>
        /\ remaining = OpSize /\ outp = <<>> /\ result = "run" /\ eofd \in BOOLEAN
CacheGet(i) == IF \E k \in 1..Len(cache) : cache[k][1] = i THEN (CHOOSE k \in 1..Len(cache) : cache[k][1] = i) ELSE 0
\* one Read(p) with len(p) = n as seen by the consumer
Read == /\ result = "run"
        /\ LET want0 == IF mode[1] = -1 THEN C ELSE Min(C, remaining)
               past == Repaired /\ off >= S                                  \* repaired: past the last signed byte only EOF is acceptable
               want == IF Repaired /\ ~past THEN Min(want0, S - off) ELSE want0
               i == off \div BS
               k == CacheGet(i)
               v == IF past THEN "ok" ELSE IF k # 0 THEN cache[k][2] ELSE Verdict(i)
               got == SubSeq(actual, off + 1, Min(off + want, Len(actual)))
           IN /\ cache' = IF k = 0 /\ ~past /\ ~(mode[1] # -1 /\ remaining = 0) THEN Append(cache, <<i, v>>) ELSE cache
              /\ IF mode[1] # -1 /\ remaining = 0 THEN result' = "ok" /\ UNCHANGED <<off,outp,remaining>>   \* LimitReader exhausted
                 ELSE IF past THEN result' = (IF got # <<>> THEN "error" ELSE "ok") /\ UNCHANGED <<off,outp,remaining>>
                 ELSE IF v = "bad" THEN result' = "error" /\ UNCHANGED <<off,outp,remaining>>
                 ELSE IF v = "eof" \/ got = <<>> THEN result' = "ok" /\ UNCHANGED <<off,outp,remaining>>     \* io.EOF ends the copy normally
                 ELSE /\ outp' = outp \o got /\ off' = off + Len(got)
                      /\ remaining' = IF mode[1] = -1 THEN 0 ELSE remaining - Len(got)
                      \* the inner read reached the end of the actual file and says so with these bytes: the copy loops, the
                      \* LimitReader copy and ReadFull all end here. Short of the signed size that is an error (EOFChecked).
                      /\ result' = IF eofd /\ off + Len(got) = Len(actual)
                                   THEN (IF EOFChecked /\ off + Len(got) < S
                                            /\ ~(mode[1] = -2 /\ remaining - Len(got) = 0)   \* io.ReadFull drops an error that comes with the bytes that fill its buffer
                                         THEN "error" ELSE "ok")
                                   ELSE "run"
        /\ UNCHANGED <<signed,actual,mode,eofd>>
Terminating == result # "run" /\ UNCHANGED vars
Next == Read \/ Terminating
Spec == Init /\ [][Next]_vars
(* ---- C09 ---- *)
Expected == IF mode[1] = -1 THEN signed ELSE IF mode[1] = -2 THEN SubSeq(signed, mode[2]*C + 1, Min((mode[2] + 1)*C, S)) ELSE SubSeq(signed, mode[1]*BS + 1, Min((mode[1] + mode[2])*BS, S))
NeverSilentlyWrong == result = "ok" => outp = Expected
UndamagedAccepted == (~Damaged) => result # "error"
=============================================================================
