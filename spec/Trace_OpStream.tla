-------------------------- MODULE Trace_OpStream --------------------------
(* Trace validation for C11 at model scale: every line of trace.ndjson is one  *)
(* execution of the REAL wsync.Context.ComputeDiff (inputs and emitted ops     *)
(* verbatim). One TLC state per line; the abstract layer (OpStream) is          *)
(* evaluated on the real ops. Violations are reported per line.                *)
EXTENDS OpStream, Json, TLC
CONSTANT MaxData
T == ndJsonDeserialize("trace.ndjson")
VARIABLE l
Init == l \in 1..Len(T)
Next == UNCHANGED l
Spec == Init /\ [][Next]_l
Viol(k) == OSViolations(T[k].olds, T[k].bs, T[k].src, T[k].ops, MaxData)
\* always TRUE; prints one line per violating execution (the verdict channel)
Report == Viol(l) = {} \/ PrintT(<<"VIOL", l, Viol(l)>>)
\* plain invariant form (used by the self-test of the binding)
Holds == Viol(l) = {}
Lines == Len(T)
=============================================================================
