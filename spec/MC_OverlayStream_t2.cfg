SPECIFICATION MCSpec
CONSTANTS
  W = 5
  T = 2
  MaxUnits = 9
  MaxWrite = 9
  MaxCrashes = 1
INVARIANTS SkipsOnlyEqual OffsetsExact CheckpointExact ResultIsNew NoEmptyOps
CHECK_DEADLOCK TRUE
