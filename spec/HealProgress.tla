---------------------------- MODULE HealProgress ----------------------------
(* Growth beyond the listed properties: the progress accounting of the archive healer
   (pwr/archive_healer.go: totalCorrupted, totalHealing, totalHealed, totalHealthy and the
   fraction it reports through state.Consumer.Progress, documented "in the [0,1] interval").

   One file of signed size S with one kind of damage yields a series of events on the
   wounds channel (Events): one healthy CLOSED_FILE "wound" per block that validates
   (blockvalidator.go: ValidateAsWound), FILE wounds for blocks that do not, merged by
   AggregateWounds (wounds.go: two FILE wounds are merged whenever the second starts at or after
   the end of the first - gaps included; healthy events pass through and flush the pending
   wound), the size wound the validator worker sends itself BEFORE it closes the writer
   (validator.go: doOne), and the partial last block that is only validated by that Close
   (drip.Writer.Close).  Events of different files interleave freely (validator workers).

   The healer (processWound) counts a file as healthy when it sees a healthy event that ENDS at
   the file's size and the file is not queued yet, queues a file on its first FILE wound, and adds
   the file's whole size to totalHealed when it is rewritten.                                  *)
EXTENDS Integers, Sequences, FiniteSets, TLC

CONSTANTS BS,        \* block size
          NFiles,    \* files 1..NFiles
          MaxSize,   \* signed sizes 0..MaxSize
          MaxExtra,  \* a grown file has 1..MaxExtra bytes too many
          Kinds      \* subset of {"ok","flip","short","long","missing"}

VARIABLES size, disk, ord, reported, pos, queued, toHeal, healthy, healing, healed, corrupted
vars == <<size, disk, ord, reported, pos, queued, toHeal, healthy, healing, healed, corrupted>>

Min(a, b) == IF a < b THEN a ELSE b

\* pwr.ComputeBlockSize
BlockSz(S, j) == IF BS * (j + 1) > S THEN S % BS ELSE BS
NBlocks(L) == (L + BS - 1) \div BS

H(a, b) == [k |-> "H", s |-> a, e |-> b]
W(a, b) == [k |-> "W", s |-> a, e |-> b]

\* what ValidateAsWound says about block j of a file of signed size S when the disk holds
\* L bytes of which the first `good` are right and block `bad` (or -1) is flipped
RawBlock(S, L, bad, j) ==
  LET have == Min(BS, L - j * BS)            \* bytes the drip writer hands over for block j
      want == IF j < NBlocks(S) THEN Min(BS, S - j * BS) ELSE -1
  IN IF want = have /\ j # bad
       THEN H(j * BS, j * BS + BlockSz(S, j))
       ELSE W(j * BS, j * BS + BlockSz(S, j))

RawBlocks(S, L, bad) == [j \in 1..NBlocks(L) |-> RawBlock(S, L, bad, j - 1)]

\* AggregateWounds with a limit that is never reached here (4 MiB against files of <= 3 blocks)
RECURSIVE Agg(_, _)
Agg(raw, last) ==   \* last = <<>> or <<pending wound>>
  IF raw = <<>> THEN last
  ELSE LET w == Head(raw) IN
       IF w.k = "W"
         THEN IF last = <<>> THEN Agg(Tail(raw), <<w>>)
              ELSE IF last[1].e <= w.s /\ w.s >= last[1].s
                     THEN Agg(Tail(raw), <<W(last[1].s, w.e)>>)
                     ELSE last \o Agg(Tail(raw), <<w>>)
         ELSE last \o <<w>> \o Agg(Tail(raw), <<>>)

\* full blocks are validated while the worker copies, the partial last block only at Close,
\* i.e. AFTER the worker's own size wound; the aggregator is closed (flushed) at Close too.
\* The size wound goes STRAIGHT to the validator's channel while block events travel through two
\* goroutines (aggregator, forwarder) that each may still hold one: it may overtake up to two.
InsertAt(seq, k, x) == SubSeq(seq, 1, k) \o x \o SubSeq(seq, k + 1, Len(seq))
EventOrders(S, d) ==
  CASE d.k = "missing" -> {<<W(0, S)>>}
    [] OTHER ->
       LET L    == CASE d.k = "short" -> d.a [] d.k = "long" -> S + d.a [] OTHER -> S
           bad  == IF d.k = "flip" THEN d.a ELSE -1
           raw  == RawBlocks(S, L, bad)
           nfull == L \div BS
           fullPart == SubSeq(raw, 1, nfull)
           lastPart == SubSeq(raw, nfull + 1, Len(raw))
           sizeW == IF L = S THEN <<>> ELSE <<W(Min(L, S), IF L < S THEN S ELSE L)>>
           \* the aggregator sees fullPart then lastPart; a wound it still holds when the
           \* size wound is sent comes out only at Close, after it
           aggFull == Agg(fullPart, <<>>)
           held    == IF aggFull # <<>> /\ aggFull[Len(aggFull)].k = "W"
                        /\ fullPart # <<>> /\ fullPart[Len(fullPart)].k = "W"
                        THEN <<aggFull[Len(aggFull)]>> ELSE <<>>
           outBefore == IF held = <<>> THEN aggFull ELSE SubSeq(aggFull, 1, Len(aggFull) - 1)
           post == Agg(lastPart, held)
       IN IF sizeW = <<>> THEN {outBefore \o post}
          ELSE {InsertAt(outBefore, Len(outBefore) - j, sizeW) \o post : j \in 0..Min(2, Len(outBefore))}

DiskStates(S) ==
  (IF "ok" \in Kinds THEN {[k |-> "ok", a |-> 0]} ELSE {})
  \cup (IF "flip" \in Kinds THEN {[k |-> "flip", a |-> j] : j \in 0..(NBlocks(S) - 1)} ELSE {})
  \cup (IF "short" \in Kinds THEN {[k |-> "short", a |-> l] : l \in 0..(S - 1)} ELSE {})
  \cup (IF "long" \in Kinds THEN {[k |-> "long", a |-> x] : x \in 1..MaxExtra} ELSE {})
  \cup (IF "longu" \in Kinds /\ S % BS # 0 THEN {[k |-> "long", a |-> x] : x \in 1..MaxExtra} ELSE {})
  \cup (IF "missing" \in Kinds THEN {[k |-> "missing", a |-> 0]} ELSE {})

F == 1..NFiles
Total == LET RECURSIVE Sum(_) Sum(n) == IF n = 0 THEN 0 ELSE size[n] + Sum(n - 1) IN Sum(NFiles)

Init ==
  /\ size \in [F -> 0..MaxSize]
  /\ disk \in [F -> UNION {DiskStates(s) : s \in 0..MaxSize}]
  /\ \A f \in F : disk[f] \in DiskStates(size[f])
  /\ ord \in [F -> UNION {EventOrders(s, d) : s \in 0..MaxSize, d \in UNION {DiskStates(t) : t \in 0..MaxSize}}]
  /\ \A f \in F : ord[f] \in EventOrders(size[f], disk[f])
  /\ pos = [f \in F |-> 1] /\ reported = FALSE
  /\ queued = {} /\ toHeal = <<>>
  /\ healthy = 0 /\ healing = 0 /\ healed = 0 /\ corrupted = 0

\* processWound, one event of file f
Process(f) ==
  LET evs == ord[f] IN
  /\ pos[f] <= Len(evs)
  /\ LET w == evs[pos[f]] IN
     /\ pos' = [pos EXCEPT ![f] = @ + 1]
     /\ IF w.k = "W"
          THEN /\ corrupted' = corrupted + (w.e - w.s)
               /\ IF f \in queued
                    THEN UNCHANGED <<queued, toHeal, healing>>
                    ELSE /\ queued' = queued \cup {f}
                         /\ toHeal' = Append(toHeal, f)
                         /\ healing' = healing + size[f]
               /\ UNCHANGED healthy
          ELSE /\ healthy' = IF f \notin queued /\ w.e = size[f] THEN healthy + size[f] ELSE healthy
               /\ UNCHANGED <<corrupted, queued, toHeal, healing>>
  \* updateProgress is called where a total is touched, whatever the amount
  /\ reported' = (reported \/ (evs[pos[f]].k = "W" /\ f \notin queued)
                           \/ (evs[pos[f]].k = "H" /\ f \notin queued /\ evs[pos[f]].e = size[f]))
  /\ UNCHANGED <<size, disk, ord, healed>>

\* the heal goroutine rewrites the whole file
HealOne ==
  /\ toHeal # <<>>
  /\ healed' = healed + size[Head(toHeal)]
  /\ toHeal' = Tail(toHeal)
  /\ reported' = TRUE
  /\ UNCHANGED <<size, disk, ord, pos, queued, healthy, healing, corrupted>>

Done == toHeal = <<>> /\ \A f \in F : pos[f] > Len(ord[f])

Next == (\E f \in F : Process(f)) \/ HealOne
Spec == Init /\ [][Next]_vars

\* ---- the contract
\* "Progress announces the degree of completion of a task, in the [0,1] interval"
ProgressBounded == healthy + healed <= Total
\* a finished heal has accounted for every byte of the build exactly once
FinalExact == Done => (healthy + healed = Total /\ healed = healing)
\* the fraction is (healthy + healed) / Total: it is a number only if the build is not empty
ProgressDefined == reported => Total > 0
NeverBackwards == [][healthy' + healed' >= healthy + healed]_vars

\* ---- per-file totals (what the trace specification compares a real run with)
RECURSIVE Fold(_, _, _)
Fold(evs, S, st) ==   \* st = [q, healthy, corrupted]
  IF evs = <<>> THEN st
  ELSE LET w == Head(evs) IN
       Fold(Tail(evs), S,
            IF w.k = "W" THEN [q |-> TRUE, healthy |-> st.healthy, corrupted |-> st.corrupted + (w.e - w.s)]
            ELSE [q |-> st.q, corrupted |-> st.corrupted,
                  healthy |-> IF ~st.q /\ w.e = S THEN st.healthy + S ELSE st.healthy])
FileTotals(S, d) == {Fold(o, S, [q |-> FALSE, healthy |-> 0, corrupted |-> 0]) : o \in EventOrders(S, d)}

\* ---- the scan fraction of a validation WITHOUT a healer (validator.go: bytesDone / container size):
\* the worker counts every byte it copies from the disk and, when the file has another length than
\* signed, adds (signed - copied) afterwards - negative for a file that grew; a file that cannot
\* be opened counts with its signed size at once. So every file ends at its signed size, and a grown
\* file passes through signed + surplus first.
ScanFinal(S, d) == S
ScanExcess(S, d) == IF d.k = "long" THEN d.a ELSE 0
=============================================================================
