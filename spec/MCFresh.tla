------------------------------ MODULE MCFresh ------------------------------
(* C08 at small scale: idealised high entropy = every old byte is a distinct symbol, every  *)
(* byte introduced by an edit is a fresh symbol. All edit scripts of up to K edits.          *)
(* "owc" / "insc" introduce a run of ONE repeated fresh symbol (zero fill, padding): inside  *)
(* such a run every window has the rolling hash of the one before it, the case the differ's  *)
(* skip shortcut (WsyncDiff: skip == rolling /\ nbeta = beta) is about; the data after the   *)
(* run has to be found again.                                                                *)
EXTENDS WsyncDiff
CONSTANTS NBlocks, TailLen, K, MaxEdit
OldLen(b) == NBlocks * b + TailLen
OldSeq(b) == [i \in 1..OldLen(b) |-> i]
\* an edit: <<kind, offset, length>> applied to the current sequence; fresh symbols are 1000+...
Overwrite(s, o, n, fb) == [i \in 1..Len(s) |-> IF i > o /\ i <= o + n THEN fb + i ELSE s[i]]
Insert(s, o, n, fb) == SubSeq(s, 1, o) \o [i \in 1..n |-> fb + i] \o SubSeq(s, o + 1, Len(s))
Delete(s, o, n) == SubSeq(s, 1, o) \o SubSeq(s, o + n + 1, Len(s))
OverwriteC(s, o, n, fb) == [i \in 1..Len(s) |-> IF i > o /\ i <= o + n THEN fb ELSE s[i]]
InsertC(s, o, n, fb) == SubSeq(s, 1, o) \o [i \in 1..n |-> fb] \o SubSeq(s, o + 1, Len(s))
ApplyEdit(s, e, fb) == CASE e[1] = "ow" -> Overwrite(s, e[2], e[3], fb)
                           [] e[1] = "ins" -> Insert(s, e[2], e[3], fb)
                           [] e[1] = "owc" -> OverwriteC(s, e[2], e[3], fb)
                           [] e[1] = "insc" -> InsertC(s, e[2], e[3], fb)
                           [] e[1] = "del" -> Delete(s, e[2], e[3])
EditKinds == {"ow", "ins", "del", "owc", "insc"}
\* (a constant run of one byte is the same edit as "ow" / "ins" of one byte)
Edits(len) == {<<k, o, n>> : k \in EditKinds, o \in 0..len, n \in 1..MaxEdit} \ {<<k, o, 1>> : k \in {"owc", "insc"}, o \in 0..len}
Valid(s, e) == IF e[1] \in {"ins", "insc"} THEN e[2] <= Len(s) ELSE e[2] + e[3] <= Len(s)
Introduced(e) == IF e[1] = "del" THEN 0 ELSE e[3]
VARIABLES nedits, introduced
FInit == /\ bs \in BSs
         /\ olds = <<OldSeq(bs)>>
         /\ \E es \in UNION {[1..k -> Edits(OldLen(bs) + K * MaxEdit)] : k \in 0..K} :
              LET RECURSIVE Go(_, _)
                  Go(s, j) == IF j > Len(es) THEN s
                              ELSE IF Valid(s, es[j]) THEN Go(ApplyEdit(s, es[j], 1000 * j), j + 1) ELSE <<-1>>
                  res == Go(OldSeq(bs), 1)
                  RECURSIVE Intro(_)
                  Intro(j) == IF j = 0 THEN 0 ELSE Introduced(es[j]) + Intro(j - 1)
              IN /\ res # <<-1>> /\ src = res /\ nedits = Len(es) /\ introduced = Intro(Len(es))
         /\ pref = 1 /\ lib = Library(bs, olds)
         /\ base = 0 /\ sumTail = 0 /\ validTo = 0 /\ dataTail = 0 /\ dataHead = 0 /\ rd = 0
         /\ lastRun = FALSE /\ rolling = FALSE /\ shortSize = 0 /\ aPop = 0 /\ b1 = 0 /\ b2 = 0 /\ beta = <<0, 0>>
         /\ prevOp = NoOp /\ out = <<>> /\ sendCount = 0 /\ pc = "loop"
FNext == (Next \/ Terminating) /\ UNCHANGED <<nedits, introduced>>
FSpec == FInit /\ [][FNext]_<<vars, nedits, introduced>>
RECURSIVE Fresh(_)
Fresh(ops) == IF ops = <<>> THEN 0 ELSE (IF Head(ops).t = "data" THEN Len(Head(ops).d) ELSE 0) + Fresh(Tail(ops))
RECURSIVE Reused(_)
Reused(ops) == IF ops = <<>> THEN 0 ELSE (IF Head(ops).t = "range" THEN Len(OSRangeBytes(olds[Head(ops).f], bs, Head(ops))) ELSE 0) + Reused(Tail(ops))
Bound == Done => Fresh(out) <= introduced + (2 * nedits + 2) * bs
AddsUp == Done => Fresh(out) + Reused(out) = Len(src)
IdenticalIsFree == (Done /\ nedits = 0) => Fresh(out) = 0
=============================================================================
