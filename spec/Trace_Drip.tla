---------------------------- MODULE Trace_Drip ----------------------------
(* Trace validation for C18 at unit scale: every line is one walk            *)
(* (Write/Close sequence generated from the Drip model's state graph) that   *)
(* was executed on the REAL pwr.ValidatingPool; the observable outcome of    *)
(* every step (result, content of the inner pool, markers on the wounds      *)
(* channel) is recorded. The abstract layer DripProp is evaluated after      *)
(* every step on what the real code did (verdict); the model's prediction    *)
(* carried with the walk is compared with it (drift).                        *)
EXTENDS DripProp, Json, TLC
T == ndJsonDeserialize("trace.ndjson")
VARIABLE l
Init == l \in 1..Len(T)
Next == UNCHANGED l
Spec == Init /\ [][Next]_l
RECURSIVE SumN(_, _)
SumN(steps, k) == IF k = 0 THEN 0 ELSE steps[k].n + SumN(steps, k - 1)
Aligned(c, k) == \A j \in 1..Len(c.steps[k].w) : c.steps[k].w[j].s % c.unit = 0 /\ c.steps[k].w[j].e % c.unit = 0
Markers(c, k) == [j \in 1..Len(c.steps[k].w) |-> [k |-> c.steps[k].w[j].k, s |-> c.steps[k].w[j].s \div c.unit, e |-> c.steps[k].w[j].e \div c.unit]]
StepViol(c, k) ==
  LET p == SumN(c.steps, k)
      cl == c.steps[k].op = "close"
      inn == c.steps[k].inner
      err == \E j \in 1..k : c.steps[j].res = "err"
      Good(i) == i < BNumBlocks(Len(c.signed), c.bs) /\ BBlock(c.signed, c.bs, i) = BBlock(SubSeq(c.data, 1, p), c.bs, i)
  IN IF ~Aligned(c, k) THEN {"MarkerAlignment"}
     ELSE DPViol(c.mode, c.bs, Len(c.signed), p, cl, Len(inn), inn = SubSeq(c.data, 1, Len(inn)), err, Markers(c, k), Good)
Viol(c) == UNION {StepViol(c, k) : k \in 1..Len(c.steps)}
Report == Viol(T[l]) = {} \/ PrintT(<<"VIOL", l, Viol(T[l])>>)
\* (a walk copied whole by the pool bowl's Transpose has no step-by-step prediction)
Drift(c) == c.via # "bowl-transpose" /\ \E k \in 1..Len(c.steps) : ~(c.model[k].res = c.steps[k].res /\ c.model[k].inner = Len(c.steps[k].inner) /\ c.model[k].nw = Len(c.steps[k].w))
ReportDrift == ~Drift(T[l]) \/ PrintT(<<"DRIFT", l>>)
=============================================================================
