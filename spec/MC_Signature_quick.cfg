SPECIFICATION Spec
CONSTANTS
  BS = 4
  MaxSize = 10
  NFiles = 2
INVARIANTS BlocksExact ReadBackInverts ShortSizeRule
CHECK_DEADLOCK TRUE
