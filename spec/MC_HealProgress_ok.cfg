\* every damage except files that GREW while their signed size is a multiple of the block size
SPECIFICATION Spec
CONSTANTS
  BS = 2
  NFiles = 2
  MaxSize = 5
  MaxExtra = 3
  Kinds = {"ok", "flip", "short", "longu", "missing"}
INVARIANTS ProgressBounded FinalExact
PROPERTIES NeverBackwards
CHECK_DEADLOCK FALSE
