-------------------------------- MODULE Genie --------------------------------
(* pwr/genie: "A Genie analyzes a patch to figure out which parts of the      *)
(* target container are used to build individual blocks of the source         *)
(* container" - for every new file a sequence of Compositions, one per BIG    *)
(* block of B bytes, each a list of origins (a span of an old file, or fresh  *)
(* bytes). Not one of the listed properties; specified because it is the      *)
(* third consumer of the op stream (after the patcher and the optimizer).     *)
(*                                                                            *)
(* Implementation-shaped: analyzeFile transcribed (the two splitting loops).  *)
(* Abstract contract (GenieProp): the compositions of a file are numbered     *)
(* 0,1,2,.., every one but the last covers exactly B bytes, the last one      *)
(* between 1 and B, and laid end to end their origins are - byte for byte -   *)
(* what the op stream says the file is made of (old spans with their TRUE     *)
(* lengths: the last block of an old file is short).                          *)
EXTENDS Integers, Sequences, FiniteSets, TLC
CONSTANTS SB,        \* small block size (pwr.BlockSize)
          BB,        \* big block size (Genie.BlockSize)
          OldSizes,  \* sizes of the old files
          MaxOps,    \* ops per series
          MaxData    \* longest DATA op
NOld == Len(OldSizes)
NumBlocks(sz) == (sz + SB - 1) \div SB
Min(a, b) == IF a < b THEN a ELSE b
\* an op: <<"BR", f, i, n>> within the old file's blocks, or <<"DATA", len>>
BROps == {<<"BR", f, i, n>> : f \in 1..NOld, i \in 0..3, n \in 1..4} 
ValidBR(o) == o[3] + o[4] <= NumBlocks(OldSizes[o[2]])
Ops == {o \in BROps : ValidBR(o)} \cup {<<"DATA", d>> : d \in 0..MaxData}
\* true number of bytes an op contributes (parameterised: the trace spec evaluates it per recorded patch)
POpLen(o, sb, olds) == IF o[1] = "DATA" THEN o[2]
                       ELSE Min(olds[o[2]], (o[3] + o[4]) * sb) - o[3] * sb
\* byte-level meaning of an op: <<"old", f, offset, len>> or <<"fresh", 0, 0, len>>
POpSeg(o, sb, olds) == IF o[1] = "DATA" THEN <<"fresh", 0, 0, o[2]>> ELSE <<"old", o[2], o[3] * sb, POpLen(o, sb, olds)>>
OpLen(o) == POpLen(o, SB, OldSizes)
OpSeg(o) == POpSeg(o, SB, OldSizes)

VARIABLES ops,       \* the series of one new file (its size = sum of OpLen)
          k,         \* next op
          cur,       \* pending origin being split: <<kind, f, off, size>> or <<>>
          comp,      \* origins of the composition being built
          csize,     \* its size
          bindex,    \* its block index
          out,       \* emitted compositions: <<bindex, size, origins>>
          pc         \* "next" | "split" | "done"
vars == <<ops, k, cur, comp, csize, bindex, out, pc>>
RECURSIVE SeqsOfOps(_)
SeqsOfOps(n) == IF n = 0 THEN {<<>>} ELSE LET S == SeqsOfOps(n - 1) IN S \cup {Append(s, o) : s \in {t \in S : Len(t) = n - 1}, o \in Ops}
Init == /\ ops \in SeqsOfOps(MaxOps) /\ k = 1 /\ cur = <<>> /\ comp = <<>> /\ csize = 0 /\ bindex = 0 /\ out = <<>> /\ pc = "next"
FileSize == LET RECURSIVE Sum(_) Sum(j) == IF j = 0 THEN 0 ELSE Sum(j - 1) + OpLen(ops[j]) IN Sum(Len(ops))
\* case BLOCK_RANGE / DATA: build the origin as the code does (Size = BlockSpan * smallBlockSize !)
Take == /\ pc = "next" /\ k <= Len(ops)
        /\ cur' = IF ops[k][1] = "DATA" THEN <<"fresh", 0, 0, ops[k][2]>>
                  ELSE <<"old", ops[k][2], ops[k][3] * SB, ops[k][4] * SB>>
        /\ pc' = "split" /\ k' = k + 1 /\ UNCHANGED <<ops, comp, csize, bindex, out>>
\* for comp.Size + o.Size > bigBlockSize { ... }
Split == /\ pc = "split" /\ csize + cur[4] > BB
         /\ LET t == BB - csize IN
            /\ out' = Append(out, <<bindex, csize + t, IF t > 0 THEN Append(comp, <<cur[1], cur[2], cur[3], t>>) ELSE comp>>)
            /\ cur' = IF t > 0 THEN <<cur[1], cur[2], IF cur[1] = "old" THEN cur[3] + t ELSE 0, cur[4] - t>> ELSE cur
         /\ comp' = <<>> /\ csize' = 0 /\ bindex' = bindex + 1 /\ UNCHANGED <<ops, k, pc>>
\* if o.Size > 0 { comp.Append(o) }
Rest == /\ pc = "split" /\ csize + cur[4] <= BB
        /\ comp' = IF cur[4] > 0 THEN Append(comp, cur) ELSE comp
        /\ csize' = csize + cur[4] /\ cur' = <<>> /\ pc' = "next" /\ UNCHANGED <<ops, k, bindex, out>>
\* case HEY_YOU_DID_IT: if comp.Size > 0 && fileSize > 0 { onComp(comp) }
Finish == /\ pc = "next" /\ k > Len(ops)
          /\ out' = IF csize > 0 /\ FileSize > 0 THEN Append(out, <<bindex, csize, comp>>) ELSE out
          /\ pc' = "done" /\ UNCHANGED <<ops, k, cur, comp, csize, bindex>>
Terminating == pc = "done" /\ UNCHANGED vars
Next == Take \/ Split \/ Rest \/ Finish \/ Terminating
Spec == Init /\ [][Next]_vars

(* ------------------------------ GenieProp ------------------------------ *)
\* merge adjacent segments of the same kind that continue each other, drop empty ones
RECURSIVE Norm(_, _)
Norm(s, acc) ==
  IF s = <<>> THEN acc
  ELSE LET h == Head(s) IN
       IF h[4] = 0 THEN Norm(Tail(s), acc)
       ELSE IF acc # <<>> /\ acc[Len(acc)][1] = h[1]
               /\ (h[1] = "fresh" \/ (acc[Len(acc)][2] = h[2] /\ acc[Len(acc)][3] + acc[Len(acc)][4] = h[3]))
            THEN Norm(Tail(s), [acc EXCEPT ![Len(acc)] = <<h[1], h[2], acc[Len(acc)][3], acc[Len(acc)][4] + h[4]>>])
            ELSE Norm(Tail(s), Append(acc, h))
RECURSIVE Flat(_, _)
Flat(cs, j) == IF j > Len(cs) THEN <<>> ELSE cs[j][3] \o Flat(cs, j + 1)
PGPViol(cs, series, fileSize, sb, bb, olds) ==
     (IF \A j \in 1..Len(cs) : cs[j][1] = j - 1 THEN {} ELSE {"NumberedFromZero"})
\cup (IF \A j \in 1..Len(cs) : (j < Len(cs) => cs[j][2] = bb) /\ cs[j][2] >= 1 /\ cs[j][2] <= bb THEN {} ELSE {"OneCompositionPerBigBlock"})
\cup (IF Len(cs) = (fileSize + bb - 1) \div bb THEN {} ELSE {"AsManyAsTheFileHasBigBlocks"})
\cup (IF Norm(Flat(cs, 1), <<>>) = Norm([j \in 1..Len(series) |-> POpSeg(series[j], sb, olds)], <<>>) THEN {} ELSE {"OriginsAreWhatTheOpsSay"})
GPViol(cs, series, fileSize) == PGPViol(cs, series, fileSize, SB, BB, OldSizes)
PropertyHolds == pc = "done" => GPViol(out, ops, FileSize) = {}
\* restricted to series that never touch the short last block of an old file
NoShortBlock == \A j \in 1..Len(ops) : ops[j][1] = "BR" => (ops[j][3] + ops[j][4]) * SB <= OldSizes[ops[j][2]]
PropertyHoldsOnFullBlocks == (pc = "done" /\ NoShortBlock) => GPViol(out, ops, FileSize) = {}
=============================================================================
