------------------------- MODULE MC_OverlayStream -------------------------
(* Exhaustive configuration: every content relation of up to MaxUnits units,  *)
(* every partition into writes, every flush / crash-resume point.             *)
EXTENDS OverlayStream
CONSTANTS MaxUnits, MaxWrite, MaxCrashes
VARIABLE crashes
\* per-unit kinds, X only as a suffix
Kinds(n) == {f \in [1..n -> {"E", "D", "X"}] : \A i \in 1..n : f[i] = "X" => \A j \in i..n : f[j] = "X"}
RECURSIVE Compress(_)
Compress(f) == IF f = <<>> THEN <<>>
               ELSE LET rest == Compress(Tail(f)) IN
                    IF rest # <<>> /\ rest[1].k = Head(f) THEN <<[k |-> Head(f), n |-> rest[1].n + 1]>> \o Tail(rest)
                    ELSE <<[k |-> Head(f), n |-> 1]>> \o rest
MCInit == /\ runs \in {Compress(f) : f \in UNION {Kinds(n) : n \in 0..MaxUnits}}
          /\ pos = 0 /\ b = 0 /\ ops = <<>> /\ cp = <<0, 0>> /\ finalized = FALSE /\ crashes = 0
MCNext == \/ (\E n \in 1..MaxWrite : Write(n)) /\ UNCHANGED crashes
          \/ Flush /\ UNCHANGED crashes
          \/ Finalize /\ UNCHANGED crashes
          \/ (crashes < MaxCrashes /\ CrashResume /\ crashes' = crashes + 1)
          \/ Terminating /\ UNCHANGED crashes
MCSpec == MCInit /\ [][MCNext]_<<vars, crashes>>
\* every relation can be completed (no stuck state): from any state Finalize stays reachable is implied by
\* deadlock freedom plus the bound on writes
=============================================================================
