------------------------------ MODULE Trace_Archive ------------------------------
(* Trace validation for C19: round trips through the REAL CompressZip/ExtractZip  *)
(* (1..16 and -1 workers) and CompressTar/ExtractTar, and resumable zip           *)
(* extractions killed at a chosen instant (copy of the destination folder and of  *)
(* the resume file taken while the other workers keep running) and restarted      *)
(* with the surviving resume file.                                                *)
EXTENDS Integers, Sequences, FiniteSets, Json, TLC
T == ndJsonDeserialize("trace.ndjson")
VARIABLE l
Init == l \in 1..Len(T)
Next == UNCHANGED l
Spec == Init /\ [][Next]_l
AsSet(s) == {s[k] : k \in 1..Len(s)}
Viol(c) ==
  IF c.kind = "zip-resume"
  THEN (IF c.err = "" /\ c.restarterr = "" THEN {} ELSE {"ExtractionSucceeds"})
  \cup (IF AsSet(c.out) = AsSet(c.want) THEN {} ELSE {"RestartedExtractionIsComplete"})
  ELSE (IF c.err = "" THEN {} ELSE {"ExtractionSucceeds"})
  \cup (IF AsSet(c.out) = AsSet(c.want) THEN {} ELSE {"SameTree"})
  \cup (IF c.err = "" /\ ~(c.dirs = c.wantdirs /\ c.files = c.wantfiles /\ c.syms = c.wantsyms) THEN {"CountsEqualEntries"} ELSE {})
Report == Viol(T[l]) = {} \/ PrintT(<<"VIOL", l, Viol(T[l])>>)
Stats == PrintT(<<"STAT", l, T[l].workers, Len(T[l].want), Len(T[l].partial)>>)
=============================================================================
