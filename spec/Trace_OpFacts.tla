--------------------------- MODULE Trace_OpFacts ---------------------------
(* Trace validation for C11 at real scale. The harness cannot hand megabytes  *)
(* to TLC, so it logs FACTS per op of the real differ: the digest of the      *)
(* bytes the op supplies (data bytes, or the addressed blocks of the old file *)
(* as far as they exist), the digest of the new content at the position the   *)
(* harness compared, and lengths. TLC does the structural reasoning: tiling    *)
(* (positions are recomputed from op sizes derived from the old file lengths), *)
(* bounds, merging, size limit, leading-empty rule and digest equality.        *)
EXTENDS Integers, Sequences, FiniteSets, Json, TLC
T == ndJsonDeserialize("trace.ndjson")
VARIABLE l
Init == l \in 1..Len(T)
Next == UNCHANGED l
Spec == Init /\ [][Next]_l

Min(a, b) == IF a < b THEN a ELSE b
NumBlocks(len, b) == (len + b - 1) \div b
IsRange(o) == o.t = "range"
IsData(o) == o.t = "data"
InBounds(c, o) == /\ o.f \in 1..Len(c.oldlens) /\ o.i >= 0 /\ o.n >= 1
                  /\ o.i + o.n <= NumBlocks(c.oldlens[o.f], c.bs)
\* size of a block range as the patcher will compute it from the old container
RangeSize(c, o) == Min((o.i + o.n) * c.bs, c.oldlens[o.f]) - o.i * c.bs
Size(c, o) == IF IsRange(o) THEN RangeSize(c, o) ELSE o.len
RECURSIVE PosOK(_, _, _)
PosOK(c, k, pos) == IF k > Len(c.ops) THEN pos = c.srclen
                    ELSE /\ c.ops[k].pos = pos
                         /\ c.ops[k].len = Size(c, c.ops[k])
                         /\ PosOK(c, k + 1, pos + Size(c, c.ops[k]))
Viol(c) ==
  LET ops == c.ops IN
  IF \E k \in 1..Len(ops) : ~(IsRange(ops[k]) \/ IsData(ops[k])) THEN {"KnownTypes"}
  ELSE IF \E k \in 1..Len(ops) : IsRange(ops[k]) /\ ~InBounds(c, ops[k]) THEN {"InBounds"}
  ELSE (IF PosOK(c, 1, 0) /\ \A k \in 1..Len(ops) : ops[k].osha = ops[k].ssha THEN {} ELSE {"Reconstructs"})
    \cup (IF \E k \in 1..(Len(ops) - 1) : IsRange(ops[k]) /\ IsRange(ops[k+1]) /\ ops[k].f = ops[k+1].f
                                          /\ ops[k].i + ops[k].n = ops[k+1].i THEN {"Merged"} ELSE {})
    \cup (IF \E k \in 1..Len(ops) : IsData(ops[k]) /\ ops[k].len > c.max THEN {"DataLimit"} ELSE {})
    \cup (IF \E k \in 2..Len(ops) : IsData(ops[k]) /\ ops[k].len = 0 THEN {"OnlyLeadingEmpty"} ELSE {})
Report == Viol(T[l]) = {} \/ PrintT(<<"VIOL", l, Viol(T[l])>>)
\* coverage facts for the evidence file
Split(c) == Cardinality({k \in 1..Len(c.ops) : IsData(c.ops[k]) /\ c.ops[k].len >= c.max})
Stats == PrintT(<<"STAT", l, Len(T[l].ops), Split(T[l])>>)
=============================================================================
