--------------------------- MODULE Trace_SafeApply ---------------------------
(* Trace validation for C09 at tree level: a plain or optimized patch applied *)
(* with the fresh bowl while the (possibly damaged) old build is read through *)
(* the REAL safekeeper. Either the application fails, or the produced         *)
(* directory is exactly the new build; an undamaged old build is accepted.    *)
EXTENDS Integers, Sequences, FiniteSets, Json, TLC
T == ndJsonDeserialize("trace.ndjson")
VARIABLE l
Init == l \in 1..Len(T)
Next == UNCHANGED l
Spec == Init /\ [][Next]_l
AsSet(s) == {s[k] : k \in 1..Len(s)}
Viol(c) == (IF c.err = "" /\ AsSet(c.out) # AsSet(c.new) THEN {"NeverSilentlyWrong"} ELSE {})
      \cup (IF c.damage = <<>> /\ c.err # "" THEN {"UndamagedAccepted"} ELSE {})
Report == Viol(T[l]) = {} \/ PrintT(<<"VIOL", l, Viol(T[l])>>)
Stats == PrintT(<<"STAT", l, Len(T[l].damage), IF T[l].err = "" THEN 0 ELSE 1>>)
=============================================================================
