SPECIFICATION MCSpec
CONSTANTS
  BSs = {2}
  Alphabet = {0, 1}
  NOld = 1
  MaxOld = 2
  MaxNew = 3
  MaxData = 3
INVARIANTS Reconstructs InBounds
CHECK_DEADLOCK TRUE
