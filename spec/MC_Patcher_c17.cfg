SPECIFICATION Spec
CONSTANTS
  NF = 3
  Targets = {0, 7, 2049}
  MaxResumes = 0
  UseWhitelist = TRUE
  SkipReadsBH = FALSE
INVARIANTS ResultIsRef NeverErr TouchedExactly OnlyWhitelisted
CHECK_DEADLOCK FALSE
