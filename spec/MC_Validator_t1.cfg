SPECIFICATION Spec
CONSTANTS
  MaxFiles = 4
  MaxDirWounds = 2
  Ks = {1, 2}
  Consumers = {"guardian", "printer", "failing"}
  FailAfters = {1, 2, 3}
  Fixed = TRUE
  Configs <- MCConfigs
INVARIANTS NoFalseValid NoDeadlock
PROPERTIES Returns NoLeak
CHECK_DEADLOCK FALSE
