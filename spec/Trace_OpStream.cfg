SPECIFICATION Spec
CONSTANT MaxData = 4194304
INVARIANT Report
CHECK_DEADLOCK FALSE
