---------------------------- MODULE WsyncDiff ----------------------------
(* Literal transcription of wsync.Context.ComputeDiff (wsync/algo.go): one TLC   *)
(* step per loop iteration. Strong hash = content equality. Prototype for C11.   *)
EXTENDS OpStream, TLC

CONSTANTS BSs,        \* set of block sizes to explore
          Alphabet,   \* byte values
          NOld,       \* number of old files
          MaxOld, MaxNew,
          MaxData     \* MaxDataOp (4 MiB in the code)
M == 65536

RECURSIVE SeqsUpTo(_)
SeqsUpTo(n) == IF n = 0 THEN {<<>>} ELSE LET S == SeqsUpTo(n-1) IN S \cup {Append(s, a) : s \in {t \in S : Len(t) = n-1}, a \in Alphabet}

VARIABLES bs, olds, src, pref,                    \* the input (chosen in Init)
          lib,                                    \* block library of the old files (computed once)
          base, sumTail, validTo, dataTail, dataHead, rd,
          lastRun, rolling, shortSize, aPop, b1, b2, beta,
          prevOp, out, sendCount, pc
vars == <<bs,olds,src,pref,lib,base,sumTail,validTo,dataTail,dataHead,rd,lastRun,rolling,shortSize,aPop,b1,b2,beta,prevOp,out,sendCount,pc>>

Min(a, b) == IF a < b THEN a ELSE b
BufLen == 2*bs + MaxData
Buf(i) == src[base + i + 1]                       \* buffer[i], 0-based; mirrors the source
Slice(a, b) == [k \in 1..(b-a) |-> Buf(a + k - 1)] \* buffer[a:b]

RECURSIVE SumA(_), SumB(_)
SumA(s) == IF s = <<>> THEN 0 ELSE Head(s) + SumA(Tail(s))
SumB(s) == IF s = <<>> THEN 0 ELSE Len(s) * Head(s) + SumB(Tail(s))    \* first byte has weight len
H1(s) == SumA(s) % M
H2(s) == SumB(s) % M
Beta(s) == <<H1(s), H2(s)>>      \* the code packs this as b1 + 2^16*b2; a pair avoids 32-bit overflow in TLC

(* block library of the old files: <<file, index, weak, shortSize, content>> in signature order *)
NumBlocks(n) == (n + bs - 1) \div bs
BlockOf(f, i) == LET o == olds[f] IN SubSeq(o, i*bs + 1, Min((i+1)*bs, Len(o)))
Library(bs_, olds_) ==
           LET NB(n) == (n + bs_ - 1) \div bs_
               Blk(f, i) == LET o == olds_[f] IN SubSeq(o, i*bs_ + 1, Min((i+1)*bs_, Len(o)))
               RECURSIVE FileBlocks(_, _)
               FileBlocks(f, i) == IF i >= NB(Len(olds_[f])) THEN <<>>
                                   ELSE LET c == Blk(f, i) IN
                                        <<[f |-> f, i |-> i, w |-> Beta(c), s |-> IF Len(c) < bs_ THEN Len(c) ELSE 0, c |-> c]>> \o FileBlocks(f, i+1)
               RECURSIVE All(_)
               All(f) == IF f > Len(olds_) THEN <<>>
                         ELSE (IF Len(olds_[f]) = 0 THEN <<[f |-> f, i |-> 0, w |-> <<0, 0>>, s |-> 0, c |-> <<>>]>> ELSE FileBlocks(f, 0)) \o All(f+1)
           IN All(1)
\* findUniqueHash: preferred file first, then anyone, in library order; empty windows never match
Find(w, data, ss) ==
  IF data = <<>> THEN 0
  ELSE LET L == lib
           Cand(k) == L[k].w = w /\ L[k].s = ss /\ L[k].c = data
           P == {k \in 1..Len(L) : Cand(k) /\ L[k].f = pref}
           A == {k \in 1..Len(L) : Cand(k)}
           Lo(S) == CHOOSE k \in S : \A j \in S : k <= j
       IN IF pref # 0 /\ P # {} THEN Lo(P) ELSE IF A # {} THEN Lo(A) ELSE 0

(* the op sink: cleaner(enqueue(op)) as a pure function on <<prevOp, out, sendCount>> *)
NoOp == [t |-> "none"]
Emit(st, op) == IF st[3] > 0 /\ op.t = "data" /\ op.d = <<>> THEN st
                ELSE <<st[1], Append(st[2], op), st[3] + 1>>
Enq(st, op) ==
  IF op.t = "range"
  THEN IF st[1].t = "range" /\ st[1].f = op.f /\ st[1].i + st[1].n = op.i
       THEN <<[st[1] EXCEPT !.n = @ + op.n], st[2], st[3]>>
       ELSE LET s1 == IF st[1].t # "none" THEN Emit(st, st[1]) ELSE st IN <<op, s1[2], s1[3]>>
  ELSE LET s1 == IF st[1].t # "none" THEN Emit(st, st[1]) ELSE st
           s2 == Emit(<<NoOp, s1[2], s1[3]>>, op)
       IN <<NoOp, s2[2], s2[3]>>

Init == /\ bs \in BSs
        /\ olds \in [1..NOld -> SeqsUpTo(MaxOld)]
        /\ src \in SeqsUpTo(MaxNew)
        /\ pref \in 0..NOld
        /\ lib = Library(bs, olds)
        /\ base = 0 /\ sumTail = 0 /\ validTo = 0 /\ dataTail = 0 /\ dataHead = 0 /\ rd = 0
        /\ lastRun = FALSE /\ rolling = FALSE /\ shortSize = 0 /\ aPop = 0 /\ b1 = 0 /\ b2 = 0 /\ beta = <<0, 0>>
        /\ prevOp = NoOp /\ out = <<>> /\ sendCount = 0 /\ pc = "loop"

Iter ==
  /\ pc = "loop"
  /\ LET needFill == sumTail + bs > validTo
         wrap == needFill /\ validTo + bs > BufLen
         \* --- wrap: flush trailing data, slide the window to the front
         st0 == <<prevOp, out, sendCount>>
         st1 == IF wrap /\ dataTail < dataHead THEN Enq(st0, [t |-> "data", d |-> Slice(dataTail, dataHead)]) ELSE st0
         base1 == IF wrap THEN base + sumTail ELSE base
         vt1 == IF wrap THEN validTo - sumTail ELSE validTo
         stl1 == IF wrap THEN 0 ELSE sumTail
         dh1 == IF wrap THEN 0 ELSE dataHead
         dt1 == IF wrap THEN 0 ELSE dataTail
         \* --- refill: io.ReadAtLeast(source, buffer[validTo:validTo+bs], bs)
         n == IF needFill THEN Min(bs, Len(src) - rd) ELSE 0
         vt2 == vt1 + n
         last2 == IF needFill /\ n < bs THEN TRUE ELSE lastRun
         ss2 == IF needFill /\ n < bs THEN n ELSE shortSize
         B(i) == src[base1 + i + 1]
         Sl(a, b) == [k \in 1..(b-a) |-> B(a + k - 1)]
         sumHead == Min(stl1 + bs, vt2)
         win == Sl(stl1, sumHead)
         \* --- rolling hash
         aPush == IF sumHead >= 1 THEN B(sumHead - 1) ELSE 0
         nb1 == IF rolling THEN (b1 - aPop + aPush) % M ELSE H1(win)
         nb2 == IF rolling THEN (b2 - (sumHead - stl1) * aPop + nb1) % M ELSE H2(win)
         nbeta == <<nb1, nb2>>
         skip == rolling /\ nbeta = beta
         hit == IF skip THEN 0 ELSE Find(nbeta, win, ss2)
         \* --- flush pending data before a match or at the size limit
         flush == dt1 < dh1 /\ (hit # 0 \/ dh1 - dt1 >= MaxData)
         st2 == IF flush THEN Enq(st1, [t |-> "data", d |-> Sl(dt1, dh1)]) ELSE st1
         dt2 == IF flush THEN dh1 ELSE dt1
     IN IF hit # 0
        THEN LET L == lib[hit]
                 st3 == Enq(st2, [t |-> "range", f |-> L.f, i |-> L.i, n |-> 1])
             IN /\ prevOp' = st3[1] /\ out' = st3[2] /\ sendCount' = st3[3]
                /\ rolling' = FALSE /\ sumTail' = stl1 + bs /\ dataHead' = stl1 + bs /\ dataTail' = stl1 + bs
                /\ aPop' = aPop
                /\ base' = base1 /\ validTo' = vt2 /\ rd' = rd + n /\ lastRun' = last2 /\ shortSize' = ss2
                /\ b1' = nb1 /\ b2' = nb2 /\ beta' = nbeta
                /\ pc' = IF last2 THEN "flush" ELSE "loop"
        ELSE IF last2
        THEN \* final flush: everything that is left, in chunks of at most MaxData (at least one op,
             \* so that an empty source still yields its leading empty data op)
             LET RECURSIVE FlushAll(_, _)
                 FlushAll(st, from) == LET end == Min(from + MaxData, vt2)
                                           s1 == Enq(st, [t |-> "data", d |-> Sl(from, end)])
                                       IN IF end >= vt2 THEN s1 ELSE FlushAll(s1, end)
                 st3 == FlushAll(st2, dt2)
             IN /\ prevOp' = st3[1] /\ out' = st3[2] /\ sendCount' = st3[3]
                /\ rolling' = TRUE /\ sumTail' = stl1 /\ dataHead' = dh1 /\ dataTail' = vt2 /\ aPop' = aPop
                /\ base' = base1 /\ validTo' = vt2 /\ rd' = rd + n /\ lastRun' = last2 /\ shortSize' = ss2
                /\ b1' = nb1 /\ b2' = nb2 /\ beta' = nbeta
                /\ pc' = "flush"
        ELSE /\ prevOp' = st2[1] /\ out' = st2[2] /\ sendCount' = st2[3]
             /\ rolling' = TRUE /\ aPop' = B(stl1)
             /\ sumTail' = stl1 + 1 /\ dataHead' = stl1 + 1 /\ dataTail' = dt2
             /\ base' = base1 /\ validTo' = vt2 /\ rd' = rd + n /\ lastRun' = last2 /\ shortSize' = ss2
             /\ b1' = nb1 /\ b2' = nb2 /\ beta' = nbeta
             /\ pc' = "loop"
  /\ UNCHANGED <<bs, olds, src, pref, lib>>

\* deferred flush of the pending range
Flush == /\ pc = "flush"
         /\ LET st == IF prevOp.t # "none" THEN Emit(<<prevOp, out, sendCount>>, prevOp) ELSE <<prevOp, out, sendCount>>
            IN out' = st[2] /\ sendCount' = st[3] /\ prevOp' = NoOp
         /\ pc' = "done"
         /\ UNCHANGED <<bs,olds,src,pref,lib,base,sumTail,validTo,dataTail,dataHead,rd,lastRun,rolling,shortSize,aPop,b1,b2,beta>>

Next == Iter \/ Flush
Spec == Init /\ [][Next]_vars

(* ------------------------------- C11 ------------------------------- *)
Done == pc = "done"
Reconstructs == Done => OSReplay(olds, bs, out) = src
InBounds == OSInBounds(olds, bs, out)
Merged == OSMerged(out)
DataLimit == OSDataLimit(out, MaxData)
OnlyLeadingEmpty == OSOnlyLeadingEmpty(out)
Terminating == pc = "done" /\ UNCHANGED vars
=============================================================================
