SPECIFICATION MCSpec
CONSTANTS
  BSs = {1, 2, 3}
  Alphabet = {0, 1}
  NOld = 2
  MaxOld = 3
  MaxNew = 6
  MaxData = 4
INVARIANTS Reconstructs InBounds Merged DataLimit OnlyLeadingEmpty
CHECK_DEADLOCK TRUE
