SPECIFICATION TSpec
CONSTANTS
  Configs = {}
  Fixed = TRUE
INVARIANTS Accept RealNoFalseValid
CHECK_DEADLOCK FALSE
