------------------------------- MODULE Rediff -------------------------------
(* pwr/rediff: analyzePatch (choice of a bsdiff target per new file) and      *)
(* Optimize (stream transducer: series without a mapping are copied, mapped   *)
(* series are replaced by SH(bsdiff) BH(target) controls.. EOF, every series  *)
(* closed by the end marker). Implementation-shaped: the reuse tally is a     *)
(* Go map, so the candidate loop may visit it in ANY order. C07 / C15.        *)
EXTENDS Integers, Sequences, FiniteSets, TLC
CONSTANTS NT,          \* old files 1..NT
          ForceMapAll, \* BOOLEAN
          SizeLimit,   \* 0 = none
          TieFix       \* TRUE: ties between differently named files are broken by the lowest index (deterministic)
\* one new file as the analyzer sees it: size (units), reuse tally per old file, op counts, same-path old file (0 = none)
Files == [size : 0..2, reuse : [1..NT -> 0..2], nbr : 0..2, ndata : 0..1, same : 0..NT]
WellFormedInput(f) == /\ (f.nbr = 0 <=> \A t \in 1..NT : f.reuse[t] = 0)
                      /\ (f.size = 0 => f.nbr = 0)
                      /\ f.nbr + f.ndata >= 1
VARIABLES f, tsize,        \* the new file; sizes of the old files
          cand, left,      \* candidate mapping <<target, bytes>> (<<0,0>> = nil); reuse entries not yet visited
          pc, out
vars == <<f, tsize, cand, left, pc, out>>
Init == /\ f \in {x \in Files : WellFormedInput(x)} /\ tsize \in [1..NT -> 0..2]
        /\ cand = <<0, 0>> /\ left = {t \in 1..NT : f.reuse[t] > 0}
        /\ pc = "classify" /\ out = <<>>
Classify == /\ pc = "classify"
            /\ pc' = IF f.size = 0 /\ ~ForceMapAll THEN "copy"
                     ELSE IF f.nbr = 1 /\ f.ndata = 0 /\ ~ForceMapAll THEN "copy"
                     ELSE "tally"
            /\ UNCHANGED <<f, tsize, cand, left, out>>
\* for targetFileIndex, numBytes := range bytesReusedPerFileIndex  -- any order
Visit(t) == /\ pc = "tally" /\ t \in left
            /\ LET nb == f.reuse[t]
                   better == cand[1] = 0 \/ nb > cand[2] \/ (nb = cand[2] /\ t = f.same)
                             \/ (TieFix /\ nb = cand[2] /\ cand[1] # f.same /\ t < cand[1])
               IN cand' = IF better THEN <<t, nb>> ELSE cand
            /\ left' = left \ {t} /\ UNCHANGED <<f, tsize, pc, out>>
Fallback == /\ pc = "tally" /\ left = {}
            /\ LET c1 == IF cand[1] = 0 /\ f.same # 0 /\ tsize[f.same] > 0 THEN <<f.same, 0>> ELSE cand
                   c2 == IF SizeLimit > 0 /\ f.size > SizeLimit THEN <<0, 0>> ELSE c1
                   c3 == IF c2[1] # 0 /\ SizeLimit > 0 /\ tsize[c2[1]] > SizeLimit THEN <<0, 0>> ELSE c2
               IN cand' = c3 /\ pc' = IF c3[1] = 0 THEN "copy" ELSE "bsdiff"
            /\ UNCHANGED <<f, tsize, left, out>>
\* Optimize: copy the series / replace it
Copy == /\ pc = "copy" /\ out' = <<"SH:R">> \o [k \in 1..(f.nbr + f.ndata) |-> "OP"] \o <<"END">> /\ pc' = "done"
        /\ UNCHANGED <<f, tsize, cand, left>>
Bsdiff == /\ pc = "bsdiff"
          /\ out' = <<"SH:B", "BH">> \o (IF f.size = 0 THEN <<>> ELSE <<"CTL">>) \o <<"CEOF", "END">> /\ pc' = "done"
          /\ UNCHANGED <<f, tsize, cand, left>>
Terminating == pc = "done" /\ UNCHANGED vars
Next == Classify \/ (\E t \in 1..NT : Visit(t)) \/ Fallback \/ Copy \/ Bsdiff \/ Terminating
Spec == Init /\ [][Next]_vars
(* ---- properties ---- *)
Done == pc = "done"
Mapped == Done /\ out[1] = "SH:B"
\* the rewritten series is well-formed for the patcher
WellFormedOutput == Done => /\ out[Len(out)] = "END" /\ \A k \in 1..(Len(out) - 1) : out[k] # "END"
                            /\ (out[1] = "SH:B" => out[2] = "BH" /\ out[Len(out) - 1] = "CEOF")
\* the mapping rule: a mapped target has the most reused bytes; same path wins ties; the same-path fallback needs a non-empty old file
MaxReuse == CHOOSE m \in 0..2 : (\E t \in 1..NT : f.reuse[t] = m) /\ \A t \in 1..NT : f.reuse[t] <= m
BestTarget == Mapped =>
   IF MaxReuse > 0
   THEN /\ f.reuse[cand[1]] = MaxReuse /\ cand[2] = MaxReuse
        /\ ((f.same # 0 /\ f.reuse[f.same] = MaxReuse) => cand[1] = f.same)        \* same path wins ties
   ELSE cand = <<f.same, 0>> /\ f.same # 0 /\ tsize[f.same] > 0                     \* same-path fallback, non-empty old file
RespectsLimit == (Mapped /\ SizeLimit > 0) => f.size <= SizeLimit /\ tsize[cand[1]] <= SizeLimit
\* C15: the choice does not depend on the order in which the tally is visited (holds only with TieFix)
DetTarget == [t \in 1..NT |-> f.reuse[t]]
ChoiceIsFunctionOfInput ==
   Mapped => cand[1] = (IF \E t \in 1..NT : f.reuse[t] > 0
                        THEN (LET mx == CHOOSE m \in 0..2 : (\E t \in 1..NT : f.reuse[t] = m) /\ \A t \in 1..NT : f.reuse[t] <= m
                                  best == {t \in 1..NT : f.reuse[t] = mx}
                              IN IF f.same \in best THEN f.same ELSE CHOOSE t \in best : \A u \in best : t <= u)
                        ELSE f.same)
=============================================================================
