SPECIFICATION Spec
CONSTANTS
  CS = 2
  NE = 2
  MaxLen = 5
  Alphabet = {0, 1}
  MaxOps = 4
ACTION_CONSTRAINT EmitEdge
VIEW View
CHECK_DEADLOCK FALSE
