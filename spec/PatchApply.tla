----------------------------- MODULE PatchApply -----------------------------
(* C01 at model scale: for EVERY valid rsync op stream (any stream the        *)
(* abstract layer OpStream accepts for (olds,new) - not only the ones the     *)
(* current differ emits) the patcher's per-file procedure                     *)
(* (pwr/patcher/patcher_rsync.go: whole-file-op detection -> bowl.Transpose,  *)
(* otherwise GetWriter + ApplySingle per op) with the fresh bowl              *)
(* (Prepare truncates to the container size, the entry writer opens without   *)
(* truncation, Transpose rewrites the file) produces exactly the new file.    *)
EXTENDS OpStream, TLC
CONSTANTS BSz, Alphabet, MaxLen, NOld,
          SameSizeCheck   \* TRUE = the code's condition; FALSE shows what the "same size" test is for
RECURSIVE SeqsUpTo(_)
SeqsUpTo(n) == IF n = 0 THEN {<<>>} ELSE LET S == SeqsUpTo(n-1) IN S \cup {Append(s, a) : s \in {t \in S : Len(t) = n-1}, a \in Alphabet}
VARIABLES olds, new, ops,     \* input: old files, the new file, a valid op stream for it
          disk,               \* content of the output path
          k, pc, wOff         \* next op, control state, writer offset
vars == <<olds, new, ops, disk, k, pc, wOff>>
\* all op streams that tile `rest` (suffix of new starting at position p), last = previous op (for merging rule)
RECURSIVE Streams(_, _)
IsPrefixOf(a, b) == Len(a) <= Len(b) /\ a = SubSeq(b, 1, Len(a))
Streams(os, rest) ==
  IF rest = <<>> THEN {<<>>}
  ELSE LET datas == UNION { { <<[t |-> "data", d |-> SubSeq(rest, 1, n)]>> \o s : s \in Streams(os, SubSeq(rest, n + 1, Len(rest))) }
                            : n \in 1..Len(rest) }
           NB == OSNumBlocks(MaxLen, BSz)
           cands == { r \in [f : 1..Len(os), i : 0..NB, n : 1..NB] :
                        /\ r.i + r.n <= OSNumBlocks(Len(os[r.f]), BSz)
                        /\ IsPrefixOf(OSRangeBytes(os[r.f], BSz, r), rest) }
           ranges == UNION { { <<[t |-> "range", f |-> r.f, i |-> r.i, n |-> r.n]>> \o s :
                                 s \in Streams(os, SubSeq(rest, Len(OSRangeBytes(os[r.f], BSz, r)) + 1, Len(rest))) }
                             : r \in cands }
       IN datas \cup ranges
Valid(os, src, s) == s # <<>> /\ OSViolations(os, BSz, src, s, MaxLen + 1) = {}
AllStreams(os, src) == {s \in Streams(os, src) \cup {<<[t |-> "data", d |-> <<>>]>>} : Valid(os, src, s)}
Garbage == {<<>>, <<9>>, <<9, 9, 9, 9, 9, 9>>}       \* what may already sit at the output path (shorter / longer than new)
Truncate(s, n) == IF Len(s) >= n THEN SubSeq(s, 1, n) ELSE s \o [j \in 1..(n - Len(s)) |-> 0]
Overwrite(s, o, ps) == [p \in 1..(IF o + Len(ps) > Len(s) THEN o + Len(ps) ELSE Len(s)) |->
                          IF p > o /\ p <= o + Len(ps) THEN ps[p - o] ELSE s[p]]
Init == /\ olds \in [1..NOld -> SeqsUpTo(MaxLen)] /\ new \in SeqsUpTo(MaxLen)
        /\ ops \in AllStreams(olds, new)
        /\ \E g \in Garbage : disk = Truncate(g, Len(new))         \* NewFreshBowl: SourceContainer.Prepare
        /\ k = 1 /\ pc = "first" /\ wOff = 0
IsFullFileOp(op) == /\ op.t = "range" /\ op.i = 0
                    /\ (SameSizeCheck => Len(olds[op.f]) = Len(new))
                    /\ op.n = OSNumBlocks(Len(new), BSz)
\* ApplySingle: a block range copies min(span end, file size) - start bytes; data is written as is
Bytes(op) == IF op.t = "data" THEN op.d ELSE OSRangeBytes(olds[op.f], BSz, op)
First == /\ pc = "first"
         /\ IF IsFullFileOp(ops[1])
            THEN /\ disk' = olds[ops[1].f]            \* bowl.Transpose: the whole old file, output truncated on open
                 /\ pc' = "fullend" /\ wOff' = 0
            ELSE /\ disk' = Overwrite(disk, 0, Bytes(ops[1])) /\ wOff' = Len(Bytes(ops[1])) /\ pc' = "ops"
         /\ k' = 2 /\ UNCHANGED <<olds, new, ops>>
\* after a whole-file op every further message up to the end marker is ignored
FullEnd == /\ pc = "fullend" /\ pc' = "done" /\ k' = Len(ops) + 1 /\ UNCHANGED <<olds, new, ops, disk, wOff>>
Op == /\ pc = "ops" /\ k <= Len(ops)
      /\ disk' = Overwrite(disk, wOff, Bytes(ops[k])) /\ wOff' = wOff + Len(Bytes(ops[k]))
      /\ k' = k + 1 /\ UNCHANGED <<olds, new, ops, pc>>
EndMarker == /\ pc = "ops" /\ k > Len(ops) /\ pc' = "done" /\ UNCHANGED <<olds, new, ops, disk, k, wOff>>
Terminating == pc = "done" /\ UNCHANGED vars
Next == First \/ FullEnd \/ Op \/ EndMarker \/ Terminating
Spec == Init /\ [][Next]_vars
ResultIsNew == pc = "done" => disk = new
=============================================================================
