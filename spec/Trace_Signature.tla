--------------------------- MODULE Trace_Signature ---------------------------
(* Trace validation for C04: one line per (build, compression of the          *)
(* signature stream, read slicing of the source pool). The diff-time          *)
(* signature was read back with the REAL ReadSignature and compared block by  *)
(* block with the REAL stand-alone signer and with an independent             *)
(* recomputation; a pristine copy was validated (wounds writer, fail-fast).   *)
(* For files of <= 16 bytes TLC evaluates the rolling checksum itself, tying  *)
(* the recomputation to the definition used by WsyncDiff.tla.                 *)
EXTENDS Blocks, FiniteSets, Json, TLC
BS == 65536
M == 65536
T == ndJsonDeserialize("trace.ndjson")
VARIABLE l
Init == l \in 1..Len(T)
Next == UNCHANGED l
Spec == Init /\ [][Next]_l
RECURSIVE SumA(_), SumB(_)
SumA(s) == IF s = <<>> THEN 0 ELSE Head(s) + SumA(Tail(s))
SumB(s) == IF s = <<>> THEN 0 ELSE Len(s) * Head(s) + SumB(Tail(s))
FileViol(f) ==
  LET slots == BHashSlots(f.size, BS) IN
     (IF f.nread = slots /\ f.ndirect = slots /\ f.nown = slots THEN {} ELSE {"OneHashPerBlock"})
\cup (IF f.eqrd THEN {} ELSE {"ReadBackEqualsStandAlone"})
\cup (IF f.eqro THEN {} ELSE {"ReadBackEqualsRecomputation"})
\cup (IF Len(f.shorts) = f.nread /\ \A i \in 1..Len(f.shorts) :
           f.shorts[i] = (IF f.size = 0 THEN 0 ELSE IF BBlockSize(f.size, BS, i - 1) = BS THEN 0 ELSE BBlockSize(f.size, BS, i - 1))
      THEN {} ELSE {"ShortSizeOfFinalBlock"})
\cup (IF f.size <= 16 /\ f.nread >= 1 /\ ~(f.b1 = SumA(f.raw) % M /\ f.b2 = SumB(f.raw) % M) THEN {"WeakHashDefinition"} ELSE {})
RECURSIVE Slots(_, _)
Slots(fs, k) == IF k = 0 THEN 0 ELSE BHashSlots(fs[k].size, BS) + Slots(fs, k - 1)
Viol(c) ==
  IF c.differr # "" THEN {"DiffSucceeds"} ELSE IF c.readerr # "" THEN {"SignatureReadsBack"} ELSE
     UNION {FileViol(c.files[k]) : k \in 1..Len(c.files)}
\cup (IF c.containereq THEN {} ELSE {"SameContainer"})
\cup (IF c.nhashesread = Slots(c.files, Len(c.files)) /\ c.nhashesdirect = c.nhashesread THEN {} ELSE {"HashCount"})
\cup (IF c.hashinfoerr = "" THEN {} ELSE {"HashGroupsPartition"})
\cup (IF c.validateerr = "" /\ c.wounds = 0 THEN {} ELSE {"PristineCopyHasNoWound"})
\cup (IF c.failfasterr = "" /\ c.failfastdirecterr = "" THEN {} ELSE {"PristineCopyPassesFailFast"})
Report == Viol(T[l]) = {} \/ PrintT(<<"VIOL", l, Viol(T[l])>>)
Stats == PrintT(<<"STAT", l, Len(T[l].files), T[l].nhashesread>>)
=============================================================================
