SPECIFICATION MCSpec
CONSTANTS
  BSs = {2, 3}
  Alphabet = {0, 1, 2}
  NOld = 1
  MaxOld = 4
  MaxNew = 6
  MaxData = 5
INVARIANTS Reconstructs InBounds Merged DataLimit OnlyLeadingEmpty
CHECK_DEADLOCK TRUE
