SPECIFICATION Spec
CONSTANTS
  BSz = 3
  Alphabet = {0, 1}
  MaxLen = 6
  NOld = 1
  SameSizeCheck = TRUE
INVARIANT ResultIsNew
CHECK_DEADLOCK TRUE
