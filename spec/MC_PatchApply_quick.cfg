SPECIFICATION Spec
CONSTANTS
  BSz = 2
  Alphabet = {0, 1}
  MaxLen = 4
  NOld = 1
  SameSizeCheck = TRUE
INVARIANT ResultIsNew
CHECK_DEADLOCK TRUE
