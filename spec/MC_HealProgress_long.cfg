\* grown files of any signed size: ProgressBounded is EXPECTED to fail (a file whose signed size is a
\* multiple of the block size is counted healthy at its last signed block and healed afterwards)
SPECIFICATION Spec
CONSTANTS
  BS = 2
  NFiles = 1
  MaxSize = 4
  MaxExtra = 3
  Kinds = {"ok", "long"}
INVARIANTS ProgressBounded
CHECK_DEADLOCK FALSE
