SPECIFICATION Spec
INVARIANTS Report
CHECK_DEADLOCK FALSE
