----------------------------- MODULE BsdiffCtl -----------------------------
(* Abstract layer for C12/C07: the language of bsdiff control series and what applying one  *)
(* to the old file means (bsdiff/patch.go: IndividualPatchContext.Apply with an absolute     *)
(* old offset). Any series this automaton accepts for (old,new) is a correct series.         *)
EXTENDS Integers, Sequences, TLC
\* a control is [add |-> seq of bytes (mod-256 differences), copy |-> seq of bytes, seek |-> int, eof |-> BOOLEAN]
AddBytes(old, o, add) == [k \in 1..Len(add) |-> (old[o + k] + add[k]) % 256]
\* state of the applier: <<oldOffset, output, status>>
Step(old, st, c) ==
  IF st[3] # "run" THEN st
  ELSE IF c.eof THEN <<st[1], st[2], "eof">>
  ELSE IF st[1] < 0 \/ st[1] > Len(old) THEN <<st[1], st[2], "error">>                 \* lrufile.Seek rejects
  ELSE IF st[1] + Len(c.add) > Len(old) THEN <<st[1], st[2], "error">>                 \* short copy of the add section
  ELSE <<st[1] + Len(c.add) + c.seek, st[2] \o AddBytes(old, st[1], c.add) \o c.copy, "run">>
RECURSIVE Run(_, _, _)
Run(old, st, cs) == IF cs = <<>> THEN st ELSE Run(old, Step(old, st, Head(cs)), Tail(cs))
Apply(old, cs) == Run(old, <<0, <<>>, "run">>, cs)
\* C12: the series ends with exactly one end-of-series message, which is the last one, and yields new
Accepts(old, new, cs) == /\ Len(cs) >= 1 /\ cs[Len(cs)].eof
                         /\ \A k \in 1..(Len(cs) - 1) : ~cs[k].eof
                         /\ Apply(old, cs)[3] = "eof" /\ Apply(old, cs)[2] = new
\* resuming from a saved old offset after k controls gives the same remainder
ResumeOK(old, cs, k) == LET mid == Run(old, <<0, <<>>, "run">>, SubSeq(cs, 1, k))
                            rest == Run(old, <<mid[1], <<>>, "run">>, SubSeq(cs, k + 1, Len(cs)))
                        IN mid[2] \o rest[2] = Apply(old, cs)[2]
=============================================================================
