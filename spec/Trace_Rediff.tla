----------------------------- MODULE Trace_Rediff -----------------------------
(* Trace validation for C07: one line per (build pair, optimizer parameters). *)
(* The REAL optimizer rewrote a real patch; the result was decoded by an      *)
(* independent parser (bsdiff controls with running automaton state and       *)
(* digest facts) and applied by the REAL patcher fresh and in place; the      *)
(* original patch was applied too.                                            *)
EXTENDS PatchProp, Json, TLC
T == ndJsonDeserialize("trace.ndjson")
VARIABLE l
Init == l \in 1..Len(T)
Next == UNCHANGED l
Spec == Init /\ [][Next]_l
Viol(c) ==
  IF c.opterr # "" THEN {"OptimizerSucceeds"}
  ELSE IF ~c.decoded THEN {"OptimizedPatchDecodes"}
  ELSE IF ~PFraming(c) THEN {"Framing"}
  ELSE (IF PReconstructs(c) THEN {} ELSE {"Reconstructs"})
  \cup (IF c.plainerr = "" /\ PAsSet(c.plainout) = PAsSet(c.new) THEN {} ELSE {"OriginalYieldsNew"})
  \cup (IF c.fresherr = "" /\ PAsSet(c.freshout) = PAsSet(c.plainout) THEN {} ELSE {"OptimizedFreshSameAsOriginal"})
  \cup (IF c.overerr = "" /\ PAsSet(c.overout) = PAsSet(c.plainout) THEN {} ELSE {"OptimizedInPlaceSameAsOriginal"})
  \cup (IF \A i \in 1..Len(c.mapped) : c.mapped[i] # -1 =>
             (c.mapped[i] >= 0 /\ c.mapped[i] < Len(c.tsizes)
              /\ (c.sizelimit > 0 => (c.ssizes[i] <= c.sizelimit /\ c.tsizes[c.mapped[i] + 1] <= c.sizelimit)))
        THEN {} ELSE {"MappingLegal"})
Report == Viol(T[l]) = {} \/ PrintT(<<"VIOL", l, Viol(T[l])>>)
Stats == PrintT(<<"STAT", l, T[l].nbsdiff, T[l].nctl, T[l].parts>>)
=============================================================================
