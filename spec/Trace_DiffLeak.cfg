SPECIFICATION Spec
INVARIANTS Report ReportOdd
CHECK_DEADLOCK FALSE
