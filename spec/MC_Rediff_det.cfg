SPECIFICATION Spec
CONSTANTS
  NT = 3
  ForceMapAll = FALSE
  SizeLimit = 0
  TieFix = FALSE
INVARIANTS WellFormedOutput BestTarget RespectsLimit ChoiceIsFunctionOfInput
CHECK_DEADLOCK TRUE
