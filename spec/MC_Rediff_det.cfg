SPECIFICATION Spec
CONSTANTS
  NT = 3
  ForceMapAll = FALSE
  SizeLimit = 0
  TieFix = TRUE
INVARIANTS WellFormedOutput BestTarget RespectsLimit ChoiceIsFunctionOfInput
CHECK_DEADLOCK TRUE
