--------------------------- MODULE Trace_DripClose ---------------------------
(* C18, wound mode as the validator uses it (per-file markers pass through    *)
(* AggregateWounds) over an inner pool whose writer may FAIL on Close. One    *)
(* line per (signed, written, slicing, inner close outcome) on the REAL       *)
(* pwr.ValidatingPool. Whatever Close returns, the markers that came out must *)
(* tile the written range up to the signed length without gaps or overlaps,   *)
(* healthy markers must cover only good blocks and wounds only differing ones *)
(* (adjacent wounds may be merged by the filter).                             *)
EXTENDS Integers, Sequences, FiniteSets, Json, TLC
T == ndJsonDeserialize("trace.ndjson")
VARIABLE l
Init == l \in 1..Len(T)
Next == UNCHANGED l
Spec == Init /\ [][Next]_l
Min(a, b) == IF a < b THEN a ELSE b
Viol(c) ==
  LET u == c.unit
      B == c.bs * u                                     \* block size in bytes
      upto == Min(c.p, c.sglen) * u                     \* the written range up to the signed length
      w == c.w
      nb == Len(c.good)
      \* block b (0-based) lies inside marker k
      Covers(k, b) == w[k].s <= b * B /\ Min((b + 1) * B, upto) <= w[k].e
      InRange(b) == b * B < upto
  IN (IF \A k \in 1..Len(w) : 0 <= w[k].s /\ w[k].s <= w[k].e /\ w[k].s % B = 0 THEN {} ELSE {"WellFormed"})
\cup (IF \A k \in 1..(Len(w) - 1) : w[k].e = w[k + 1].s THEN {} ELSE {"NoGapNoOverlap"})
\cup (IF upto = 0 \/ (Len(w) > 0 /\ w[1].s = 0 /\ w[Len(w)].e >= upto) THEN {} ELSE {"TilesWrittenRange"})
\cup (IF \A b \in 0..(nb - 1) : InRange(b) => \E k \in 1..Len(w) : Covers(k, b) /\ ((w[k].k = "W") = ~c.good[b + 1]) THEN {} ELSE {"ExactMarking"})
\cup (IF c.innerclosefails = (c.closeerr # "") THEN {} ELSE {"CloseRelaysInnerOutcome"})
Report == Viol(T[l]) = {} \/ PrintT(<<"VIOL", l, Viol(T[l])>>)
=============================================================================
