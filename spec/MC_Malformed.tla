---------------------------- MODULE MC_Malformed ----------------------------
(* Model checking of Malformed.tla and emission of one replayable case per    *)
(* explored input (terminal states), for the real readers.                    *)
EXTENDS Malformed, Json
MC_UTSizes == <<98304, 131072, 0>>
MC_USSizes == <<98304, 140000, 0, 131072>>
MC_USamePath == <<0, 1, 2, -1>>
Emit == ~Terminal \/ PrintT(<<"EDGE", ToJson([cons |-> cons, base |-> base, cutk |-> cutk, how |-> how, hn |-> r.hn,
                                                pred |-> r.outcome, fz |-> r.fz, msgs |-> msgs])>>)
\* the registers that matter for exploration (site texts are output only)
View == <<cons, base, msgs, cutk, how, nmut, [r EXCEPT !.site = ""]>>
=============================================================================
