---------------------------- MODULE OverlayProp ----------------------------
(* Abstract layer for C14: overlay op streams over a content relation.        *)
(* The relation between old and new file is a sequence of runs                *)
(*   [k |-> "E" | "D" | "X", n |-> length]                                    *)
(* E: new = old at these offsets, D: they differ (every byte), X: beyond the  *)
(* end of the old file (only as last run). An overlay op is                   *)
(*   [t |-> "SKIP" | "FRESH", n |-> length].                                  *)
(* Applying an op stream to the old file and truncating at the final position *)
(* yields the new file iff the stream tiles [0, |new|), every SKIP covers only *)
(* E positions, and every FRESH carries the new bytes of its span (a digest   *)
(* fact at real scale; implicit in the model).                                *)
EXTENDS Integers, Sequences, FiniteSets
OMin(a,b) == IF a < b THEN a ELSE b
OMax(a,b) == IF a > b THEN a ELSE b
RECURSIVE OTotal(_)
OTotal(runs) == IF runs = <<>> THEN 0 ELSE Head(runs).n + OTotal(Tail(runs))
\* runs clipped to [p, p+n)
RECURSIVE OClip(_, _, _, _)
OClip(runs, off, p, n) ==
  IF runs = <<>> \/ off >= p + n THEN <<>>
  ELSE LET r == Head(runs)
           lo == OMax(off, p)
           hi == OMin(off + r.n, p + n)
       IN (IF hi > lo THEN <<[k |-> r.k, n |-> hi - lo]>> ELSE <<>>) \o OClip(Tail(runs), off + r.n, p, n)
OAllE(runs, off, n) == LET c == OClip(runs, 0, off, n) IN OTotal(c) = n /\ \A j \in 1..Len(c) : c[j].k = "E"
RECURSIVE OOpsLen(_)
OOpsLen(os) == IF os = <<>> THEN 0 ELSE Head(os).n + OOpsLen(Tail(os))
RECURSIVE OOpsOK(_, _, _)
OOpsOK(runs, os, off) == IF os = <<>> THEN TRUE
                  ELSE /\ Head(os).t \in {"SKIP", "FRESH"}
                       /\ Head(os).n >= 0
                       /\ (Head(os).t = "SKIP" => OAllE(runs, off, Head(os).n))
                       /\ OOpsOK(runs, Tail(os), off + Head(os).n)
\* a checkpoint <<readOffset, number of ops persisted>> reported after a flush is exact
OCheckpointOK(os, cp) == cp[2] <= Len(os) /\ OOpsLen(SubSeq(os, 1, cp[2])) = cp[1]
=============================================================================
