SPECIFICATION MCSpec
CONSTANTS
  BSs = {1, 2, 3, 4}
  Alphabet = {0, 1}
  NOld = 1
  MaxOld = 6
  MaxNew = 8
  MaxData = 3
INVARIANTS Reconstructs InBounds Merged DataLimit OnlyLeadingEmpty
CHECK_DEADLOCK TRUE
