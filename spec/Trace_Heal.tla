------------------------------- MODULE Trace_Heal -------------------------------
(* Trace validation for C06: one line per run of the REAL Validate with an      *)
(* archive healer on a damaged (or valid, or missing) directory under seeded    *)
(* scheduling jitter. Afterwards the directory is compared entry by entry with  *)
(* the signed build and validated in fail-fast mode; for an already valid       *)
(* directory inode / mtime / size / mode of every entry are compared.           *)
EXTENDS Integers, Sequences, FiniteSets, Json, TLC
T == ndJsonDeserialize("trace.ndjson")
VARIABLE l
Init == l \in 1..Len(T)
Next == UNCHANGED l
Spec == Init /\ [][Next]_l
Viol(c) ==
  IF ~c.returned THEN {"HealTerminates"} ELSE
     (IF c.err = "" THEN {} ELSE {"HealReturnsNoError"})
\cup (IF c.diff = <<>> THEN {} ELSE {"EverythingRestored"})
\cup (IF c.aftererr = "" THEN {} ELSE {"FailFastPassesAfterwards"})
\cup (IF c.valid /\ c.changed # <<>> THEN {"ValidDirectoryUntouched"} ELSE {})
\cup (IF c.leak = 0 THEN {} ELSE {"NoGoroutineLeftBehind"})
\cup (IF c.againerr = "" /\ c.againchanged = <<>> THEN {} ELSE {"HealingAgainWithTheSameContextChangesNothing"})
Report == Viol(T[l]) = {} \/ PrintT(<<"VIOL", l, Viol(T[l])>>)
Stats == PrintT(<<"STAT", l, Len(T[l].damage), IF T[l].dirswap THEN 1 ELSE 0>>)
=============================================================================
