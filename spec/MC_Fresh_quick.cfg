SPECIFICATION FSpec
CONSTANTS
  BSs = {2, 3}
  Alphabet = {0}
  NOld = 1
  MaxOld = 0
  MaxNew = 0
  MaxData = 64
  NBlocks = 4
  TailLen = 1
  K = 2
  MaxEdit = 3
INVARIANTS Bound AddsUp IdenticalIsFree Reconstructs
CHECK_DEADLOCK TRUE
