SPECIFICATION TSpec
CONSTANTS
  BS <- TBS
  NFiles = 0
  MaxSize = 0
  MaxExtra = 0
  Kinds <- TKinds
INVARIANTS Report Drift Unusable ScanReport ScanDrift
CHECK_DEADLOCK FALSE
