SPECIFICATION Spec
CONSTANTS
  NW = 3
  Repaired = TRUE
INVARIANTS NoWedge NilMeansAllHealed
PROPERTIES DoReturns
CHECK_DEADLOCK FALSE
