package main

// C03: interrupted patch application resumed from serialized checkpoints in a brand-new patcher and bowl.
//
// Per case: a build pair, a patch (plain / optimized) under a compression setting, a bowl kind (fresh / overlay).
//   A. one instrumented uninterrupted run with an always-save consumer: every checkpoint is gob-encoded at Save
//      time and its fields are logged (checked by TLC against the independently decoded message table);
//   B. resume tests: a real run is stopped at checkpoint k+lag (so the disk holds what a run that got that far
//      leaves), files written after checkpoint k lose an arbitrary suffix of what k does not vouch for, then a
//      new patcher + new bowl resume from the gob-decoded checkpoint k and finish (possibly stopping again:
//      chains); the committed tree is compared with the new build.

import (
	"bytes"
	"encoding/gob"
	"flag"
	"fmt"
	"math/rand"
	"os"
	"path/filepath"

	"github.com/itchio/wharf/pwr/bowl"
	"github.com/itchio/wharf/pwr/patcher"
)

type cpInfo struct {
	K      int   `json:"k"`
	Fi     int64 `json:"fi"`
	ShFi   int64 `json:"shfi"`
	Kind   int   `json:"kind"`   // 1 rsync, 2 bsdiff
	MOff   int64 `json:"moff"`   // reader offset (decompressed stream)
	SrcOff int64 `json:"srcoff"` // offset of the source checkpoint
	WOff   int64 `json:"woff"`   // writer checkpoint offset (bytes of the new file produced)
	OldOff int64 `json:"oldoff"` // bsdiff: old offset
	Tgt    int64 `json:"tgt"`    // bsdiff: target index
	OvRead int64 `json:"ovread"` // overlay writer: read offset (-1 if not an overlay writer)
	OvOff  int64 `json:"ovoff"`  // overlay writer: overlay offset
	NTrans int   `json:"ntrans"` // overlay bowl lists
	NOver  int   `json:"nover"`
	NMove  int   `json:"nmove"`
	GobLen int   `json:"goblen"`
}

type resumeTest struct {
	K     int      `json:"k"`     // checkpoint resumed from (index in the always-save run)
	Lag   int      `json:"lag"`   // the interrupted run had reached checkpoint k+lag
	Trunc []string `json:"trunc"` // "path:kept/had" for every file that lost unsynced bytes
	Chain int      `json:"chain"` // further stop/resume rounds after the first resume
	Err   string   `json:"err"`
	Out   []string `json:"out"`
	Stops int      `json:"stops"`
}

type c03Line struct {
	Case               int          `json:"case"`
	Desc               string       `json:"desc"`
	Algo               string       `json:"algo"`
	Q                  int32        `json:"q"`
	Optimized          bool         `json:"optimized"`
	Bowl               string       `json:"bowl"`
	TSizes             []int64      `json:"tsizes"`
	SSizes             []int64      `json:"ssizes"`
	TPaths             []string     `json:"tpaths"`
	SPaths             []string     `json:"spaths"`
	Msgs               []opFact     `json:"msgs"`
	Decoded            bool         `json:"decoded"`
	CEnd               int64        `json:"cend"` // offset after the two containers
	Cps                []cpInfo     `json:"cps"`
	RefErr             string       `json:"referr"`
	RefOut             []string     `json:"refout"`
	New                []string     `json:"new"`
	Tests              []resumeTest `json:"tests"`
	PreCommitUntouched bool         `json:"precommit_untouched"` // overlay: the old build is unmodified right before Commit
}

type saveConsumer struct {
	should func() bool
	save   func(c *patcher.Checkpoint) (patcher.AfterSaveAction, error)
}

func (s *saveConsumer) ShouldSave() bool { return s.should() }
func (s *saveConsumer) Save(c *patcher.Checkpoint) (patcher.AfterSaveAction, error) {
	return s.save(c)
}

func gobCheckpoint(c *patcher.Checkpoint) ([]byte, error) {
	var buf bytes.Buffer
	if err := gob.NewEncoder(&buf).Encode(c); err != nil {
		return nil, err
	}
	return buf.Bytes(), nil
}

func ungobCheckpoint(b []byte) (*patcher.Checkpoint, error) {
	c := &patcher.Checkpoint{}
	if err := gob.NewDecoder(bytes.NewReader(b)).Decode(c); err != nil {
		return nil, err
	}
	return c, nil
}

func infoOf(k int, c *patcher.Checkpoint, gobLen int) cpInfo {
	ci := cpInfo{K: k, Fi: c.FileIndex, Kind: int(c.FileKind), ShFi: -1, MOff: -1, SrcOff: -1, OvRead: -1, OvOff: -1, GobLen: gobLen}
	if c.SyncHeader != nil {
		ci.ShFi = c.SyncHeader.FileIndex
	}
	if c.MessageCheckpoint != nil {
		ci.MOff = c.MessageCheckpoint.Offset
		if c.MessageCheckpoint.SourceCheckpoint != nil {
			ci.SrcOff = c.MessageCheckpoint.SourceCheckpoint.Offset
		}
	}
	var wc *bowl.WriterCheckpoint
	if c.RsyncCheckpoint != nil {
		wc = c.RsyncCheckpoint.WriterCheckpoint
	}
	if c.BsdiffCheckpoint != nil {
		wc = c.BsdiffCheckpoint.WriterCheckpoint
		ci.OldOff, ci.Tgt = c.BsdiffCheckpoint.OldOffset, c.BsdiffCheckpoint.TargetIndex
	}
	if wc != nil {
		ci.WOff = wc.Offset
		if oc, ok := wc.Data.(*bowl.OverlayEntryWriterCheckpoint); ok {
			ci.OvRead, ci.OvOff = oc.ReadOffset, oc.OverlayOffset
		}
	}
	if c.BowlCheckpoint != nil {
		if oc, ok := c.BowlCheckpoint.Data.(*bowl.OverlayBowlCheckpoint); ok {
			ci.NTrans, ci.NOver, ci.NMove = len(oc.Transpositions), len(oc.OverlayFiles), len(oc.MoveFiles)
		}
	}
	return ci
}

// workspace of one application attempt
type workspace struct {
	root, work, stage, out string // overlay: work = copy of old, stage; fresh: out
	bowl                   string
	oldEOF                 bool // the old build is read through readers that return their last bytes with io.EOF
}

func newWorkspace(root, oldDir, bowlKind string, id int) (*workspace, error) {
	ws := &workspace{root: filepath.Join(root, fmt.Sprintf("ws%d", id)), bowl: bowlKind, oldEOF: id%3 == 1}
	if err := os.MkdirAll(ws.root, 0755); err != nil {
		return nil, err
	}
	if bowlKind == "overlay" {
		ws.work = filepath.Join(ws.root, "work")
		ws.stage = filepath.Join(ws.root, "stage")
		if err := os.MkdirAll(ws.work, 0755); err != nil {
			return nil, err
		}
		if err := copyDir(oldDir, ws.work); err != nil {
			return nil, err
		}
	} else {
		ws.work = oldDir
		ws.out = filepath.Join(ws.root, "out")
	}
	return ws, nil
}

func (ws *workspace) opts(cons patcher.SaveConsumer, from *patcher.Checkpoint) applyOpts {
	return applyOpts{Bowl: ws.bowl, OldDir: ws.work, OutDir: ws.out, StageDir: ws.stage, Consumer: cons, From: from, OldEOF: ws.oldEOF}
}

func (ws *workspace) resultDir() string {
	if ws.bowl == "overlay" {
		return ws.work
	}
	return ws.out
}

// dir in which files being produced live before commit
func (ws *workspace) producingDir() string {
	if ws.bowl == "overlay" {
		return ws.stage
	}
	return ws.out
}

func cmdC03(args []string) error {
	fs := flag.NewFlagSet("c03", flag.ExitOnError)
	n := fs.Int("n", 10, "cases")
	first := fs.Int("first", 0, "first case")
	ntests := fs.Int("tests", 8, "resume tests per case (0 = every checkpoint x lag 0..3)")
	out := fs.String("out", "c03.ndjson", "trace output")
	fs.Parse(args)
	w, err := newNDJSON(*out)
	if err != nil {
		return err
	}
	for k := *first; k < *first+*n; k++ {
		rng := newRand(int64(3000 + k))
		old, new, desc := genPair(rng, k/6, k%24 == 5)
		if k%5 != 4 {
			// files whose series have many messages (= many places to checkpoint): a change sprinkled over every
			// 2nd/3rd block gives alternating range/data ops and, once optimized, long bsdiff control series
			for j := 0; j < 1+rng.Intn(2); j++ {
				nb := 8 + rng.Intn(24)
				c := randBytes(rng, nb*BS+rng.Intn(BS))
				e := append([]byte{}, c...)
				step := 2 + rng.Intn(2)
				for b := rng.Intn(step); b < nb; b += step {
					at := b*BS + rng.Intn(BS)
					ln := 1 + rng.Intn(200)
					if at+ln > len(e) {
						ln = len(e) - at
					}
					copy(e[at:at+ln], randBytes(rng, ln))
				}
				if rng.Intn(2) == 0 {
					at := rng.Intn(len(e))
					e = append(append(append([]byte{}, e[:at]...), randBytes(rng, 1+rng.Intn(3000))...), e[at:]...)
				}
				p := fmt.Sprintf("sprinkled/s%d.bin", j)
				old.Files[p] = c
				if rng.Intn(4) == 0 {
					new.Files[fmt.Sprintf("sprinkled/moved%d.bin", j)] = e // patched under a new name
				} else {
					new.Files[p] = e
				}
			}
			desc += ",sprinkled"
		}
		if k%3 == 1 {
			// low-entropy layout: zero padding and repeated tiles that move around. A resumed writer that compares
			// against the wrong part of the old file finds long equal runs here instead of noise.
			tile := randBytes(rng, 12*1024)
			rep := func(n int) []byte {
				var b []byte
				for len(b) < n {
					b = append(b, tile...)
				}
				return b[:n]
			}
			content := randBytes(rng, 512*1024+rng.Intn(BS))
			pad := make([]byte, 768*1024+rng.Intn(BS))
			var o, nn []byte
			switch rng.Intn(3) {
			case 0: // padding first, then content  ->  new data, part of the content, the padding, new data
				o = append(append([]byte{}, pad...), content...)
				nn = append(append(append(append([]byte{}, randBytes(rng, 200*1024)...), content[:300*1024]...), pad...), randBytes(rng, 150*1024)...)
			case 1: // repeated tiles, new data inserted at the front and in the middle
				o = rep(1400 * 1024)
				nn = append(append(append(append([]byte{}, randBytes(rng, 96*1024+rng.Intn(5000))...), rep(600*1024)...), randBytes(rng, 70*1024)...), rep(500*1024)...)
			default: // zeros with islands of content that shift by a block multiple
				o = append(append(append([]byte{}, pad...), content[:128*1024]...), pad...)
				nn = append(append(append(append([]byte{}, content[:64*1024]...), pad[:256*1024]...), content[:128*1024]...), pad...)
			}
			old.Files["padded/layout.bin"] = o
			new.Files["padded/layout.bin"] = nn
			desc += ",padded-layout"
		}
		root, oldDir, newDir, err := materialisePair(old, new)
		if err != nil {
			return err
		}
		// the matrix {fresh, overlay} x {plain, optimized} x {none, gzip, brotli} is walked by the case index
		bowlKind := []string{"fresh", "overlay"}[k%2]
		optimized := (k/2)%2 == 1
		var c compSetting
		switch (k / 4) % 3 {
		case 0:
			c = compSetting{"NONE", 0}
		case 1:
			c = compSetting{"GZIP", int32(1 + rng.Intn(9))}
		default:
			c = compSetting{"BROTLI", int32(rng.Intn(10))}
		}
		line := c03Line{Case: k, Desc: desc, Algo: c.a, Q: c.q, Optimized: optimized, Bowl: bowlKind, Msgs: []opFact{}, Cps: []cpInfo{}, Tests: []resumeTest{},
			RefOut: []string{}, New: snapList(new.snapshot()), TSizes: []int64{}, SSizes: []int64{}, TPaths: []string{}, SPaths: []string{}}
		dr, err := realDiffDirs(oldDir, newDir, compressionOf(c.a, c.q))
		if err != nil {
			return fmt.Errorf("diff: %v", err)
		}
		patch := dr.Patch
		if optimized {
			opt, _, err := realOptimize(patch, oldDir, newDir, optParams{Partitions: rng.Intn(3), Comp: compressionOf(c.a, c.q)})
			if err != nil {
				return fmt.Errorf("optimize: %v", err)
			}
			patch = opt
		}
		d := decodePatch(patch)
		line.Decoded = d.Complete && d.Err == ""
		if line.Decoded {
			line.Msgs = patchFacts(d, oldDir, newDir)
			line.TSizes, line.SSizes, line.TPaths, line.SPaths = sizesOf(d.Target), sizesOf(d.Source), pathsOf(d.Target), pathsOf(d.Source)
			line.CEnd = d.ContainersEnd
		}
		oldSnapBefore, _ := snapshot(oldDir)

		// ---- A. uninterrupted, always-save: collect checkpoints
		var gobs [][]byte
		ws, err := newWorkspace(root, oldDir, bowlKind, 0)
		if err != nil {
			return err
		}
		cons := &saveConsumer{should: func() bool { return true }, save: func(cp *patcher.Checkpoint) (patcher.AfterSaveAction, error) {
			g, err := gobCheckpoint(cp)
			if err != nil {
				return patcher.AfterSaveContinue, err
			}
			gobs = append(gobs, g)
			line.Cps = append(line.Cps, infoOf(len(gobs)-1, cp, len(g)))
			return patcher.AfterSaveContinue, nil
		}}
		o := ws.opts(cons, nil)
		if bowlKind == "overlay" {
			o.BeforeCommit = func() {
				s, _ := snapshot(ws.work)
				line.PreCommitUntouched = len(diffSnap(oldSnapBefore, s)) == 0
			}
		} else {
			line.PreCommitUntouched = true
		}
		ar := realApplyPatch(patch, o)
		if ar.Err != nil {
			line.RefErr = ar.Err.Error()
		}
		if s, err := snapshot(ws.resultDir()); err == nil {
			line.RefOut = snapList(s)
		}
		os.RemoveAll(ws.root)

		// ---- B. resume tests
		type plan struct{ k, lag int }
		var plans []plan
		nk := len(gobs)
		if nk > 0 {
			if *ntests == 0 {
				for kk := 0; kk < nk; kk++ {
					for lag := 0; lag <= 3; lag++ {
						plans = append(plans, plan{kk, lag})
					}
				}
			} else {
				plans = append(plans, plan{0, 0}, plan{nk - 1, 0})
				for len(plans) < *ntests {
					plans = append(plans, plan{rng.Intn(nk), rng.Intn(4)})
				}
			}
		}
		for ti, pl := range plans {
			rt := runResumeTest(rng, root, oldDir, bowlKind, patch, gobs, line.Cps, pl.k, pl.lag, d, ti+1)
			line.Tests = append(line.Tests, rt)
		}
		w.emit(line)
		os.RemoveAll(root)
	}
	fmt.Printf("{\"lines\":%d}\n", w.n)
	return w.close()
}

func runResumeTest(rng *rand.Rand, root, oldDir, bowlKind string, patch []byte, gobs [][]byte, infos []cpInfo, k, lag int, d *decoded, id int) resumeTest {
	rt := resumeTest{K: k, Lag: lag, Trunc: []string{}, Out: []string{}}
	ws, err := newWorkspace(root, oldDir, bowlKind, id)
	if err != nil {
		rt.Err = "workspace: " + err.Error()
		return rt
	}
	defer os.RemoveAll(ws.root)
	stopAt := k + lag
	if stopAt >= len(gobs) {
		stopAt = len(gobs) - 1
	}
	// 1. the interrupted run: always save, stop at checkpoint stopAt
	seen := 0
	cons := &saveConsumer{should: func() bool { return true }, save: func(cp *patcher.Checkpoint) (patcher.AfterSaveAction, error) {
		seen++
		if seen-1 == stopAt {
			return patcher.AfterSaveStop, nil
		}
		return patcher.AfterSaveContinue, nil
	}}
	ar := realApplyPatch(patch, ws.opts(cons, nil))
	if !ar.Stopped {
		rt.Err = fmt.Sprintf("interrupted run did not stop at checkpoint %d: %v", stopAt, ar.Err)
		return rt
	}
	rt.Stops = 1
	// 2. crash model: files written after checkpoint k keep an arbitrary prefix, at least what k vouches for
	ck, cs := infos[k], infos[stopAt]
	for fi := ck.Fi; fi <= cs.Fi && fi < int64(len(d.Source.Files)); fi++ {
		p := filepath.Join(ws.producingDir(), filepath.FromSlash(d.Source.Files[fi].Path))
		st, err := os.Stat(p)
		if err != nil || !st.Mode().IsRegular() {
			continue
		}
		persisted := int64(0)
		if fi == ck.Fi {
			persisted = ck.WOff
			if ck.OvOff >= 0 {
				persisted = ck.OvOff
			}
		}
		had := st.Size()
		if had <= persisted {
			continue
		}
		var keep int64
		switch rng.Intn(4) {
		case 0:
			keep = had // everything made it to disk
		case 1:
			keep = persisted // nothing after the checkpoint did
		default:
			keep = persisted + rng.Int63n(had-persisted+1)
		}
		if keep != had {
			if err := os.Truncate(p, keep); err == nil {
				rt.Trunc = append(rt.Trunc, fmt.Sprintf("%s:%d/%d", d.Source.Files[fi].Path, keep, had))
			}
		}
	}
	// 3. a brand-new patcher and bowl resume from the decoded checkpoint; maybe stop again (chains)
	cur := gobs[k]
	maxChain := rng.Intn(3)
	for round := 0; ; round++ {
		cp, err := ungobCheckpoint(cur)
		if err != nil {
			rt.Err = "gob decode: " + err.Error()
			return rt
		}
		var last []byte
		n := 0
		stopAfter := -1
		if round < maxChain {
			stopAfter = 1 + rng.Intn(4)
		}
		cons := &saveConsumer{should: func() bool { return rng.Intn(3) > 0 }, save: func(c *patcher.Checkpoint) (patcher.AfterSaveAction, error) {
			g, err := gobCheckpoint(c)
			if err != nil {
				return patcher.AfterSaveContinue, err
			}
			last = g
			n++
			if n == stopAfter {
				return patcher.AfterSaveStop, nil
			}
			return patcher.AfterSaveContinue, nil
		}}
		o := ws.opts(cons, cp)
		// (the patch may be served by a source that can only restart on coarse boundaries, or from the start)
		o.Gran = []int64{1, 1, 1, 65536, 1 << 30}[rng.Intn(5)]
		ar := realApplyPatch(patch, o)
		if ar.Stopped && last != nil {
			rt.Chain++
			rt.Stops++
			cur = last
			continue
		}
		if ar.Err != nil {
			rt.Err = ar.Err.Error()
		}
		break
	}
	if s, err := snapshot(ws.resultDir()); err == nil {
		rt.Out = snapList(s)
	} else if rt.Err == "" {
		rt.Err = "snapshot: " + err.Error()
	}
	return rt
}

func init() {
	register("c03", "interrupted applications resumed from serialized checkpoints in new patcher+bowl", cmdC03)
}
