package main

import (
	"encoding/binary"
	"fmt"
	"os"

	"github.com/golang/protobuf/proto"
	"github.com/itchio/lake/tlc"
	"github.com/itchio/wharf/pwr"
)

type woundRec struct {
	Kind  string `json:"kind"` // FILE | DIR | SYMLINK | CLOSED_FILE | kindN
	Index int64  `json:"index"`
	Start int64  `json:"start"`
	End   int64  `json:"end"`
}

func woundKind(k pwr.WoundKind) string {
	switch k {
	case pwr.WoundKind_FILE:
		return "FILE"
	case pwr.WoundKind_DIR:
		return "DIR"
	case pwr.WoundKind_SYMLINK:
		return "SYMLINK"
	case pwr.WoundKind_CLOSED_FILE:
		return "CLOSED_FILE"
	}
	return fmt.Sprintf("kind%d", k)
}

// readWoundsFile parses a .pww file with an independent framing parser. A missing file means no wounds.
func readWoundsFile(path string) ([]woundRec, error) {
	b, err := os.ReadFile(path)
	if err != nil {
		if os.IsNotExist(err) {
			return []woundRec{}, nil
		}
		return nil, err
	}
	if len(b) < 4 || int32(binary.LittleEndian.Uint32(b[:4])) != pwr.WoundsMagic {
		return nil, fmt.Errorf("bad wounds magic")
	}
	off := 4
	_, off, ok := readFramed(b, off) // header
	if !ok {
		return nil, fmt.Errorf("truncated wounds header")
	}
	cb, off, ok := readFramed(b, off)
	if !ok {
		return nil, fmt.Errorf("truncated wounds container")
	}
	c := &tlc.Container{}
	if err := proto.Unmarshal(cb, c); err != nil {
		return nil, err
	}
	out := []woundRec{}
	for off < len(b) {
		var mb []byte
		mb, off, ok = readFramed(b, off)
		if !ok {
			return out, fmt.Errorf("truncated wound")
		}
		w := &pwr.Wound{}
		if err := proto.Unmarshal(mb, w); err != nil {
			return out, err
		}
		out = append(out, woundRec{Kind: woundKind(w.Kind), Index: w.Index, Start: w.Start, End: w.End})
	}
	return out, nil
}
