package main

// C14: the real overlay writer / patcher driven over content relations with boundary run lengths,
// arbitrary write slicings, flushes and crash/resume sessions; everything observable is recorded.

import (
	"bytes"
	"encoding/binary"
	"flag"
	"fmt"
	"io"
	"math/rand"
	"testing/iotest"

	"github.com/golang/protobuf/proto"
	"github.com/itchio/savior/seeksource"
	"github.com/itchio/wharf/pwr/overlay"
)

type ovRun struct {
	K string `json:"k"`
	N int    `json:"n"`
}

type ovAct struct {
	Op string `json:"op"` // write | flush | crash | finalize
	N  int    `json:"n"`
	// flush: offsets reported by the real writer and what an independent parse of overlay[0:oo) says
	Ro    int64 `json:"ro"`
	Oo    int64 `json:"oo"`
	CpLen int64 `json:"cplen"` // sum of op lengths in overlay[0:oo)
	CpOps int   `json:"cpops"` // complete ops in overlay[0:oo)
	Exact bool  `json:"exact"` // the parse ended exactly at oo
}

type ovOp struct {
	T    string `json:"t"`
	N    int64  `json:"n"`
	Fsha string `json:"fsha"` // FRESH: digest of the op's data
	Nsha string `json:"nsha"` // digest of new[off:off+n] at the harness' running offset
	Off  int64  `json:"off"`
}

type ovTrace struct {
	Case    int     `json:"case"`
	W       int     `json:"W"`
	T       int     `json:"T"`
	Runs    []ovRun `json:"runs"`
	OldLen  int     `json:"oldlen"`
	NewLen  int     `json:"newlen"`
	Acts    []ovAct `json:"acts"`
	Ops     []ovOp  `json:"ops"`
	Done    bool    `json:"done"`    // the stream ends with the end marker
	PatchOK bool    `json:"patchok"` // real Patch returned nil
	OutLen  int64   `json:"outlen"`
	OutSha  string  `json:"outsha"`
	NewSha  string  `json:"newsha"`
	Desc    string  `json:"desc"`
	// ShortOld: the old file was delivered to the writer in short reads / with its last bytes together with io.EOF
	ShortOld bool `json:"shortold"`
}

// sliceWriter writes into *buf at an offset (overwriting stale bytes, extending as needed).
type sliceWriter struct {
	buf *[]byte
	off int
}

func (s *sliceWriter) Write(p []byte) (int, error) {
	need := s.off + len(p)
	if need > len(*s.buf) {
		*s.buf = append(*s.buf, make([]byte, need-len(*s.buf))...)
	}
	copy((*s.buf)[s.off:], p)
	s.off += len(p)
	return len(p), nil
}

// memWS is an in-memory io.WriteSeeker with file semantics (holes are zero-filled).
type memWS struct {
	buf []byte
	pos int64
}

func (m *memWS) Write(p []byte) (int, error) {
	need := m.pos + int64(len(p))
	if need > int64(len(m.buf)) {
		m.buf = append(m.buf, make([]byte, need-int64(len(m.buf)))...)
	}
	copy(m.buf[m.pos:], p)
	m.pos += int64(len(p))
	return len(p), nil
}

func (m *memWS) Seek(off int64, whence int) (int64, error) {
	switch whence {
	case io.SeekStart:
		m.pos = off
	case io.SeekCurrent:
		m.pos += off
	case io.SeekEnd:
		m.pos = int64(len(m.buf)) + off
	}
	if m.pos < 0 {
		return 0, fmt.Errorf("negative seek")
	}
	return m.pos, nil
}

// parseOverlay is an independent framing parser: magic, then uvarint-framed messages, up to limit bytes.
// It returns the ops decoded (the first, empty, message is the header), whether the end marker was seen,
// and the offset at which parsing stopped.
func parseOverlay(b []byte, limit int) (ops []*overlay.OverlayOp, done bool, end int) {
	if limit > len(b) {
		limit = len(b)
	}
	if limit < 4 || binary.LittleEndian.Uint32(b[:4]) != overlay.OverlayMagic {
		return nil, false, 0
	}
	off := 4
	first := true
	for off < limit {
		l, n := binary.Uvarint(b[off:limit])
		if n <= 0 || off+n+int(l) > limit {
			return ops, false, off
		}
		msg := b[off+n : off+n+int(l)]
		off += n + int(l)
		if first {
			first = false // OverlayHeader
			continue
		}
		op := &overlay.OverlayOp{}
		if err := proto.Unmarshal(msg, op); err != nil {
			return ops, false, off
		}
		if op.Type == overlay.OverlayOp_HEY_YOU_DID_IT {
			return ops, true, off
		}
		ops = append(ops, op)
	}
	return ops, false, off
}

func genRelation(rng *rand.Rand, k int, W, T int) (runs []ovRun, oldExtra int, desc string) {
	lens := []int{1, 2, T - 1, T, T + 1, T + 2, 2*T + 1, 2*T + 2, W - T - 1, W - 1, W, W + 1, 2*W + 3}
	pick := func() int {
		if rng.Intn(4) == 0 {
			return 1 + rng.Intn(2*W)
		}
		return lens[rng.Intn(len(lens))]
	}
	add := func(kind string, n int) {
		if n <= 0 {
			return
		}
		if len(runs) > 0 && runs[len(runs)-1].K == kind {
			runs[len(runs)-1].N += n
			return
		}
		runs = append(runs, ovRun{kind, n})
	}
	switch k % 8 {
	case 0: // identical files
		add("E", pick()+rng.Intn(3)*W)
		desc = "identical"
	case 1: // equal run of T+1 / T ending exactly at a window end
		e := T + rng.Intn(3) - 1 + 1
		add("D", W-e)
		add("E", e)
		add("D", pick())
		desc = fmt.Sprintf("E%d-at-window-end", e)
	case 2: // equal run at the very start of a window
		e := T + rng.Intn(3)
		add("D", W)
		add("E", e)
		add("D", pick())
		desc = fmt.Sprintf("E%d-at-window-start", e)
	case 3: // equal run straddling a window boundary
		l, r := T+rng.Intn(3)-1, T+rng.Intn(3)-1
		add("D", W-l)
		add("E", l+r)
		add("D", pick())
		desc = fmt.Sprintf("E-straddle-%d+%d", l, r)
	case 4: // empty new file
		desc = "empty-new"
	default:
		n := 1 + rng.Intn(9)
		kind := []string{"E", "D"}[rng.Intn(2)]
		for i := 0; i < n; i++ {
			add(kind, pick())
			if kind == "E" {
				kind = "D"
			} else {
				kind = "E"
			}
		}
		desc = fmt.Sprintf("random-%d-runs", n)
	}
	switch rng.Intn(4) {
	case 0:
		x := pick()
		runs = append(runs, ovRun{"X", x}) // new longer than old
		desc += fmt.Sprintf("+X%d", x)
	case 1:
		oldExtra = pick() // new shorter than old
		desc += fmt.Sprintf("+oldextra%d", oldExtra)
	}
	if runs == nil {
		runs = []ovRun{}
	}
	return
}

func materialise(rng *rand.Rand, runs []ovRun, oldExtra int) (old, new []byte) {
	for _, r := range runs {
		nb := randBytes(rng, r.N)
		switch r.K {
		case "E":
			old = append(old, nb...)
			new = append(new, nb...)
		case "D":
			ob := make([]byte, r.N)
			for i := range ob {
				ob[i] = nb[i] ^ byte(1+rng.Intn(255)) // every byte differs
			}
			old = append(old, ob...)
			new = append(new, nb...)
		case "X":
			new = append(new, nb...)
		}
	}
	old = append(old, randBytes(rng, oldExtra)...)
	return
}

func cmdC14(args []string) error {
	fs := flag.NewFlagSet("c14", flag.ExitOnError)
	n := fs.Int("n", 50, "cases")
	first := fs.Int("first", 0, "first case index")
	out := fs.String("out", "c14.ndjson", "trace output")
	fs.Parse(args)
	const W, T = 128 * 1024, 8 * 1024
	w, err := newNDJSON(*out)
	if err != nil {
		return err
	}
	for k := *first; k < *first+*n; k++ {
		rng := newRand(int64(14000 + k))
		runs, oldExtra, desc := genRelation(rng, k, W, T)
		old, new := materialise(rng, runs, oldExtra)
		tr := ovTrace{Case: k, W: W, T: T, Runs: runs, OldLen: len(old), NewLen: len(new), Acts: []ovAct{}, Ops: []ovOp{}, Desc: desc, NewSha: sha(new), ShortOld: k%4 == 3}

		var ov []byte // the overlay "file"
		var cpRo, cpOo int64
		newSession := func() (overlay.OverlayWriter, error) {
			br := bytes.NewReader(old)
			br.Seek(cpRo, io.SeekStart)
			var r io.Reader = br
			// the old file may be delivered in short reads and with its last bytes together with io.EOF
			if k%4 == 3 {
				r = iotest.DataErrReader(&chunkReader{r: br, n: 1 + (k*7919)%(W+W/2)})
			}
			return overlay.NewOverlayWriter(r, cpRo, &sliceWriter{buf: &ov, off: int(cpOo)}, cpOo)
		}
		ow, err := newSession()
		if err != nil {
			return err
		}
		pos := int(cpRo)
		crashes := 0
		_ = pos
		style := rng.Intn(4)
		sizes := []int{1, 7, 4096, T, T + 1, W - 1, W, W + 1, 2 * W, 3*W + 5}
		flushNow := func() error {
			if err := ow.Flush(); err != nil {
				return err
			}
			a := ovAct{Op: "flush", Ro: ow.ReadOffset(), Oo: ow.OverlayOffset()}
			ops, _, end := parseOverlay(ov, int(a.Oo))
			a.CpOps = len(ops)
			for _, op := range ops {
				a.CpLen += opLen(op)
			}
			a.Exact = end == int(a.Oo)
			tr.Acts = append(tr.Acts, a)
			cpRo, cpOo = a.Ro, a.Oo
			return nil
		}
		// a save can be requested before anything was written (flush point 0)
		if rng.Intn(3) == 0 {
			if err := flushNow(); err != nil {
				return err
			}
		}
		for pos < len(new) && len(tr.Acts) < 300 {
			var sz int
			switch style {
			case 0:
				sz = sizes[rng.Intn(len(sizes))]
			case 1:
				sz = 1 + rng.Intn(3*W)
			case 2:
				sz = 1 + rng.Intn(T)
			default:
				sz = len(new)
			}
			if sz > len(new)-pos {
				sz = len(new) - pos
			}
			nw, err := ow.Write(new[pos : pos+sz])
			if err != nil || nw != sz {
				return fmt.Errorf("overlay write: n=%d/%d err=%v", nw, sz, err)
			}
			pos += sz
			tr.Acts = append(tr.Acts, ovAct{Op: "write", N: sz})
			if rng.Intn(4) == 0 {
				if err := flushNow(); err != nil {
					return err
				}
			}
			if crashes < 2 && rng.Intn(6) == 0 {
				// crash: writes after the last checkpoint are wholly or partly on "disk"
				crashes++
				switch rng.Intn(3) {
				case 0:
					ov = ov[:cpOo+int64(rng.Intn(len(ov)-int(cpOo)+1))]
				case 1:
					if int(cpOo) <= len(ov) {
						ov = ov[:cpOo]
					}
				}
				tr.Acts = append(tr.Acts, ovAct{Op: "crash"})
				ow, err = newSession()
				if err != nil {
					return err
				}
				pos = int(cpRo)
				if rng.Intn(4) == 0 { // and right after a resume
					if err := flushNow(); err != nil {
						return err
					}
				}
			}
		}
		if pos < len(new) { // act budget exhausted: finish with one big write
			if _, err := ow.Write(new[pos:]); err != nil {
				return err
			}
			tr.Acts = append(tr.Acts, ovAct{Op: "write", N: len(new) - pos})
			pos = len(new)
		}
		if err := ow.Finalize(); err != nil {
			return err
		}
		tr.Acts = append(tr.Acts, ovAct{Op: "finalize"})

		ops, done, _ := parseOverlay(ov, len(ov))
		tr.Done = done
		off := int64(0)
		for _, op := range ops {
			o := ovOp{N: opLen(op), Off: off}
			switch op.Type {
			case overlay.OverlayOp_SKIP:
				o.T = "SKIP"
			case overlay.OverlayOp_FRESH:
				o.T = "FRESH"
				o.Fsha = sha(op.Data)
				if off+o.N <= int64(len(new)) {
					o.Nsha = sha(new[off : off+o.N])
				}
			default:
				o.T = fmt.Sprintf("type%d", op.Type)
			}
			off += o.N
			tr.Ops = append(tr.Ops, o)
		}
		// apply with the real patcher onto a copy of the old file, truncate at the final position
		ws := &memWS{buf: append([]byte{}, old...)}
		src := seeksource.FromBytes(ov)
		if _, err := src.Resume(nil); err != nil {
			return err
		}
		perr := (&overlay.OverlayPatchContext{}).Patch(src, ws)
		tr.PatchOK = perr == nil
		final, _ := ws.Seek(0, io.SeekCurrent)
		if final <= int64(len(ws.buf)) {
			ws.buf = ws.buf[:final]
		}
		tr.OutLen = int64(len(ws.buf))
		tr.OutSha = sha(ws.buf)
		w.emit(tr)
	}
	fmt.Printf("{\"lines\":%d}\n", w.n)
	return w.close()
}

func opLen(op *overlay.OverlayOp) int64 {
	if op.Type == overlay.OverlayOp_FRESH {
		return int64(len(op.Data))
	}
	return op.Len
}

func init() {
	register("c14", "overlay writer/patcher sessions over boundary content relations", cmdC14)
}
