package main

import (
	"os"
	"syscall"
)

func inodeOf(info os.FileInfo) uint64 {
	if st, ok := info.Sys().(*syscall.Stat_t); ok {
		return st.Ino
	}
	return 0
}
