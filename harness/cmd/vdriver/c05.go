package main

// C05: validation reports and locates every deviation.
//   c05-unit : (signed, actual) pairs of ONE file at unit scale (1 unit = 32 KiB), the real Validate with a wounds
//              file and in fail-fast mode;
//   c05-tree : generated builds with damage sequences applied to a valid copy (bit flips at block edges, truncation,
//              extension, emptied / deleted files, content where an empty file is expected, kind swaps, retargeted
//              symlinks, combinations); ground truth = the damage actually present, computed by comparing with the
//              signed build.

import (
	"bytes"
	"context"
	"flag"
	"fmt"
	"math/rand"
	"os"
	"path/filepath"
	"strings"

	"github.com/itchio/lake/pools/fspool"
	"github.com/itchio/lake/tlc"
	"github.com/itchio/wharf/pwr"
)

type c05Unit struct {
	Id       int        `json:"id"`
	Unit     int        `json:"unit"`
	Signed   []int      `json:"signed"`
	Actual   []int      `json:"actual"`
	Wounds   []woundRec `json:"wounds"`
	FailFast bool       `json:"failfast"` // fail-fast validation returned an error
	Err      string     `json:"err"`      // Validate (wounds writer) returned an error
}

func signDir(dir string) (*pwr.SignatureInfo, error) {
	c, err := tlc.WalkAny(dir, tlc.WalkOpts{})
	if err != nil {
		return nil, err
	}
	h, err := pwr.ComputeSignature(context.Background(), c, fspool.New(c, dir), nullConsumer())
	if err != nil {
		return nil, err
	}
	return &pwr.SignatureInfo{Container: c, Hashes: h}, nil
}

func validateBoth(dir string, si *pwr.SignatureInfo, scratch string) (ws []woundRec, verr string, failfast string) {
	wp := filepath.Join(scratch, "w.pww")
	os.Remove(wp)
	vctx := &pwr.ValidatorContext{WoundsPath: wp, Consumer: nullConsumer()}
	if err := vctx.Validate(context.Background(), dir, si); err != nil {
		verr = err.Error()
	}
	ws, perr := readWoundsFile(wp)
	if perr != nil && verr == "" {
		verr = "wounds file: " + perr.Error()
	}
	if ws == nil {
		ws = []woundRec{}
	}
	if err := pwr.AssertValid(dir, si); err != nil {
		failfast = err.Error()
	}
	return
}

func cmdC05Unit(args []string) error {
	fs := flag.NewFlagSet("c05-unit", flag.ExitOnError)
	maxS := fs.Int("maxsigned", 5, "max signed length (units)")
	maxA := fs.Int("maxactual", 8, "max actual length (units)")
	stride := fs.Int("stride", 1, "take every stride-th pair")
	phase := fs.Int("phase", 0, "phase")
	limit := fs.Int("limit", 0, "stop after this many pairs (0 = all)")
	out := fs.String("out", "c05u.ndjson", "trace output")
	fs.Parse(args)
	w, err := newNDJSON(*out)
	if err != nil {
		return err
	}
	const unit = 32 * 1024
	rng := newRand(500)
	syms := [][]byte{randBytes(rng, unit), randBytes(rng, unit)}
	expand := func(xs []byte) []byte {
		var b []byte
		for _, x := range xs {
			b = append(b, syms[x]...)
		}
		return b
	}
	root, err := os.MkdirTemp("", "c05u-")
	if err != nil {
		return err
	}
	defer os.RemoveAll(root)
	signedSeqs := seqsUpTo(2, *maxS)
	actualSeqs := seqsUpTo(2, *maxA)
	id := -1
	done := 0
	for _, sg := range signedSeqs {
		var si *pwr.SignatureInfo
		for _, ac := range actualSeqs {
			id++
			if id%*stride != *phase {
				continue
			}
			if *limit > 0 && done >= *limit {
				break
			}
			done++
			if si == nil {
				sd := filepath.Join(root, "signed")
				os.RemoveAll(sd)
				os.MkdirAll(sd, 0755)
				os.WriteFile(filepath.Join(sd, "f"), expand(sg), 0644)
				si, err = signDir(sd)
				if err != nil {
					return err
				}
			}
			ad := filepath.Join(root, "actual")
			os.RemoveAll(ad)
			os.MkdirAll(ad, 0755)
			os.WriteFile(filepath.Join(ad, "f"), expand(ac), 0644)
			ws, verr, ff := validateBoth(ad, si, root)
			w.emit(c05Unit{Id: id, Unit: unit, Signed: ints(sg), Actual: ints(ac), Wounds: ws, FailFast: ff != "", Err: verr})
		}
	}
	fmt.Printf("{\"lines\":%d}\n", w.n)
	return w.close()
}

// ---------------------------------------------------------------- tree-level damage

type rng64 struct{ S, E int64 }

type c05File struct {
	Index  int       `json:"index"`
	Path   string    `json:"path"`
	Signed int64     `json:"signed"` // signed size
	OnDisk string    `json:"ondisk"` // file | missing | dir | symlink
	Actual int64     `json:"actual"` // size on disk (files)
	Diffs  [][]int64 `json:"diffs"`  // maximal ranges [s,e) below min(signed, actual) where the content differs
}

type c05Entry struct {
	Index  int    `json:"index"`
	Path   string `json:"path"`
	OnDisk string `json:"ondisk"` // dir | symlink:<dest> | file | missing
	Dest   string `json:"dest"`
}

type c05Tree struct {
	Case     int        `json:"case"`
	Desc     string     `json:"desc"`
	Damage   []string   `json:"damage"`
	Files    []c05File  `json:"files"`
	Dirs     []c05Entry `json:"dirs"`
	Syms     []c05Entry `json:"syms"`
	Wounds   []woundRec `json:"wounds"`
	FailFast bool       `json:"failfast"`
	Err      string     `json:"err"`
	Deviates bool       `json:"deviates"`
}

func diffRanges(a, b []byte) [][]int64 {
	n := len(a)
	if len(b) < n {
		n = len(b)
	}
	out := [][]int64{}
	i := 0
	for i < n {
		if a[i] == b[i] {
			i++
			continue
		}
		s := i
		for i < n && a[i] != b[i] {
			i++
		}
		out = append(out, []int64{int64(s), int64(i)})
	}
	return out
}

func applyDamage(rng *rand.Rand, dir string, c *tlc.Container, build *tree) []string {
	var log []string
	nd := 1 + rng.Intn(3)
	for d := 0; d < nd; d++ {
		kind := rng.Intn(13)
		if len(c.Files) == 0 && kind < 9 {
			kind = 9 + rng.Intn(4)
		}
		switch {
		case kind < 9:
			fi := rng.Intn(len(c.Files))
			f := c.Files[fi]
			p := filepath.Join(dir, filepath.FromSlash(f.Path))
			content, err := os.ReadFile(p)
			if err != nil {
				continue
			}
			switch kind {
			case 0, 1: // bit flip at a block edge / last byte of the file
				if len(content) == 0 {
					continue
				}
				nb := (len(content) + BS - 1) / BS
				bi := rng.Intn(nb)
				if rng.Intn(4) == 0 && (bi+1)*BS <= len(content) {
					// same rolling checksum, other content: only the strong hash can tell
					copy(content[bi*BS:(bi+1)*BS], weakTwin(content[bi*BS:(bi+1)*BS]))
					os.WriteFile(p, content, 0644)
					log = append(log, fmt.Sprintf("weak-twin:%s#%d", f.Path, bi))
					continue
				}
				off := bi * BS
				switch rng.Intn(3) {
				case 1:
					off = minInt((bi+1)*BS, len(content)) - 1
				case 2:
					off = len(content) - 1
				}
				content[off] ^= 1 << uint(rng.Intn(8))
				os.WriteFile(p, content, 0644)
				log = append(log, fmt.Sprintf("flip:%s@%d", f.Path, off))
			case 2: // truncate to any length (incl. exactly a block boundary)
				if len(content) == 0 {
					continue
				}
				to := rng.Intn(len(content))
				if rng.Intn(2) == 0 && len(content) > BS {
					to = (1 + rng.Intn(len(content)/BS)) * BS
					if to >= len(content) {
						to = len(content) - BS
					}
				}
				os.WriteFile(p, content[:to], 0644)
				log = append(log, fmt.Sprintf("truncate:%s:%d->%d", f.Path, len(content), to))
			case 3, 4: // extend: within the last block, across a boundary, by several blocks
				ext := []int{1, 10, BS - len(content)%BS - 1, BS - len(content)%BS, BS - len(content)%BS + 1, BS, 3*BS + 5}[rng.Intn(7)]
				if ext <= 0 {
					ext = 1
				}
				os.WriteFile(p, append(content, randBytes(rng, ext)...), 0644)
				log = append(log, fmt.Sprintf("extend:%s:%d+%d", f.Path, len(content), ext))
			case 5: // emptied
				os.WriteFile(p, []byte{}, 0644)
				log = append(log, "emptied:"+f.Path)
			case 6: // deleted
				os.Remove(p)
				log = append(log, "deleted:"+f.Path)
			case 7: // replaced by a directory
				os.Remove(p)
				os.MkdirAll(filepath.Join(p, "inside"), 0755)
				log = append(log, "file->dir:"+f.Path)
			case 8: // replaced by a symlink
				os.Remove(p)
				switch rng.Intn(3) {
				case 0: // dangling
					os.Symlink("elsewhere", p)
					log = append(log, "file->symlink:"+f.Path)
				case 1:
					// a link that RESOLVES to a regular file with exactly the signed content (a copy kept next to the
					// build): only the kind of the entry is wrong
					side := dir + "-moved-" + fmt.Sprint(rng.Intn(1<<30))
					os.WriteFile(side, build.Files[f.Path], 0644)
					os.Symlink(side, p)
					log = append(log, "file->symlink-to-same-content:"+f.Path)
				default:
					// a link to another file of the build (same content if there is a duplicate, e.g. another empty file)
					target := ""
					for _, g := range c.Files {
						if g.Path != f.Path && bytes.Equal(build.Files[g.Path], build.Files[f.Path]) {
							target = g.Path
							break
						}
					}
					if target == "" {
						side := dir + "-moved-" + fmt.Sprint(rng.Intn(1<<30))
						os.WriteFile(side, build.Files[f.Path], 0644)
						os.Symlink(side, p)
					} else {
						rel, _ := filepath.Rel(filepath.Dir(p), filepath.Join(dir, filepath.FromSlash(target)))
						os.Symlink(rel, p)
					}
					log = append(log, "file->symlink-to-same-content:"+f.Path)
				}
			}
		case kind == 9 && len(c.Symlinks) > 0:
			s := c.Symlinks[rng.Intn(len(c.Symlinks))]
			p := filepath.Join(dir, filepath.FromSlash(s.Path))
			os.Remove(p)
			switch rng.Intn(4) {
			case 3:
				// another destination STRING that path cleaning maps to the signed one (it may even resolve elsewhere:
				// x/../y is not y when x is a link to a directory)
				alt := []string{"./" + s.Dest, s.Dest + "/", strings.Replace(s.Dest, "/", "//", 1), "detour/../" + s.Dest, s.Dest + "/."}[rng.Intn(5)]
				if alt == s.Dest {
					alt = "./" + s.Dest
				}
				os.Symlink(alt, p)
				log = append(log, "retarget-lexically-equal:"+s.Path+"->"+alt)
			case 0:
				os.Symlink(s.Dest+"-retargeted", p)
				log = append(log, "retarget:"+s.Path)
			case 1:
				os.WriteFile(p, []byte("now a file"), 0644)
				log = append(log, "symlink->file:"+s.Path)
			default:
				log = append(log, "symlink-deleted:"+s.Path)
			}
		case kind == 10 && len(c.Dirs) > 0:
			// an empty directory removed or replaced by a file (only leaf dirs, to keep the rest intact)
			for _, dd := range c.Dirs {
				p := filepath.Join(dir, filepath.FromSlash(dd.Path))
				ents, err := os.ReadDir(p)
				if err == nil && len(ents) == 0 {
					os.Remove(p)
					if rng.Intn(2) == 0 {
						os.WriteFile(p, []byte("x"), 0644)
						log = append(log, "dir->file:"+dd.Path)
					} else {
						log = append(log, "dir-deleted:"+dd.Path)
					}
					break
				}
			}
		case kind == 11: // content where an empty file is expected
			for fi, f := range c.Files {
				if f.Size == 0 {
					p := filepath.Join(dir, filepath.FromSlash(f.Path))
					os.WriteFile(p, randBytes(rng, 1+rng.Intn(2*BS)), 0644)
					log = append(log, fmt.Sprintf("nonempty-where-empty:%s(%d)", f.Path, fi))
					break
				}
			}
		default: // damage only in the last file
			if len(c.Files) > 0 {
				f := c.Files[len(c.Files)-1]
				p := filepath.Join(dir, filepath.FromSlash(f.Path))
				content, err := os.ReadFile(p)
				if err == nil && len(content) > 0 {
					content[len(content)-1] ^= 0x80
					os.WriteFile(p, content, 0644)
					log = append(log, "flip-last-file:"+f.Path)
				}
			}
		}
	}
	return log
}

func cmdC05Tree(args []string) error {
	fs := flag.NewFlagSet("c05-tree", flag.ExitOnError)
	n := fs.Int("n", 10, "cases")
	first := fs.Int("first", 0, "first case")
	out := fs.String("out", "c05t.ndjson", "trace output")
	fs.Parse(args)
	w, err := newNDJSON(*out)
	if err != nil {
		return err
	}
	for k := *first; k < *first+*n; k++ {
		rng := newRand(int64(5000 + k))
		build, desc := genBuild(rng, k)
		// a file larger than the aggregator's limit (MaxWoundSize = 64 blocks) with a run of consecutive damaged
		// blocks longer than it: the aggregate fills up, is handed over, and the next block starts a new one
		longRun := k%6 == 5
		if longRun {
			build.Files["long/run.bin"] = randBytes(rng, (66+rng.Intn(75))*BS+rng.Intn(BS))
			desc += ",long-run"
		}
		root, err := os.MkdirTemp("", "c05t-")
		if err != nil {
			return err
		}
		signedDir, dir := filepath.Join(root, "signed"), filepath.Join(root, "copy")
		if err := writeTree(signedDir, build); err != nil {
			return err
		}
		si, err := signDir(signedDir)
		if err != nil {
			return err
		}
		os.MkdirAll(dir, 0755)
		if err := copyDir(signedDir, dir); err != nil {
			return err
		}
		line := c05Tree{Case: k, Desc: desc, Files: []c05File{}, Dirs: []c05Entry{}, Syms: []c05Entry{}}
		line.Damage = applyDamage(rng, dir, si.Container, build)
		if line.Damage == nil {
			line.Damage = []string{}
		}
		if longRun {
			p := filepath.Join(dir, "long", "run.bin")
			if b, err := os.ReadFile(p); err == nil && len(b) >= 66*BS {
				nb := (len(b) + BS - 1) / BS
				start := rng.Intn(nb - 65)
				runLen := 65 + rng.Intn(nb-start-64)
				for blk := start; blk < start+runLen && blk*BS < len(b); blk++ {
					o := blk*BS + rng.Intn(minInt(BS, len(b)-blk*BS))
					b[o] ^= 0x20
				}
				os.WriteFile(p, b, 0644)
				line.Damage = append(line.Damage, fmt.Sprintf("long/run.bin: one byte flipped in each of blocks %d..%d of %d", start, start+runLen-1, nb))
			}
		}
		// ground truth by comparison
		for fi, f := range si.Container.Files {
			cf := c05File{Index: fi, Path: f.Path, Signed: f.Size, Diffs: [][]int64{}}
			p := filepath.Join(dir, filepath.FromSlash(f.Path))
			st, err := os.Lstat(p)
			switch {
			case err != nil:
				cf.OnDisk = "missing"
			case st.Mode()&os.ModeSymlink != 0:
				cf.OnDisk = "symlink"
			case st.IsDir():
				cf.OnDisk = "dir"
			default:
				cf.OnDisk = "file"
				a, _ := os.ReadFile(p)
				s, _ := os.ReadFile(filepath.Join(signedDir, filepath.FromSlash(f.Path)))
				cf.Actual = int64(len(a))
				cf.Diffs = diffRanges(s, a)
			}
			if cf.OnDisk != "file" || cf.Actual != cf.Signed || len(cf.Diffs) > 0 {
				line.Deviates = true
			}
			line.Files = append(line.Files, cf)
		}
		for di, dd := range si.Container.Dirs {
			e := c05Entry{Index: di, Path: dd.Path, OnDisk: "missing"}
			if st, err := os.Lstat(filepath.Join(dir, filepath.FromSlash(dd.Path))); err == nil {
				switch {
				case st.Mode()&os.ModeSymlink != 0:
					e.OnDisk = "symlink"
				case st.IsDir():
					e.OnDisk = "dir"
				default:
					e.OnDisk = "file"
				}
			}
			if e.OnDisk != "dir" {
				line.Deviates = true
			}
			line.Dirs = append(line.Dirs, e)
		}
		for si2, s := range si.Container.Symlinks {
			e := c05Entry{Index: si2, Path: s.Path, OnDisk: "missing", Dest: s.Dest}
			p := filepath.Join(dir, filepath.FromSlash(s.Path))
			if st, err := os.Lstat(p); err == nil {
				switch {
				case st.Mode()&os.ModeSymlink != 0:
					d, _ := os.Readlink(p)
					e.OnDisk = "symlink:" + d
				case st.IsDir():
					e.OnDisk = "dir"
				default:
					e.OnDisk = "file"
				}
			}
			if e.OnDisk != "symlink:"+s.Dest {
				line.Deviates = true
			}
			line.Syms = append(line.Syms, e)
		}
		ws, verr, ff := validateBoth(dir, si, root)
		line.Wounds, line.Err, line.FailFast = ws, verr, ff != ""
		w.emit(line)
		os.RemoveAll(root)
	}
	fmt.Printf("{\"lines\":%d}\n", w.n)
	return w.close()
}

var _ = bytes.Equal

func init() {
	register("c05-unit", "(signed, actual) pairs of one file at unit scale through the real Validate", cmdC05Unit)
	register("c05-tree", "damage sequences on generated builds through the real Validate", cmdC05Tree)
}

// ---------------------------------------------------------------- aggregator: model -> code

type aggW struct {
	Kind  string `json:"kind"`
	Start int64  `json:"start"`
	End   int64  `json:"end"`
}

type aggLine struct {
	Case int    `json:"case"`
	MaxW int64  `json:"maxw"`
	InW  []aggW `json:"inw"`
	OutW []aggW `json:"outw"`
}

// c05-agg: every sequence of per-block wounds (FILE / CLOSED_FILE, optionally with a missing block in between) of
// up to N blocks of B bytes through the real pwr.AggregateWounds, for every aggregate limit 1..N*B+1.
func cmdC05Agg(args []string) error {
	fs := flag.NewFlagSet("c05-agg", flag.ExitOnError)
	nblocks := fs.Int("blocks", 6, "max blocks")
	bsz := fs.Int64("b", 2, "bytes per block")
	out := fs.String("out", "c05a.ndjson", "trace output")
	fs.Parse(args)
	w, err := newNDJSON(*out)
	if err != nil {
		return err
	}
	id := 0
	for n := 0; n <= *nblocks; n++ {
		// per block: 0 = FILE wound, 1 = CLOSED_FILE (healthy), 2 = no wound at all for this block (gap)
		total := 1
		for i := 0; i < n; i++ {
			total *= 3
		}
		for code := 0; code < total; code++ {
			in := []aggW{}
			c := code
			for i := 0; i < n; i++ {
				switch c % 3 {
				case 0:
					in = append(in, aggW{"FILE", int64(i) * *bsz, int64(i+1) * *bsz})
				case 1:
					in = append(in, aggW{"CLOSED", int64(i) * *bsz, int64(i+1) * *bsz})
				}
				c /= 3
			}
			for maxw := int64(1); maxw <= int64(*nblocks)**bsz+1; maxw++ {
				outCh := make(chan *pwr.Wound, 64)
				inCh := pwr.AggregateWounds(outCh, maxw)
				for _, x := range in {
					k := pwr.WoundKind_FILE
					if x.Kind == "CLOSED" {
						k = pwr.WoundKind_CLOSED_FILE
					}
					inCh <- &pwr.Wound{Kind: k, Index: 0, Start: x.Start, End: x.End}
				}
				close(inCh)
				line := aggLine{Case: id, MaxW: maxw, InW: in, OutW: []aggW{}}
				for ow := range outCh {
					k := "FILE"
					if ow.Kind == pwr.WoundKind_CLOSED_FILE {
						k = "CLOSED"
					} else if ow.Kind != pwr.WoundKind_FILE {
						k = ow.Kind.String()
					}
					line.OutW = append(line.OutW, aggW{k, ow.Start, ow.End})
				}
				w.emit(line)
				id++
			}
		}
	}
	fmt.Printf("{\"lines\":%d}\n", w.n)
	return w.close()
}

func init() {
	register("c05-agg", "every small wound sequence through the real AggregateWounds (model -> code)", cmdC05Agg)
}
