package main

import (
	"bufio"
	"crypto/sha256"
	"encoding/hex"
	"encoding/json"
	"math/rand"
	"os"
	"strconv"
	"sync"
)

// ndjson is a line-oriented JSON writer shared by all recorders.
type ndjson struct {
	mu sync.Mutex
	f  *os.File
	w  *bufio.Writer
	n  int
}

func newNDJSON(path string) (*ndjson, error) {
	f, err := os.Create(path)
	if err != nil {
		return nil, err
	}
	return &ndjson{f: f, w: bufio.NewWriterSize(f, 1<<20)}, nil
}

func (o *ndjson) emit(v interface{}) {
	b, err := json.Marshal(v)
	if err != nil {
		panic(err)
	}
	o.mu.Lock()
	o.w.Write(b)
	o.w.WriteByte('\n')
	o.n++
	o.mu.Unlock()
}

// flush makes everything emitted so far durable (used by drivers whose real-code calls may kill the process)
func (o *ndjson) flush() {
	o.mu.Lock()
	o.w.Flush()
	o.mu.Unlock()
}

func (o *ndjson) close() error {
	if err := o.w.Flush(); err != nil {
		return err
	}
	return o.f.Close()
}

func envSeed() int64 {
	if s := os.Getenv("VERIF_SEED"); s != "" {
		if v, err := strconv.ParseInt(s, 10, 64); err == nil {
			return v
		}
	}
	return 1
}

func newRand(salt int64) *rand.Rand {
	return rand.New(rand.NewSource(envSeed()*1000003 + salt))
}

func sha(b []byte) string {
	h := sha256.Sum256(b)
	return hex.EncodeToString(h[:12])
}

// ints converts bytes to a JSON-friendly slice that is never null.
func ints(b []byte) []int {
	r := make([]int, len(b))
	for i, v := range b {
		r[i] = int(v)
	}
	return r
}

func must(err error) {
	if err != nil {
		panic(err)
	}
}
