package main

// Real-code pipeline pieces shared by the patch-level properties: diff (WritePatch), optimize (rediff),
// an independent decoder of patch streams (framing + message table), and application through
// patcher.New/Resume with a fresh or overlay bowl.

import (
	"bytes"
	"compress/gzip"
	"context"
	"encoding/binary"
	"fmt"
	"io"
	"os"
	"path/filepath"

	"github.com/golang/protobuf/proto"
	"github.com/itchio/go-brotli/dec"
	"github.com/itchio/lake"
	"github.com/itchio/lake/pools/fspool"
	"github.com/itchio/lake/tlc"
	"github.com/itchio/savior"
	"github.com/itchio/savior/seeksource"
	"github.com/itchio/wharf/bsdiff"
	"github.com/itchio/wharf/pwr"
	"github.com/itchio/wharf/pwr/bowl"
	"github.com/itchio/wharf/pwr/patcher"
	"github.com/itchio/wharf/pwr/rediff"
	"github.com/itchio/wharf/wsync"
)

type diffResult struct {
	Patch, Sig     []byte
	Target, Source *tlc.Container
	Fresh, Reused  int64
	TargetSig      []wsync.BlockHash
}

func compressionOf(algo string, q int32) *pwr.CompressionSettings {
	a := pwr.CompressionAlgorithm_NONE
	switch algo {
	case "gzip", "GZIP":
		a = pwr.CompressionAlgorithm_GZIP
	case "brotli", "BROTLI":
		a = pwr.CompressionAlgorithm_BROTLI
	}
	return &pwr.CompressionSettings{Algorithm: a, Quality: q}
}

// realDiffDirs runs the real signer + differ on two directories.
// diffEnv: ways in which the ENVIRONMENT of a diff may differ while the build pair and the settings stay the same -
// all of them allowed by the contracts the differ is written against.
type diffEnv struct {
	SrcEOF    bool // the source pool's readers return the last bytes of a file TOGETHER with io.EOF (n > 0, err == io.EOF)
	SrcChunk  int  // > 0: the source pool's readers return at most this many bytes per Read
	StoredSig bool // the old build's hashes come from a signature STREAM (a first push: diff of nothing -> old) read back with pwr.ReadSignature, as a client does, not straight from ComputeSignature
}

func (e diffEnv) String() string {
	return fmt.Sprintf("srcEOF=%v srcChunk=%d storedSig=%v", e.SrcEOF, e.SrcChunk, e.StoredSig)
}

func realDiffDirs(oldDir, newDir string, comp *pwr.CompressionSettings) (*diffResult, error) {
	return realDiffDirsEnv(oldDir, newDir, comp, diffEnv{})
}

func realDiffDirsEnv(oldDir, newDir string, comp *pwr.CompressionSettings, env diffEnv) (*diffResult, error) {
	targetContainer, err := tlc.WalkAny(oldDir, tlc.WalkOpts{})
	if err != nil {
		return nil, err
	}
	sourceContainer, err := tlc.WalkAny(newDir, tlc.WalkOpts{})
	if err != nil {
		return nil, err
	}
	var targetSig []wsync.BlockHash
	if env.StoredSig {
		var p0, s0 bytes.Buffer
		first := &pwr.DiffContext{Compression: compressionOf("NONE", 0), Consumer: nullConsumer(), SourceContainer: targetContainer,
			Pool: fspool.New(targetContainer, oldDir), TargetContainer: &tlc.Container{}, TargetSignature: []wsync.BlockHash{}}
		if err := first.WritePatch(context.Background(), &p0, &s0); err != nil {
			return nil, fmt.Errorf("first push: %v", err)
		}
		src := seeksource.FromBytes(s0.Bytes())
		if _, err := src.Resume(nil); err != nil {
			return nil, err
		}
		si, err := pwr.ReadSignature(context.Background(), src)
		if err != nil {
			return nil, fmt.Errorf("reading the stored signature: %v", err)
		}
		targetSig = si.Hashes
	} else {
		targetSig, err = pwr.ComputeSignature(context.Background(), targetContainer, fspool.New(targetContainer, oldDir), nullConsumer())
		if err != nil {
			return nil, err
		}
	}
	var pool lake.Pool = fspool.New(sourceContainer, newDir)
	if env.SrcEOF || env.SrcChunk > 0 {
		pool = &shortReadPool{Pool: pool, n: env.SrcChunk, dataWithEOF: env.SrcEOF}
	}
	dctx := &pwr.DiffContext{
		Compression:     comp,
		Consumer:        nullConsumer(),
		SourceContainer: sourceContainer,
		Pool:            pool,
		TargetContainer: targetContainer,
		TargetSignature: targetSig,
	}
	var patch, sig bytes.Buffer
	if err := dctx.WritePatch(context.Background(), &patch, &sig); err != nil {
		return nil, err
	}
	return &diffResult{Patch: patch.Bytes(), Sig: sig.Bytes(), Target: targetContainer, Source: sourceContainer,
		Fresh: dctx.FreshBytes, Reused: dctx.ReusedBytes, TargetSig: targetSig}, nil
}

type optPools struct{ Target, Source lake.Pool }

type optParams struct {
	Partitions  int
	Concurrency int
	ForceMapAll bool
	SizeLimit   int64
	Comp        *pwr.CompressionSettings
	Pools       *optPools // non-nil: pools shared by several optimizations (created and read through on first use)
	Again       *[]byte   // non-nil: Optimize is called a second time on the same context; its output goes here
}

func realOptimize(patch []byte, oldDir, newDir string, op optParams) ([]byte, rediff.DiffMappings, error) {
	rc, err := rediff.NewContext(rediff.Params{
		Consumer:              nullConsumer(),
		PatchReader:           seeksource.FromBytes(patch),
		Partitions:            op.Partitions,
		SuffixSortConcurrency: op.Concurrency,
		ForceMapAll:           op.ForceMapAll,
		RediffSizeLimit:       op.SizeLimit,
		Compression:           op.Comp,
	})
	if err != nil {
		return nil, nil, err
	}
	// the pools: fresh ones, or - op.Pools - pools that live across several optimizations and have been read before
	// (a caller sweeping settings over one patch, or one that looked at the builds through the same pools)
	var tp, sp lake.Pool
	if op.Pools != nil {
		if op.Pools.Target == nil {
			op.Pools.Target = fspool.New(rc.GetTargetContainer(), oldDir)
			op.Pools.Source = fspool.New(rc.GetSourceContainer(), newDir)
			// (history: every file of both builds read to its end through the pools)
			for i := range rc.GetTargetContainer().Files {
				if r, err := op.Pools.Target.GetReadSeeker(int64(i)); err == nil {
					io.Copy(io.Discard, r)
				}
			}
			for i := range rc.GetSourceContainer().Files {
				if r, err := op.Pools.Source.GetReadSeeker(int64(i)); err == nil {
					io.Copy(io.Discard, r)
				}
			}
		}
		tp, sp = op.Pools.Target, op.Pools.Source
	} else {
		tp, sp = fspool.New(rc.GetTargetContainer(), oldDir), fspool.New(rc.GetSourceContainer(), newDir)
	}
	var out bytes.Buffer
	err = rc.Optimize(rediff.OptimizeParams{TargetPool: tp, SourcePool: sp, PatchWriter: &out})
	if err != nil {
		return nil, rc.GetDiffMappings(), err
	}
	if op.Again != nil {
		// the same context optimizes the same patch once more, with the same pools
		var out2 bytes.Buffer
		if err := rc.Optimize(rediff.OptimizeParams{TargetPool: tp, SourcePool: sp, PatchWriter: &out2}); err != nil {
			return nil, rc.GetDiffMappings(), fmt.Errorf("second Optimize of the same context: %v", err)
		}
		*op.Again = out2.Bytes()
	}
	return out.Bytes(), rc.GetDiffMappings(), nil
}

// eofPool: the old build is read through readers that hand over the LAST bytes of a file together with io.EOF
// (n > 0, err == io.EOF) - what the io.Reader contract allows and a pool over an archive or a network store does.
type eofPool struct{ lake.Pool }

type eofSeeker struct {
	rs   io.ReadSeeker
	size int64
	pos  int64
}

func (e *eofSeeker) Read(p []byte) (int, error) {
	n, err := e.rs.Read(p)
	e.pos += int64(n)
	if err == nil && n > 0 && e.pos >= e.size {
		err = io.EOF
	}
	return n, err
}

func (e *eofSeeker) Seek(off int64, whence int) (int64, error) {
	n, err := e.rs.Seek(off, whence)
	if err == nil {
		e.pos = n
	}
	return n, err
}

func (p *eofPool) wrap(rs io.ReadSeeker) (io.ReadSeeker, error) {
	size, err := rs.Seek(0, io.SeekEnd)
	if err != nil {
		return nil, err
	}
	if _, err := rs.Seek(0, io.SeekStart); err != nil {
		return nil, err
	}
	return &eofSeeker{rs: rs, size: size}, nil
}

func (p *eofPool) GetReadSeeker(i int64) (io.ReadSeeker, error) {
	rs, err := p.Pool.GetReadSeeker(i)
	if err != nil {
		return nil, err
	}
	return p.wrap(rs)
}

func (p *eofPool) GetReader(i int64) (io.Reader, error) {
	rs, err := p.Pool.GetReadSeeker(i)
	if err != nil {
		return nil, err
	}
	return p.wrap(rs)
}

// ---------------------------------------------------------------- independent decoder

type pmsg struct {
	K     string `json:"k"`     // SH | OP | BH | CTL
	Start int64  `json:"start"` // offset of the message in the decompressed stream (0 = first byte after the header)
	End   int64  `json:"end"`
	// SH
	Fi int64  `json:"fi"`
	Ty string `json:"ty"` // SH: R | B ; OP: BR | DATA | END | type<N>
	// OP
	F   int64 `json:"f"`
	I   int64 `json:"i"`
	N   int64 `json:"n"`
	Len int64 `json:"len"` // DATA: payload length; CTL: add+copy
	// CTL / BH
	Add  int64 `json:"add"`
	Copy int64 `json:"copy"`
	Seek int64 `json:"seek"`
	EOF  bool  `json:"eof"`
	Tgt  int64 `json:"tgt"`
	// digests of payloads (DATA / copy sections) for fact checks
	Sha string `json:"sha,omitempty"`

	data []byte // DATA payload / CTL add,copy kept for the harness
	add  []byte
}

type decoded struct {
	Comp           *pwr.CompressionSettings
	Target, Source *tlc.Container
	Msgs           []pmsg
	Raw            []byte // the decompressed stream after the header
	HeaderEnd      int    // offset in the compressed file at which the compressed section starts
	ContainersEnd  int64  // offset in Raw after the two containers
	Complete       bool   // the stream was consumed exactly
	Err            string
}

func readFramed(b []byte, off int) (msg []byte, next int, ok bool) {
	l, n := binary.Uvarint(b[off:])
	if n <= 0 || off+n+int(l) > len(b) {
		return nil, off, false
	}
	return b[off+n : off+n+int(l)], off + n + int(l), true
}

func decompressAll(algo pwr.CompressionAlgorithm, b []byte) ([]byte, error) {
	switch algo {
	case pwr.CompressionAlgorithm_NONE:
		return b, nil
	case pwr.CompressionAlgorithm_GZIP:
		zr, err := gzip.NewReader(bytes.NewReader(b))
		if err != nil {
			return nil, err
		}
		return io.ReadAll(zr)
	case pwr.CompressionAlgorithm_BROTLI:
		// (the one-shot dec.DecompressBuffer gives up on highly compressible streams)
		return io.ReadAll(dec.NewBrotliReader(bytes.NewReader(b)))
	}
	return nil, fmt.Errorf("unknown compression %v", algo)
}

// decodePatch parses a patch file without wharf's wire reader or patcher.
func decodePatch(patch []byte) *decoded {
	d := &decoded{}
	fail := func(f string, a ...interface{}) *decoded { d.Err = fmt.Sprintf(f, a...); return d }
	if len(patch) < 4 || int32(binary.LittleEndian.Uint32(patch[:4])) != pwr.PatchMagic {
		return fail("bad magic")
	}
	hb, off, ok := readFramed(patch, 4)
	if !ok {
		return fail("truncated header")
	}
	h := &pwr.PatchHeader{}
	if err := proto.Unmarshal(hb, h); err != nil {
		return fail("header: %v", err)
	}
	d.Comp = h.Compression
	d.HeaderEnd = off
	algo := pwr.CompressionAlgorithm_NONE
	if h.Compression != nil {
		algo = h.Compression.Algorithm
	}
	raw, err := decompressAll(algo, patch[off:])
	if err != nil {
		return fail("decompress: %v", err)
	}
	d.Raw = raw
	pos := 0
	next := func() ([]byte, int, int, bool) {
		m, n, ok := readFramed(raw, pos)
		s := pos
		if ok {
			pos = n
		}
		return m, s, n, ok
	}
	tb, _, _, ok := next()
	if !ok {
		return fail("truncated target container")
	}
	d.Target = &tlc.Container{}
	if err := proto.Unmarshal(tb, d.Target); err != nil {
		return fail("target container: %v", err)
	}
	sb, _, _, ok := next()
	if !ok {
		return fail("truncated source container")
	}
	d.Source = &tlc.Container{}
	if err := proto.Unmarshal(sb, d.Source); err != nil {
		return fail("source container: %v", err)
	}
	d.ContainersEnd = int64(pos)
	for fi := 0; fi < len(d.Source.Files); fi++ {
		mb, s, e, ok := next()
		if !ok {
			return fail("truncated at sync header of file %d", fi)
		}
		sh := &pwr.SyncHeader{}
		if err := proto.Unmarshal(mb, sh); err != nil {
			return fail("sync header: %v", err)
		}
		m := pmsg{K: "SH", Start: int64(s), End: int64(e), Fi: sh.FileIndex, Ty: "R"}
		if sh.Type == pwr.SyncHeader_BSDIFF {
			m.Ty = "B"
		} else if sh.Type != pwr.SyncHeader_RSYNC {
			m.Ty = fmt.Sprintf("type%d", sh.Type)
		}
		d.Msgs = append(d.Msgs, m)
		if sh.Type == pwr.SyncHeader_BSDIFF {
			mb, s, e, ok := next()
			if !ok {
				return fail("truncated at bsdiff header")
			}
			bh := &pwr.BsdiffHeader{}
			if err := proto.Unmarshal(mb, bh); err != nil {
				return fail("bsdiff header: %v", err)
			}
			d.Msgs = append(d.Msgs, pmsg{K: "BH", Start: int64(s), End: int64(e), Tgt: bh.TargetIndex})
			for {
				mb, s, e, ok := next()
				if !ok {
					return fail("truncated in bsdiff series")
				}
				c := &bsdiff.Control{}
				if err := proto.Unmarshal(mb, c); err != nil {
					return fail("control: %v", err)
				}
				cm := pmsg{K: "CTL", Start: int64(s), End: int64(e), Add: int64(len(c.Add)), Copy: int64(len(c.Copy)), Seek: c.Seek, EOF: c.Eof,
					Len: int64(len(c.Add) + len(c.Copy)), data: c.Copy, add: c.Add}
				d.Msgs = append(d.Msgs, cm)
				if c.Eof {
					break
				}
			}
		}
		for {
			mb, s, e, ok := next()
			if !ok {
				return fail("truncated in series of file %d", fi)
			}
			op := &pwr.SyncOp{}
			if err := proto.Unmarshal(mb, op); err != nil {
				return fail("sync op: %v", err)
			}
			om := pmsg{K: "OP", Start: int64(s), End: int64(e), F: op.FileIndex, I: op.BlockIndex, N: op.BlockSpan}
			switch op.Type {
			case pwr.SyncOp_BLOCK_RANGE:
				om.Ty = "BR"
			case pwr.SyncOp_DATA:
				om.Ty = "DATA"
				om.Len = int64(len(op.Data))
				om.data = op.Data
				om.Sha = sha(op.Data)
			case pwr.SyncOp_HEY_YOU_DID_IT:
				om.Ty = "END"
			default:
				om.Ty = fmt.Sprintf("type%d", op.Type)
			}
			d.Msgs = append(d.Msgs, om)
			if op.Type == pwr.SyncOp_HEY_YOU_DID_IT {
				break
			}
		}
	}
	d.Complete = pos == len(raw)
	return d
}

// ---------------------------------------------------------------- apply

type applyOpts struct {
	Bowl         string // fresh | overlay
	OldDir       string // the old build (fresh: read-only target; overlay: patched in place)
	OutDir       string // fresh: output folder
	StageDir     string // overlay: stage folder
	Consumer     patcher.SaveConsumer
	Whitelist    map[int64]bool
	From         *patcher.Checkpoint
	NoCommit     bool
	WrapPool     func(lake.Pool, *tlc.Container) lake.Pool // e.g. safekeeper / recording pool
	WrapBowl     func(bowl.Bowl) bowl.Bowl
	BeforeCommit func()
	// Interrupt > 0: the save consumer stops the application at its first Interrupt checkpoints; each time the SAME
	// patcher is resumed from a gob round trip of that checkpoint with a new pool and a new bowl
	Interrupt int
	Stops     *int
	// OldEOF: the old build is served by readers that return the last bytes of a file together with io.EOF
	OldEOF bool
	// Gran > 1: the patch source restarts only at multiples of Gran (savior.Source.Resume returns where it really is)
	Gran int64
}

type applyResult struct {
	Err     error
	Touched int64
	Stopped bool
	P       patcher.Patcher
}

func realApplyPatch(patch []byte, o applyOpts) *applyResult {
	res := &applyResult{}
	var src savior.SeekSource = seeksource.FromBytes(patch)
	if o.Gran > 1 {
		src = &coarseSource{SeekSource: src, gran: o.Gran}
	}
	p, err := patcher.New(src, nullConsumer())
	if err != nil {
		res.Err = err
		return res
	}
	res.P = p
	mkPool := func() lake.Pool {
		var tp lake.Pool = fspool.New(p.GetTargetContainer(), o.OldDir)
		if o.OldEOF {
			tp = &eofPool{Pool: tp}
		}
		if o.WrapPool != nil {
			tp = o.WrapPool(tp, p.GetTargetContainer())
		}
		return tp
	}
	mkBowl := func(targetPool lake.Pool) (bowl.Bowl, error) {
		var b bowl.Bowl
		var err error
		if o.Bowl == "overlay" {
			b, err = bowl.NewOverlayBowl(bowl.OverlayBowlParams{
				TargetContainer: p.GetTargetContainer(),
				SourceContainer: p.GetSourceContainer(),
				OutputFolder:    o.OldDir,
				StageFolder:     o.StageDir,
				Consumer:        nullConsumer(),
			})
		} else {
			b, err = bowl.NewFreshBowl(bowl.FreshBowlParams{
				TargetContainer: p.GetTargetContainer(),
				SourceContainer: p.GetSourceContainer(),
				TargetPool:      targetPool,
				OutputFolder:    o.OutDir,
			})
		}
		if err == nil && o.WrapBowl != nil {
			b = o.WrapBowl(b)
		}
		return b, err
	}
	targetPool := mkPool()
	b, err := mkBowl(targetPool)
	if err != nil {
		res.Err = err
		return res
	}
	if o.Consumer != nil {
		p.SetSaveConsumer(o.Consumer)
	}
	if o.Whitelist != nil {
		p.SetSourceIndexWhitelist(o.Whitelist)
	}
	var stoppedAt []byte
	stops := 0
	if o.Interrupt > 0 {
		p.SetSaveConsumer(&saveConsumer{should: func() bool { return true }, save: func(c *patcher.Checkpoint) (patcher.AfterSaveAction, error) {
			if stops < o.Interrupt {
				if gb, gerr := gobCheckpoint(c); gerr == nil {
					stoppedAt = gb
					stops++
					return patcher.AfterSaveStop, nil
				}
			}
			return patcher.AfterSaveContinue, nil
		}})
	}
	err = p.Resume(o.From, targetPool, b)
	for o.Interrupt > 0 && err != nil && causeIs(err, patcher.ErrStop) && stoppedAt != nil {
		cp, gerr := ungobCheckpoint(stoppedAt)
		if gerr != nil {
			err = gerr
			break
		}
		stoppedAt = nil
		b.Close()
		targetPool = mkPool()
		if b, err = mkBowl(targetPool); err != nil {
			break
		}
		err = p.Resume(cp, targetPool, b)
	}
	if o.Stops != nil {
		*o.Stops = stops
	}
	res.Touched = p.GetTouchedFiles()
	if err != nil {
		if err == patcher.ErrStop || fmt.Sprint(err) == fmt.Sprint(patcher.ErrStop) || causeIs(err, patcher.ErrStop) {
			res.Stopped = true
		}
		res.Err = err
		if b != nil {
			b.Close()
		}
		return res
	}
	if o.BeforeCommit != nil {
		o.BeforeCommit()
	}
	if !o.NoCommit {
		if err := b.Commit(); err != nil {
			res.Err = fmt.Errorf("commit: %w", err)
			b.Close()
			return res
		}
	}
	if err := b.Close(); err != nil {
		res.Err = fmt.Errorf("close: %w", err)
	}
	return res
}

func causeIs(err, target error) bool {
	type causer interface{ Cause() error }
	for err != nil {
		if err == target {
			return true
		}
		c, ok := err.(causer)
		if !ok {
			return false
		}
		err = c.Cause()
	}
	return false
}

// workDirs creates a scratch root with old/new materialised; caller removes root.
func materialisePair(old, new *tree) (root, oldDir, newDir string, err error) {
	root, err = os.MkdirTemp("", "vpair-")
	if err != nil {
		return
	}
	oldDir, newDir = filepath.Join(root, "old"), filepath.Join(root, "new")
	if err = writeTree(oldDir, old); err != nil {
		return
	}
	err = writeTree(newDir, new)
	return
}
