package main

// C19: archive -> extract round trips (zip with 1..16 / -1 workers, tar) and resumable zip extraction interrupted
// at chosen instants: a crash is a copy of the destination folder and of the resume file taken from inside the
// OnEntryDone callback while the other workers keep running; an io.ReaderAt wrapper slows down reads of the first
// (large) entry so that later entries complete first.

import (
	"bytes"
	"flag"
	"fmt"
	"io"
	"math/rand"
	"os"
	"path/filepath"
	"sync"
	"sync/atomic"
	"time"

	azip "github.com/itchio/arkive/zip"
	"github.com/itchio/lake/tlc"
	"github.com/itchio/lake/pools/fspool"
	"github.com/itchio/wharf/archiver/containerarchiver"
	"github.com/itchio/wharf/archiver"
)

// gateAt blocks reads inside the data of chosen entries until their gate is opened: the completion ORDER of
// entries held by different workers is then chosen by the driver (a scheduler gate that needs no hook).
type gateAt struct {
	r     io.ReaderAt
	gates []*entryGate
}

type entryGate struct {
	index  int
	name   string
	lo, hi int64
	ch     chan struct{}
	once   sync.Once
}

func (g *entryGate) open() { g.once.Do(func() { close(g.ch) }) }

func (s *gateAt) ReadAt(p []byte, off int64) (int, error) {
	for _, g := range s.gates {
		// the entry's first data read starts exactly at its data offset (other reads may overlap the range: every
		// worker reads the tail of the archive to find the central directory)
		if off == g.lo {
			<-g.ch
		}
	}
	return s.r.ReadAt(p, off)
}

type c19Line struct {
	Case     int      `json:"case"`
	Kind     string   `json:"kind"` // zip | tar | zip-resume
	Desc     string   `json:"desc"`
	Workers  int      `json:"workers"`
	Err      string   `json:"err"`
	Want     []string `json:"want"`
	Out      []string `json:"out"`
	Dirs     int      `json:"dirs"`
	Files    int      `json:"files"`
	Syms     int      `json:"syms"`
	WantDirs int      `json:"wantdirs"`
	WantFiles int     `json:"wantfiles"`
	WantSyms int      `json:"wantsyms"`
	// resume
	CrashAt   int    `json:"crashat"`   // the crash snapshot was taken inside the CrashAt-th OnEntryDone call
	ResumeVal string `json:"resumeval"` // content of the resume file in the snapshot ("" = none)
	Partial   []string `json:"partial"` // entries incomplete in the snapshot
	RestartErr string `json:"restarterr"`
	ResumeFileLeft bool `json:"resumefileleft"`
	Gated     string `json:"gated"` // gated scenario: held entries and the order in which they were let go
}

// slowAt delays reads inside [lo,hi) of the archive (the data of the first entry).
type slowAt struct {
	r      io.ReaderAt
	lo, hi int64
	delay  time.Duration
	on     *int32
}

func (s *slowAt) ReadAt(p []byte, off int64) (int, error) {
	if atomic.LoadInt32(s.on) == 1 && off >= s.lo && off < s.hi {
		time.Sleep(s.delay)
	}
	return s.r.ReadAt(p, off)
}

func genArchiveTree(rng *rand.Rand, k int) (*tree, string) {
	t := newTree()
	desc := ""
	switch k % 4 {
	case 0: // many small files so that workers finish out of order
		for i := 0; i < 150+rng.Intn(200); i++ {
			t.Files[fmt.Sprintf("many/d%02d/f%04d.txt", i%13, i)] = randBytes(rng, rng.Intn(200))
		}
		desc = "many-small"
	case 1:
		b, d := genBuild(rng, k)
		t, desc = b, "build:"+d
	case 2: // nested and empty dirs, empty files, symlinks
		t.Dirs["empty/a/b/c"] = true
		t.Dirs["empty2"] = true
		t.Files["nested/x/y/z/deep.bin"] = randBytes(rng, 70000)
		t.Files["nested/x/empty.bin"] = []byte{}
		t.Files["top.bin"] = randBytes(rng, 10)
		t.Symlinks["nested/link-to-deep"] = "x/y/z/deep.bin"
		t.Symlinks["dangling"] = "nowhere"
		oddNamesTree(t, rng)
		desc = "nested-empty-links-odd-names"
	default: // one large first entry, then small ones
		t.Files["a_big.bin"] = randBytes(rng, 3<<20)
		for i := 0; i < 12; i++ {
			t.Files[fmt.Sprintf("b/small%02d.bin", i)] = randBytes(rng, 1000+rng.Intn(3000))
		}
		t.Symlinks["b/link"] = "small00.bin"
		t.Dirs["c-empty"] = true
		desc = "big-first"
	}
	return t, desc
}

func countEntries(s map[string]snapEntry) (d, f, l int) {
	for _, e := range s {
		switch e.Kind {
		case "dir":
			d++
		case "file":
			f++
		case "symlink":
			l++
		}
	}
	return
}

func cmdC19(args []string) error {
	fs := flag.NewFlagSet("c19", flag.ExitOnError)
	n := fs.Int("n", 10, "cases")
	first := fs.Int("first", 0, "first case")
	out := fs.String("out", "c19.ndjson", "trace output")
	fs.Parse(args)
	w, err := newNDJSON(*out)
	if err != nil {
		return err
	}
	workerChoices := []int{1, 2, 3, 4, 8, 16, -1}
	for k := *first; k < *first+*n; k++ {
		rng := newRand(int64(19000 + k))
		t, desc := genArchiveTree(rng, k)
		root, err := os.MkdirTemp("", "c19-")
		if err != nil {
			return err
		}
		src := filepath.Join(root, "src")
		if err := writeTree(src, t); err != nil {
			return err
		}
		want, _ := snapshot(src)
		wd, wf, wl := countEntries(want)
		wantList := snapList(want)
		mk := func(kind string, workers int) c19Line {
			return c19Line{Case: k, Kind: kind, Desc: desc, Workers: workers, Want: wantList, Out: []string{}, Partial: []string{}, WantDirs: wd, WantFiles: wf, WantSyms: wl}
		}
		// ---- zip round trips
		var zb bytes.Buffer
		if _, err := archiver.CompressZip(&zb, src, nullConsumer()); err != nil {
			return fmt.Errorf("CompressZip: %v", err)
		}
		zbytes := zb.Bytes()
		for _, workers := range []int{workerChoices[rng.Intn(len(workerChoices))], workerChoices[rng.Intn(len(workerChoices))]} {
			line := mk("zip", workers)
			dst := filepath.Join(root, fmt.Sprintf("out-zip-%d", workers))
			res, err := archiver.ExtractZip(bytes.NewReader(zbytes), int64(len(zbytes)), dst, archiver.ExtractSettings{Consumer: nullConsumer(), Concurrency: workers})
			if err != nil {
				line.Err = err.Error()
			} else {
				line.Dirs, line.Files, line.Syms = res.Dirs, res.Files, res.Symlinks
			}
			if s, err := snapshot(dst); err == nil {
				line.Out = snapList(s)
			}
			os.RemoveAll(dst)
			w.emit(line)
		}
		// ---- the container-based zip writer (archiver/containerarchiver): the tree as a tlc container read through a
		// pool. The pool object may have a history (the caller looked at a file through it, or archived once already).
		{
			cont, err := tlc.WalkAny(src, tlc.WalkOpts{})
			if err != nil {
				return err
			}
			pool := fspool.New(cont, src)
			hist := []string{"fresh-pool", "peeked-at-first-file", "second-archive-from-same-pool", "read-last-file-first"}[k%4]
			switch hist {
			case "peeked-at-first-file":
				if len(cont.Files) > 0 {
					if r, err := pool.GetReadSeeker(0); err == nil {
						io.ReadFull(r, make([]byte, 16))
					}
				}
			case "second-archive-from-same-pool":
				containerarchiver.CompressZip(io.Discard, cont, pool, nullConsumer())
			case "read-last-file-first":
				if n := len(cont.Files); n > 0 {
					if r, err := pool.GetReader(int64(n - 1)); err == nil {
						io.Copy(io.Discard, r)
					}
				}
			}
			var cz bytes.Buffer
			line := mk("zip", 1+rng.Intn(4))
			line.Desc = desc + ",containerarchiver:" + hist
			if _, err := containerarchiver.CompressZip(&cz, cont, pool, nullConsumer()); err != nil {
				line.Err = "containerarchiver.CompressZip: " + err.Error()
			}
			pool.Close()
			dst := filepath.Join(root, "out-czip")
			if line.Err == "" {
				res, err := archiver.ExtractZip(bytes.NewReader(cz.Bytes()), int64(cz.Len()), dst, archiver.ExtractSettings{Consumer: nullConsumer(), Concurrency: line.Workers})
				if err != nil {
					line.Err = err.Error()
				} else {
					line.Dirs, line.Files, line.Syms = res.Dirs, res.Files, res.Symlinks
				}
			}
			if s, err := snapshot(dst); err == nil {
				line.Out = snapList(s)
			}
			os.RemoveAll(dst)
			w.emit(line)
		}
		// ---- tar round trip
		if k%2 == 0 {
			line := mk("tar", 1)
			tp := filepath.Join(root, "a.tar")
			f, _ := os.Create(tp)
			if _, err := archiver.CompressTar(f, src, nullConsumer()); err != nil {
				line.Err = "CompressTar: " + err.Error()
			}
			f.Close()
			dst := filepath.Join(root, "out-tar")
			if line.Err == "" {
				res, err := archiver.ExtractTar(tp, dst, archiver.ExtractSettings{Consumer: nullConsumer()})
				if err != nil {
					line.Err = err.Error()
				} else {
					line.Dirs, line.Files, line.Syms = res.Dirs, res.Files, res.Symlinks
				}
			}
			if s, err := snapshot(dst); err == nil {
				line.Out = snapList(s)
			}
			os.RemoveAll(dst)
			w.emit(line)
		}
		// ---- interrupted resumable extraction
		nonDir := wf + wl
		if nonDir > 0 {
			for rep := 0; rep < 2; rep++ {
				workers := []int{1, 2, 3, 4, 8}[rng.Intn(5)]
				line := mk("zip-resume", workers)
				line.CrashAt = 1 + rng.Intn(nonDir)
				if k%4 == 3 { // the large first entry is slow: later entries complete first
					line.CrashAt = 2 + rng.Intn(4)
				}
				dst := filepath.Join(root, fmt.Sprintf("out-res-%d", rep))
				resumeFile := filepath.Join(root, fmt.Sprintf("resume-%d", rep))
				crashDir := filepath.Join(root, fmt.Sprintf("crash-%d", rep))
				crashResume := filepath.Join(root, fmt.Sprintf("crash-resume-%d", rep))
				var mu sync.Mutex
				calls := 0
				on := int32(1)
				var ra io.ReaderAt = bytes.NewReader(zbytes)
				if k%4 == 3 {
					ra = &slowAt{r: ra, lo: 0, hi: 3 << 20, delay: 300 * time.Microsecond, on: &on}
				}
				settings := archiver.ExtractSettings{Consumer: nullConsumer(), Concurrency: workers, ResumeFrom: resumeFile,
					OnEntryDone: func(string) {
						mu.Lock()
						calls++
						c := calls
						mu.Unlock()
						if c == line.CrashAt {
							// what a kill at this instant leaves behind. The resume file is read FIRST: the folder copy is
							// then at least as complete as it was when the resume file had this value (entries only ever
							// get more complete within a run), so a restart that goes wrong on this pair also goes wrong on
							// the pair a kill at the instant of the read leaves.
							if b, err := os.ReadFile(resumeFile); err == nil {
								line.ResumeVal = string(b)
								os.WriteFile(crashResume, b, 0644)
							}
							os.MkdirAll(crashDir, 0755)
							copyDir(dst, crashDir)
							atomic.StoreInt32(&on, 0)
						}
					}}
				if _, err := archiver.ExtractZip(ra, int64(len(zbytes)), dst, settings); err != nil {
					line.Err = "first run: " + err.Error()
				}
				if cs, err := snapshot(crashDir); err == nil {
					for _, d := range diffSnap(want, cs) {
						line.Partial = append(line.Partial, d)
					}
					if len(line.Partial) > 12 {
						line.Partial = line.Partial[:12]
					}
					// restart on what the crash left
					res, err := archiver.ExtractZip(bytes.NewReader(zbytes), int64(len(zbytes)), crashDir, archiver.ExtractSettings{Consumer: nullConsumer(), Concurrency: workers, ResumeFrom: crashResume})
					if err != nil {
						line.RestartErr = err.Error()
					} else {
						line.Dirs, line.Files, line.Syms = res.Dirs, res.Files, res.Symlinks
					}
					if s, err := snapshot(crashDir); err == nil {
						line.Out = snapList(s)
					}
					if _, err := os.Stat(crashResume); err == nil {
						line.ResumeFileLeft = true
					}
				} else {
					line.Err += " no crash snapshot (fewer OnEntryDone calls than expected)"
				}
				os.RemoveAll(dst)
				os.RemoveAll(crashDir)
				w.emit(line)
			}
		}
		// ---- interrupted resumable extraction with a CHOSEN completion order: several entries are held inside their
		// data (each blocks one worker) while everything else completes; they are then let go one at a time in a
		// seeded order, and the kill is taken right after one of them completed while others are still in flight.
		if zr, err := azip.NewReader(bytes.NewReader(zbytes), int64(len(zbytes))); err == nil {
			cands := []*entryGate{}
			nonDirEntries := 0
			for i, f := range zr.File {
				if f.FileInfo().IsDir() {
					continue
				}
				nonDirEntries++
				if f.FileInfo().Mode()&os.ModeSymlink == 0 && f.CompressedSize64 >= 1 {
					if off, err := f.DataOffset(); err == nil {
						cands = append(cands, &entryGate{index: i, name: f.Name, lo: off, hi: off + int64(f.CompressedSize64)})
					}
				}
			}
			for rep := 0; rep < 2 && len(cands) >= 3 && nonDirEntries >= 4; rep++ {
				workers := []int{3, 4, 8, 16}[rng.Intn(4)]
				nheld := 2
				if workers >= 4 && len(cands) >= 4 && rng.Intn(2) == 0 {
					nheld = 3
				}
				// hold entries early in the archive (so that many later entries complete behind them)
				pool := cands
				if len(pool) > 8 {
					pool = pool[:8]
				}
				perm := rng.Perm(len(pool))[:nheld]
				held := []*entryGate{}
				for _, pi := range perm {
					g := pool[pi]
					held = append(held, &entryGate{index: g.index, name: g.name, lo: g.lo, hi: g.hi, ch: make(chan struct{})})
				}
				// held is in RELEASE order; the kill comes after the killAfter-th release completed
				killAfter := 1 + rng.Intn(nheld-1)
				line := mk("zip-resume", workers)
				line.CrashAt = killAfter
				desc := ""
				for _, g := range held {
					desc += fmt.Sprintf("%d ", g.index)
				}
				if os.Getenv("VERIF_DEBUG") != "" {
					for _, g := range held {
						fmt.Fprintf(os.Stderr, "gate %d %s [%d,%d)\n", g.index, g.name, g.lo, g.hi)
					}
				}
				line.Gated = fmt.Sprintf("held entries (release order) %s- killed after release %d completed", desc, killAfter)
				dst := filepath.Join(root, fmt.Sprintf("out-gate-%d", rep))
				resumeFile := filepath.Join(root, fmt.Sprintf("gresume-%d", rep))
				crashDir := filepath.Join(root, fmt.Sprintf("gcrash-%d", rep))
				crashResume := filepath.Join(root, fmt.Sprintf("gcrash-resume-%d", rep))
				heldName := map[string]int{}
				for i, g := range held {
					heldName[filepath.ToSlash(g.name)] = i
				}
				var mu sync.Mutex
				others, released, snapped := 0, 0, false
				freeCount := nonDirEntries - nheld
				openAll := func() {
					for _, g := range held {
						g.open()
					}
				}
				// a held entry that never gets read (should not happen) must not wedge the driver
				watchdog := time.AfterFunc(8*time.Second, openAll)
				settings := archiver.ExtractSettings{Consumer: nullConsumer(), Concurrency: workers, ResumeFrom: resumeFile,
					OnEntryDone: func(name string) {
						mu.Lock()
						defer mu.Unlock()
						if os.Getenv("VERIF_DEBUG") != "" {
							fmt.Fprintf(os.Stderr, "done %s others=%d released=%d\n", name, others, released)
						}
						if hi, ok := heldName[name]; ok {
							if hi == released-1 && !snapped && released == killAfter {
								snapped = true
								if b, err := os.ReadFile(resumeFile); err == nil {
									line.ResumeVal = string(b)
									os.WriteFile(crashResume, b, 0644)
								}
								os.MkdirAll(crashDir, 0755)
								copyDir(dst, crashDir)
								openAll()
								return
							}
							if released < nheld && !snapped {
								held[released].open()
								released++
							}
							return
						}
						others++
						if others == freeCount && released == 0 {
							held[0].open()
							released = 1
						}
					}}
				if _, err := archiver.ExtractZip(&gateAt{r: bytes.NewReader(zbytes), gates: held}, int64(len(zbytes)), dst, settings); err != nil {
					line.Err = "first run: " + err.Error()
				}
				watchdog.Stop()
				if cs, err := snapshot(crashDir); err == nil {
					for _, d := range diffSnap(want, cs) {
						line.Partial = append(line.Partial, d)
					}
					if len(line.Partial) > 12 {
						line.Partial = line.Partial[:12]
					}
					res, err := archiver.ExtractZip(bytes.NewReader(zbytes), int64(len(zbytes)), crashDir, archiver.ExtractSettings{Consumer: nullConsumer(), Concurrency: workers, ResumeFrom: crashResume})
					if err != nil {
						line.RestartErr = err.Error()
					} else {
						line.Dirs, line.Files, line.Syms = res.Dirs, res.Files, res.Symlinks
					}
					if s, err := snapshot(crashDir); err == nil {
						line.Out = snapList(s)
					}
					if _, err := os.Stat(crashResume); err == nil {
						line.ResumeFileLeft = true
					}
				} else {
					// the gated schedule did not play out (the watchdog opened the gates): nothing to judge
					fmt.Fprintf(os.Stderr, "c19: case %d: gated schedule did not play out (%s)\n", k, line.Gated)
					os.RemoveAll(dst)
					continue
				}
				os.RemoveAll(dst)
				os.RemoveAll(crashDir)
				w.emit(line)
			}
		}
		os.RemoveAll(root)
	}
	fmt.Printf("{\"lines\":%d}\n", w.n)
	return w.close()
}

func init() {
	register("c19", "zip / tar round trips and interrupted resumable zip extraction", cmdC19)
}
