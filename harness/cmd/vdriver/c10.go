package main

// C10: malformed patch / signature / overlay streams through the real readers.
//
// A case is a sequence of WIRE-LEVEL messages (protobuf field number -> value, as in spec/Malformed.tla) plus an
// optional truncation. The stream is written with the real wire.WriteContext (real magic, header, containers,
// framing, real compressors) - a mutated message is an empty message carrying raw unknown fields, which marshals
// to exactly those bytes - and handed to patcher.New/Resume (fresh bowl, overlay bowl, empty whitelist),
// rediff.NewContext/Optimize, pwr.ReadSignature + ComputeHashInfo, overlay Patch, under recover() and a watchdog.
//
//   -mode replay   the cases TLC enumerated (EDGE lines of MC_Malformed)
//   -mode gen      seeded multi-mutations with extreme values over several universes whose valid streams come
//                  from the real differ / optimizer / signer
//   -mode trunc    every byte truncation of the valid streams (sampled inside large payloads), plus truncations
//                  of the compressed framings

import (
	"bufio"
	"bytes"
	"context"
	"encoding/json"
	"flag"
	"fmt"
	"math"
	"math/rand"
	"os"
	"path/filepath"
	"runtime/debug"
	"strings"
	"time"

	"github.com/golang/protobuf/proto"
	"github.com/itchio/lake/tlc"
	"github.com/itchio/savior/seeksource"
	"github.com/itchio/wharf/pwr"
	"github.com/itchio/wharf/pwr/overlay"
	"github.com/itchio/wharf/pwr/patcher"
	"github.com/itchio/wharf/wire"
	"github.com/itchio/wharf/wsync"
	"google.golang.org/protobuf/encoding/protowire"
	"google.golang.org/protobuf/types/known/emptypb"
)

const (
	c10Huge     = int64(1) << 30 // what the trace (and the model) calls huge
	c10HugeReal = int64(1) << 40 // what a model-generated "huge" becomes in the stream
	c10End      = 2049
	c10OvEnd    = 2040
)

type wmsg struct {
	V1  int64 `json:"v1"`
	E1  int64 `json:"e1"` // field 1 as an enum reader sees it: the low 32 bits
	V2  int64 `json:"v2"`
	V3  int64 `json:"v3"`
	V4  int64 `json:"v4"`
	V16 int64 `json:"v16"`
	B1  int64 `json:"b1"`
	B2  int64 `json:"b2"`
	B3  int64 `json:"b3"`
	B5  int64 `json:"b5"`
}

func clipHuge(v int64) int64 {
	if v > c10Huge {
		return c10Huge
	}
	if v < -c10Huge {
		return -c10Huge
	}
	return v
}

func (m wmsg) clipped() wmsg {
	return wmsg{clipHuge(m.V1), int64(int32(uint64(m.V1))), clipHuge(m.V2), clipHuge(m.V3), clipHuge(m.V4), clipHuge(m.V16), m.B1, m.B2, m.B3, m.B5}
}

// concretise turns the model's symbolic huge into a value no container comes near
func concretise(v int64) int64 {
	if v == c10Huge {
		return c10HugeReal
	}
	if v == -c10Huge {
		return -c10HugeReal
	}
	return v
}

var c10Filler = func() []byte {
	b := make([]byte, 1<<20)
	for i := range b {
		b[i] = byte(i*7 + i>>8)
	}
	return b
}()

func (m wmsg) raw() []byte {
	var b []byte
	v := func(num protowire.Number, x int64) {
		if x != 0 {
			b = protowire.AppendTag(b, num, protowire.VarintType)
			b = protowire.AppendVarint(b, uint64(x))
		}
	}
	by := func(num protowire.Number, n int64, zero bool) {
		if n > 0 {
			b = protowire.AppendTag(b, num, protowire.BytesType)
			if zero {
				b = protowire.AppendBytes(b, make([]byte, n))
			} else {
				b = protowire.AppendBytes(b, c10Filler[:n])
			}
		}
	}
	v(1, m.V1)
	by(1, m.B1, true) // bsdiff add: zeroes add nothing to the old bytes
	v(2, m.V2)
	by(2, m.B2, false)
	v(3, m.V3)
	by(3, m.B3, false)
	v(4, m.V4)
	by(5, m.B5, false)
	v(16, m.V16)
	return b
}

func rawMessage(raw []byte) *emptypb.Empty {
	e := &emptypb.Empty{}
	e.ProtoReflect().SetUnknown(raw)
	return e
}

func frameLen(raw []byte) (prefix, total int) {
	prefix = protowire.SizeVarint(uint64(len(raw)))
	return prefix, prefix + len(raw)
}

// ---------------------------------------------------------------- universes

type c10Universe struct {
	Name           string
	Root           string
	OldDir, NewDir string
	TC, SC         *tlc.Container
	TSizes, SSizes []int64
	SPath          []int64
	Plain, Opt     []wmsg // valid streams
	Sig            []wmsg
}

func pmsgsToWire(ms []pmsg) []wmsg {
	out := []wmsg{}
	for _, m := range ms {
		switch m.K {
		case "SH":
			w := wmsg{V16: m.Fi}
			if m.Ty == "B" {
				w.V1 = 1
			}
			out = append(out, w)
		case "BH":
			out = append(out, wmsg{V1: m.Tgt})
		case "CTL":
			w := wmsg{B1: m.Add, B2: m.Copy, V3: m.Seek}
			if m.EOF {
				w.V4 = 1
			}
			out = append(out, w)
		case "OP":
			switch m.Ty {
			case "BR":
				out = append(out, wmsg{V1: 0, V2: m.F, V3: m.I, V4: m.N})
			case "DATA":
				out = append(out, wmsg{V1: 1, B5: m.Len})
			case "END":
				out = append(out, wmsg{V1: c10End})
			}
		}
	}
	return out
}

func newC10Universe(root, name string, old, new *tree, modelBases bool) (*c10Universe, error) {
	u := &c10Universe{Name: name, Root: root, OldDir: filepath.Join(root, name, "old"), NewDir: filepath.Join(root, name, "new")}
	if err := writeTree(u.OldDir, old); err != nil {
		return nil, err
	}
	if err := writeTree(u.NewDir, new); err != nil {
		return nil, err
	}
	dr, err := realDiffDirs(u.OldDir, u.NewDir, compressionOf("none", 0))
	if err != nil {
		return nil, err
	}
	u.TC, u.SC = dr.Target, dr.Source
	u.TSizes, u.SSizes = sizesOf(u.TC), sizesOf(u.SC)
	tp := map[string]int64{}
	for i, f := range u.TC.Files {
		tp[f.Path] = int64(i)
	}
	u.SPath = []int64{}
	for _, f := range u.SC.Files {
		if i, ok := tp[f.Path]; ok {
			u.SPath = append(u.SPath, i)
		} else {
			u.SPath = append(u.SPath, -1)
		}
	}
	u.Sig = []wmsg{}
	for range dr.TargetSig {
		u.Sig = append(u.Sig, wmsg{V1: 7, B2: 16})
	}
	if modelBases {
		return u, nil
	}
	d := decodePatch(dr.Patch)
	if d.Err != "" {
		return nil, fmt.Errorf("decode plain: %s", d.Err)
	}
	u.Plain = pmsgsToWire(d.Msgs)
	opt, _, err := realOptimize(dr.Patch, u.OldDir, u.NewDir, optParams{Comp: compressionOf("none", 0)})
	if err != nil {
		return nil, fmt.Errorf("optimize: %v", err)
	}
	d2 := decodePatch(opt)
	if d2.Err != "" {
		return nil, fmt.Errorf("decode optimized: %s", d2.Err)
	}
	u.Opt = pmsgsToWire(d2.Msgs)
	return u, nil
}

// the universe of spec/Malformed.tla: <<98304, 131072, 0>> -> <<98304, 140000, 0, 131072>>
func modelUniverse(root string) (*c10Universe, error) {
	rng := rand.New(rand.NewSource(1010))
	old, new := newTree(), newTree()
	a, b := randBytes(rng, 98304), randBytes(rng, 131072)
	old.Files["a"], old.Files["b"], old.Files["e"] = a, b, []byte{}
	new.Files["a"] = a
	new.Files["b"] = append(append([]byte{}, b...), c10Filler[:8928]...)
	new.Files["e"] = []byte{}
	new.Files["r"] = b
	u, err := newC10Universe(root, "model", old, new, true)
	if err != nil {
		return nil, err
	}
	end := wmsg{V1: c10End}
	u.Plain = []wmsg{{V16: 0}, {V2: 0, V4: 2}, end,
		{V16: 1}, {V2: 1, V4: 1}, {V2: 1, V3: 1, V4: 1}, {V1: 1, B5: 8928}, end,
		{V16: 2}, {V1: 1}, end,
		{V16: 3}, {V2: 1, V4: 2}, end}
	u.Opt = []wmsg{{V16: 0}, {V4: 1}, {V1: 1, B5: 32768}, end,
		{V1: 1, V16: 1}, {V1: 1}, {B1: 65536}, {B1: 65536, B2: 8928, V3: -131072}, {V4: 1}, end,
		{V16: 2}, {V1: 1}, end,
		{V1: 1, V16: 3}, {V1: 1}, {B1: 131072}, {V4: 1}, end}
	return u, nil
}

// the first-push universe of spec/Malformed.tla (base "push"): << >> -> <<98304, 0>>
func pushModelUniverse(root string) (*c10Universe, error) {
	rng := rand.New(rand.NewSource(1011))
	old, new := newTree(), newTree()
	new.Files["a"], new.Files["e"] = randBytes(rng, 98304), []byte{}
	u, err := newC10Universe(root, "pushmodel", old, new, true)
	if err != nil {
		return nil, err
	}
	end := wmsg{V1: c10End}
	u.Plain = []wmsg{{V16: 0}, {V1: 1, B5: 98304}, end, {V16: 1}, {V1: 1}, end}
	u.Opt = u.Plain
	return u, nil
}

func genUniverse(root string, k int, rng *rand.Rand) (*c10Universe, error) {
	old, new := newTree(), newTree()
	sizes := []int{0, 1, 5, 4096, 65535, 65536, 65537, 98304, 131072, 140000, 200000}
	nf := 1 + rng.Intn(5)
	for i := 0; i < nf; i++ {
		p := fmt.Sprintf("f%d", i)
		o := randBytes(rng, sizes[rng.Intn(len(sizes))])
		old.Files[p] = o
		n := append([]byte{}, o...)
		switch rng.Intn(7) {
		case 0: // unchanged
		case 1:
			n = append(n, randBytes(rng, 1+rng.Intn(9000))...)
		case 2:
			n = append(randBytes(rng, 1+rng.Intn(300)), n...)
		case 3:
			if len(n) > 0 {
				n[rng.Intn(len(n))] ^= 0x55
			}
		case 4:
			n = randBytes(rng, sizes[rng.Intn(len(sizes))])
		case 5: // renamed
			new.Files[p+"-renamed"] = n
			continue
		case 6: // deleted
			continue
		}
		new.Files[p] = n
	}
	if rng.Intn(2) == 0 {
		new.Files["added"] = randBytes(rng, sizes[rng.Intn(len(sizes))])
	}
	if len(new.Files) == 0 {
		new.Files["only"] = randBytes(rng, 10)
	}
	return newC10Universe(root, fmt.Sprintf("gen%d", k), old, new, false)
}

// a FIRST PUSH: the old container has no file at all - every file index is out of range, "number of files - 1" is -1
func firstPushUniverse(root string, rng *rand.Rand) (*c10Universe, error) {
	old, new := newTree(), newTree()
	sizes := []int{0, 5, 65536, 98304, 140000}
	for i := 0; i < 1+rng.Intn(3); i++ {
		new.Files[fmt.Sprintf("first%d", i)] = randBytes(rng, sizes[rng.Intn(len(sizes))])
	}
	new.Files["first-nonempty"] = randBytes(rng, 70000)
	return newC10Universe(root, "firstpush", old, new, false)
}

// ---------------------------------------------------------------- streams

type c10Stream struct {
	Bytes   []byte
	Prelude int   // bytes before the first message frame (uncompressed framing only)
	Frames  []int // start offset of every message frame (uncompressed framing only), then the end of the stream
	Prefix  []int // length-prefix size of every frame
}

func writeFrames(wctx *wire.WriteContext, msgs []wmsg) error {
	for _, m := range msgs {
		if err := wctx.WriteMessage(rawMessage(m.raw())); err != nil {
			return err
		}
	}
	return nil
}

func (s *c10Stream) layout(msgs []wmsg) {
	total := 0
	for _, m := range msgs {
		_, t := frameLen(m.raw())
		total += t
	}
	s.Prelude = len(s.Bytes) - total
	off := s.Prelude
	for _, m := range msgs {
		p, t := frameLen(m.raw())
		s.Frames = append(s.Frames, off)
		s.Prefix = append(s.Prefix, p)
		off += t
	}
	s.Frames = append(s.Frames, off)
}

func buildPatchStream(u *c10Universe, msgs []wmsg, framing string) (*c10Stream, error) {
	var buf bytes.Buffer
	raw := wire.NewWriteContext(&buf)
	if err := raw.WriteMagic(pwr.PatchMagic); err != nil {
		return nil, err
	}
	comp := compressionOf(framing, 1)
	if err := raw.WriteMessage(&pwr.PatchHeader{Compression: comp}); err != nil {
		return nil, err
	}
	wctx, err := pwr.CompressWire(raw, comp)
	if err != nil {
		return nil, err
	}
	if err := wctx.WriteMessage(u.TC); err != nil {
		return nil, err
	}
	if err := wctx.WriteMessage(u.SC); err != nil {
		return nil, err
	}
	if err := writeFrames(wctx, msgs); err != nil {
		return nil, err
	}
	if err := wctx.Close(); err != nil {
		return nil, err
	}
	s := &c10Stream{Bytes: buf.Bytes()}
	if framing == "none" {
		s.layout(msgs)
	}
	return s, nil
}

func buildSigStream(u *c10Universe, msgs []wmsg, framing string) (*c10Stream, error) {
	var buf bytes.Buffer
	raw := wire.NewWriteContext(&buf)
	if err := raw.WriteMagic(pwr.SignatureMagic); err != nil {
		return nil, err
	}
	comp := compressionOf(framing, 1)
	if err := raw.WriteMessage(&pwr.SignatureHeader{Compression: comp}); err != nil {
		return nil, err
	}
	wctx, err := pwr.CompressWire(raw, comp)
	if err != nil {
		return nil, err
	}
	if err := wctx.WriteMessage(u.TC); err != nil {
		return nil, err
	}
	if err := writeFrames(wctx, msgs); err != nil {
		return nil, err
	}
	if err := wctx.Close(); err != nil {
		return nil, err
	}
	s := &c10Stream{Bytes: buf.Bytes()}
	if framing == "none" {
		s.layout(msgs)
	}
	return s, nil
}

func buildOverlayStream(msgs []wmsg) (*c10Stream, error) {
	var buf bytes.Buffer
	wctx := wire.NewWriteContext(&buf)
	if err := wctx.WriteMagic(overlay.OverlayMagic); err != nil {
		return nil, err
	}
	if err := writeFrames(wctx, msgs); err != nil {
		return nil, err
	}
	s := &c10Stream{Bytes: buf.Bytes()}
	s.layout(msgs)
	return s, nil
}

// cutOffset: the byte at which a stream stops so that message k (1-based) is the first one missing; "boundary"
// = the reader sees a clean io.EOF (nothing of the frame, or only its length prefix when a body was announced),
// "inside" = it sees io.ErrUnexpectedEOF. k = 0 cuts the prelude (containerStart says where a signature's container frame is).
func (s *c10Stream) cutOffset(k int, how string, rng *rand.Rand) int {
	if k == 0 {
		if how == "boundary" {
			return -1 // resolved by the caller
		}
		return 1 + rng.Intn(s.Prelude-1)
	}
	start, end := s.Frames[k-1], s.Frames[k]
	if how == "boundary" {
		return start
	}
	if end-start <= 1 {
		return start // nothing to cut inside a one-byte frame: same as a boundary cut
	}
	body := end - start - s.Prefix[k-1]
	// after the prefix of a frame with a body the reader reports a clean EOF: stay off that offset
	for tries := 0; tries < 8; tries++ {
		o := start + 1 + rng.Intn(end-start-1)
		if o == start+s.Prefix[k-1] && body > 0 {
			continue
		}
		return o
	}
	return end - 1
}

// classify maps a byte offset of an uncompressed stream to the model's (cutk, how)
func (s *c10Stream) classify(off int, sigContainerStart, sigContainerPrefix int) (int, string) {
	if off < s.Prelude {
		if sigContainerStart >= 0 && (off == sigContainerStart || off == sigContainerStart+sigContainerPrefix) {
			return 0, "boundary"
		}
		return 0, "inside"
	}
	for k := 1; k < len(s.Frames); k++ {
		start, end := s.Frames[k-1], s.Frames[k]
		if off >= end {
			continue
		}
		if off == start {
			return k, "boundary"
		}
		if off == start+s.Prefix[k-1] && end-start-s.Prefix[k-1] > 0 {
			return k, "boundary"
		}
		return k, "inside"
	}
	return len(s.Frames), "boundary"
}

// ---------------------------------------------------------------- guarded execution

type c10Line struct {
	ID      int     `json:"id"`
	Src     string  `json:"src"` // model | gen | trunc
	Uni     string  `json:"uni"`
	Cons    string  `json:"cons"`
	Variant string  `json:"variant"` // fresh | overlay | - ...
	Framing string  `json:"framing"`
	Base    string  `json:"base"`
	TSizes  []int64 `json:"tsizes"`
	SSizes  []int64 `json:"ssizes"`
	SPath   []int64 `json:"spath"`
	Msgs    []wmsg  `json:"msgs"`
	CutK    int     `json:"cutk"`
	How     string  `json:"how"`
	CutOff  int     `json:"cutoff"`
	HN      int     `json:"hn"`
	Desc    string  `json:"desc"`
	Outcome string  `json:"outcome"` // error | done | panic | hang | crash
	Err     string  `json:"err"`
	Site    string  `json:"site"`
	Pred    string  `json:"pred"` // what the model predicted when it generated the case (replay mode)
	Salt    int64   `json:"salt"`
	Conc    string  `json:"conc"` // the message table with the exact values written to the stream (JSON, for --replay)
}

var c10Watchdog = 60 * time.Second

func wharfSite(stack string) string {
	lines := strings.Split(stack, "\n")
	seenPanic := false
	if root := os.Getenv("VERIF_REPO_PATH"); root != "" {
		// the tree under test (a scratch worktree when a changed tree is checked)
		for _, ln := range lines {
			t := strings.TrimSpace(ln)
			if strings.HasPrefix(t, "panic(") {
				seenPanic = true
				continue
			}
			if seenPanic && strings.HasPrefix(t, root+"/") && strings.Contains(t, ".go:") {
				return strings.TrimPrefix(strings.Fields(t)[0], root+"/")
			}
		}
		seenPanic = false
	}
	for _, ln := range lines {
		t := strings.TrimSpace(ln)
		if strings.HasPrefix(t, "panic(") {
			seenPanic = true
			continue
		}
		if !seenPanic {
			continue
		}
		if strings.Contains(t, ".go:") && (strings.Contains(t, "itchio/wharf") || strings.Contains(t, "/wharf/") || strings.Contains(t, "/repo/")) && !strings.Contains(t, "vdriver") {
			f := strings.Fields(t)[0]
			for _, marker := range []string{"/repo/", "itchio/wharf/", "/wharf/"} {
				if i := strings.Index(f, marker); i >= 0 {
					return f[i+len(marker):]
				}
			}
			return f
		}
	}
	// no wharf frame: name the first frame after the panic
	seenPanic = false
	for _, ln := range lines {
		t := strings.TrimSpace(ln)
		if strings.HasPrefix(t, "panic(") {
			seenPanic = true
			continue
		}
		if seenPanic && strings.Contains(t, ".go:") && !strings.Contains(t, "runtime/") {
			return strings.Fields(t)[0]
		}
	}
	return ""
}

func guarded(f func() error) (outcome, errText, site string) {
	type res struct{ o, e, s string }
	ch := make(chan res, 1)
	go func() {
		defer func() {
			if p := recover(); p != nil {
				if strings.HasPrefix(fmt.Sprint(p), "harness:") {
					// the driver's own scaffolding failed: not a behaviour of wharf
					fmt.Fprintln(os.Stderr, "vdriver c10:", p)
					os.Exit(4)
				}
				ch <- res{"panic", fmt.Sprint(p), wharfSite(string(debug.Stack()))}
			}
		}()
		if err := f(); err != nil {
			e := err.Error()
			if len(e) > 160 {
				e = e[:160]
			}
			ch <- res{"error", e, ""}
			return
		}
		ch <- res{"done", "", ""}
	}()
	select {
	case r := <-ch:
		return r.o, r.e, r.s
	case <-time.After(c10Watchdog):
		return "hang", fmt.Sprintf("no result after %v", c10Watchdog), ""
	}
}

// wanted says whether any of the next k executions is selected; if not, their ids are consumed
func (rn *c10Runner) wanted(k int) bool {
	lo, hi := rn.nextID, rn.nextID+k
	if rn.hung || hi <= rn.first || (rn.n >= 0 && lo >= rn.first+rn.n) {
		rn.nextID = hi
		return false
	}
	return true
}

type c10Runner struct {
	salt   int64
	out    *ndjson
	marker string
	tmp    string
	nextID int
	first  int
	n      int
	hung   bool
	pushU  *c10Universe // the first-push model universe (base "push"), built on first use
}

// run executes one (case, consumer variant) on the real code; the marker names it while it runs
func (rn *c10Runner) run(line c10Line, f func(work string) error) {
	id := rn.nextID
	rn.nextID++
	if id < rn.first || (rn.n >= 0 && id >= rn.first+rn.n) || rn.hung {
		return
	}
	line.ID = id
	line.Salt = rn.salt
	cb, _ := json.Marshal(line.Msgs)
	line.Conc = string(cb)
	cl := []wmsg{}
	for _, m := range line.Msgs {
		cl = append(cl, m.clipped())
	}
	line.Msgs = cl
	if line.TSizes == nil {
		line.TSizes = []int64{}
	}
	if line.SSizes == nil {
		line.SSizes = []int64{}
	}
	if line.SPath == nil {
		line.SPath = []int64{}
	}
	if rn.marker != "" {
		b, _ := json.Marshal(line)
		writeMarker(rn.marker, string(b))
	}
	work := filepath.Join(rn.tmp, fmt.Sprintf("w%d", id))
	must(os.MkdirAll(work, 0755))
	line.Outcome, line.Err, line.Site = guarded(func() error { return f(work) })
	rn.out.emit(line)
	if line.Outcome == "hang" {
		// the stuck goroutine cannot be stopped: hand over to a fresh process
		rn.out.flush()
		rn.hung = true
		return
	}
	os.RemoveAll(work)
}

func applyCase(u *c10Universe, stream []byte, variant string, work string) error {
	o := applyOpts{Bowl: "fresh", OldDir: u.OldDir, OutDir: filepath.Join(work, "out")}
	switch variant {
	case "overlay":
		old := filepath.Join(work, "old")
		if err := copyDir(u.OldDir, old); err != nil {
			panic("harness: " + err.Error())
		}
		o = applyOpts{Bowl: "overlay", OldDir: old, StageDir: filepath.Join(work, "stage")}
	case "skip":
		o.Whitelist = map[int64]bool{}
	}
	return realApplyPatch(stream, o).Err
}

func rediffCase(u *c10Universe, stream []byte) error {
	_, _, err := realOptimize(stream, u.OldDir, u.NewDir, optParams{Comp: compressionOf("none", 0)})
	return err
}

func sigCase(stream []byte) error {
	src := seeksource.FromBytes(stream)
	if _, err := src.Resume(nil); err != nil {
		panic("harness: " + err.Error())
	}
	si, err := pwr.ReadSignature(context.Background(), src)
	if err != nil {
		return err
	}
	_, err = pwr.ComputeHashInfo(si)
	return err
}

func hashInfoCase(u *c10Universe, hn int) error {
	hashes := make([]wsync.BlockHash, hn)
	_, err := pwr.ComputeHashInfo(&pwr.SignatureInfo{Container: u.TC, Hashes: hashes})
	return err
}

func overlayCase(stream []byte, work string) error {
	p := filepath.Join(work, "target.bin")
	if err := os.WriteFile(p, c10Filler[:4000], 0644); err != nil {
		panic("harness: " + err.Error())
	}
	f, err := os.OpenFile(p, os.O_RDWR, 0644)
	if err != nil {
		panic("harness: " + err.Error())
	}
	defer f.Close()
	src := seeksource.FromBytes(stream)
	if _, err := src.Resume(nil); err != nil {
		panic("harness: " + err.Error())
	}
	return (&overlay.OverlayPatchContext{}).Patch(src, f)
}

var overlayBase = []wmsg{{V2: 1000}, {V1: 1, B3: 500}, {V2: 2000}, {V1: 1, B3: 3}, {V1: c10OvEnd}}

// sigContainer locates the container frame of an uncompressed signature stream (for prelude cuts)
func sigContainer(u *c10Universe, s *c10Stream) (start, prefix int) {
	b := proto.Size(u.TC)
	p := protowire.SizeVarint(uint64(b))
	return s.Prelude - p - b, p
}

// execute runs one case through every variant of its consumer
func (rn *c10Runner) execute(u *c10Universe, proto c10Line, msgs []wmsg, cutk int, how string, cutoff int, framings []string, rng *rand.Rand) {
	proto.Uni = u.Name
	proto.Msgs = msgs
	proto.TSizes, proto.SSizes, proto.SPath = u.TSizes, u.SSizes, u.SPath
	for _, framing := range framings {
		line := proto
		line.Framing = framing
		line.CutK, line.How, line.CutOff = cutk, how, cutoff
		if (proto.Cons == "overlay" || proto.Cons == "hashinfo") && framing != "none" {
			continue
		}
		if cutk == 0 && how == "boundary" && cutoff < 0 && proto.Cons != "sig" && framing == "none" {
			continue // no clean-EOF point inside a patch prelude
		}
		nexec := 1
		if proto.Cons == "apply" {
			nexec = 2
		}
		if !rn.wanted(nexec) {
			continue
		}
		var s *c10Stream
		var err error
		switch proto.Cons {
		case "apply", "skip", "rediff":
			s, err = buildPatchStream(u, msgs, framing)
		case "sig":
			s, err = buildSigStream(u, msgs, framing)
		case "overlay":
			if framing != "none" {
				continue
			}
			s, err = buildOverlayStream(msgs)
		case "hashinfo":
			if framing != "none" {
				continue
			}
			line.CutK, line.How = 1, "boundary"
			line.Variant = "-"
			rn.run(line, func(string) error { return hashInfoCase(u, proto.HN) })
			continue
		}
		if err != nil {
			panic("harness: cannot build stream: " + err.Error())
		}
		stream := s.Bytes
		intact := cutk == len(msgs)+1 && cutoff < 0
		if !intact {
			if framing == "none" {
				off := cutoff
				if off < 0 {
					if cutk == 0 && how == "boundary" {
						if proto.Cons != "sig" {
							continue // no clean-EOF point inside a patch prelude
						}
						off, _ = sigContainer(u, s)
					} else {
						off = s.cutOffset(cutk, how, rng)
					}
				}
				st, pf := -1, 0
				if proto.Cons == "sig" {
					st, pf = sigContainer(u, s)
				}
				line.CutK, line.How = s.classify(off, st, pf)
				line.CutOff = off
				stream = stream[:off]
			} else {
				// a cut of the compressed section: which message it hits is not knowable from outside
				off := cutoff
				if off < 0 || off >= len(stream) {
					off = 1 + rng.Intn(len(stream)-1)
				}
				line.CutK, line.How, line.CutOff = -1, "inside", off
				stream = stream[:off]
			}
		}
		switch proto.Cons {
		case "apply":
			for _, variant := range []string{"fresh", "overlay"} {
				l := line
				l.Variant = variant
				rn.run(l, func(work string) error { return applyCase(u, stream, variant, work) })
			}
		case "skip":
			line.Variant = "skip"
			rn.run(line, func(work string) error { return applyCase(u, stream, "skip", work) })
		case "rediff":
			line.Variant = "-"
			rn.run(line, func(string) error { return rediffCase(u, stream) })
		case "sig":
			line.Variant = "-"
			rn.run(line, func(string) error { return sigCase(stream) })
		case "overlay":
			line.Variant = "-"
			rn.run(line, func(work string) error { return overlayCase(stream, work) })
		}
	}
}

// ---------------------------------------------------------------- case sources

type c10Edge struct {
	Cons string `json:"cons"`
	Base string `json:"base"`
	CutK int    `json:"cutk"`
	How  string `json:"how"`
	HN   int    `json:"hn"`
	Pred string `json:"pred"`
	Fz   bool   `json:"fz"`
	Msgs []wmsg `json:"msgs"`
}

func (rn *c10Runner) replay(u *c10Universe, path string) error {
	f, err := os.Open(path)
	if err != nil {
		return err
	}
	defer f.Close()
	sc := bufio.NewScanner(f)
	sc.Buffer(make([]byte, 1<<22), 1<<22)
	k := 0
	for sc.Scan() {
		line := sc.Text()
		if !strings.HasPrefix(line, `<<"EDGE"`) {
			continue
		}
		q := line[strings.Index(line, `, "`)+2 : len(line)-2]
		var js string
		if err := json.Unmarshal([]byte(q), &js); err != nil {
			return fmt.Errorf("unquote: %v in %s", err, q)
		}
		var e c10Edge
		if err := json.Unmarshal([]byte(js), &e); err != nil {
			return err
		}
		msgs := []wmsg{}
		for _, m := range e.Msgs {
			msgs = append(msgs, wmsg{concretise(m.V1), 0, concretise(m.V2), concretise(m.V3), concretise(m.V4), concretise(m.V16), m.B1, m.B2, m.B3, m.B5})
		}
		rng := rand.New(rand.NewSource(envSeed()*7919 + int64(k)))
		framings := []string{"none", []string{"gzip", "brotli"}[k%2]}
		if e.CutK != len(msgs)+1 {
			framings = []string{"none"} // a cut at a chosen message only exists in the uncompressed framing
		}
		hn := 0
		if e.Cons == "hashinfo" {
			hn = e.HN // (for the signature reader the model's count is a result, not an input)
		}
		uu := u
		if e.Base == "push" {
			if rn.pushU == nil {
				if rn.pushU, err = pushModelUniverse(rn.tmp); err != nil {
					return err
				}
			}
			uu = rn.pushU
		}
		rn.execute(uu, c10Line{Src: "model", Cons: e.Cons, Base: e.Base, HN: hn, Pred: e.Pred}, msgs, e.CutK, e.How, -1, framings, rng)
		k++
	}
	return sc.Err()
}

var c10Extremes = []int64{-1, 0, 1, 2, 3, 7, 2049, 2040, 65535, 65536, 98304, -131072, c10HugeReal, -c10HugeReal,
	math.MaxInt64, math.MinInt64, math.MaxInt64 - 65535, 1 << 62, -(1 << 62), 1 << 47, 1<<48 - 1, 1 << 32, 1<<31 - 1, -(1 << 31), 140737488355328}

func mutateOnce(u *c10Universe, cons string, msgs []wmsg, rng *rand.Rand) ([]wmsg, string) {
	out := append([]wmsg{}, msgs...)
	if len(out) == 0 {
		return out, "empty"
	}
	k := rng.Intn(len(out))
	switch rng.Intn(10) {
	case 0:
		return append(out[:k], out[k+1:]...), fmt.Sprintf("drop %d", k+1)
	case 1:
		out = append(out[:k+1], out[k:]...)
		return out, fmt.Sprintf("dup %d", k+1)
	case 2:
		j := rng.Intn(len(out))
		out[k], out[j] = out[j], out[k]
		return out, fmt.Sprintf("swap %d %d", k+1, j+1)
	case 3:
		j := rng.Intn(len(out))
		out[k] = out[j]
		return out, fmt.Sprintf("retype %d as %d", k+1, j+1)
	}
	nt, ns := int64(len(u.TSizes)), int64(len(u.SSizes))
	if rng.Intn(8) == 0 {
		// the message changes KIND and keeps its other fields (DATA <-> BLOCK_RANGE, rsync <-> bsdiff header)
		out[k].V1 = []int64{0, 1}[rng.Intn(2)]
		return out, fmt.Sprintf("msg %d v1=%d (kind)", k+1, out[k].V1)
	}
	vals := append([]int64{nt - 1, nt, nt + 1, ns - 1, ns, ns + 1}, c10Extremes...)
	for _, sz := range u.TSizes {
		nb := (sz + 65535) / 65536
		vals = append(vals, nb-1, nb, nb+1, sz, sz+1, -sz)
	}
	v := vals[rng.Intn(len(vals))]
	lens := []int64{0, 1, 3, 8928, 40000, 65536, 200000}
	ln := lens[rng.Intn(len(lens))]
	fields := []string{"v1", "v2", "v3", "v4", "v16", "b1", "b2", "b5"}
	switch cons {
	case "sig":
		fields = []string{"v1", "b2"}
	case "overlay":
		fields = []string{"v1", "v2", "b3"}
	}
	f := fields[rng.Intn(len(fields))]
	switch f {
	case "v1":
		out[k].V1 = v
	case "v2":
		out[k].V2 = v
	case "v3":
		out[k].V3 = v
	case "v4":
		out[k].V4 = v
	case "v16":
		out[k].V16 = v
	case "b1":
		out[k].B1 = ln
	case "b2":
		out[k].B2 = ln
	case "b3":
		out[k].B3 = ln
	case "b5":
		out[k].B5 = ln
	}
	if strings.HasPrefix(f, "b") {
		return out, fmt.Sprintf("msg %d %s=%d", k+1, f, ln)
	}
	return out, fmt.Sprintf("msg %d %s=%d", k+1, f, v)
}

func (rn *c10Runner) gen(unis []*c10Universe, ncases int, salt int64) {
	conses := []string{"apply", "apply", "skip", "rediff", "rediff", "sig", "overlay", "hashinfo"}
	for k := 0; k < ncases; k++ {
		rng := rand.New(rand.NewSource(envSeed()*104729 + salt*15485863 + int64(k)))
		u := unis[rng.Intn(len(unis))]
		cons := conses[rng.Intn(len(conses))]
		var msgs []wmsg
		base := ""
		switch cons {
		case "apply", "skip", "rediff":
			if rng.Intn(2) == 0 {
				msgs, base = u.Plain, "plain"
			} else {
				msgs, base = u.Opt, "opt"
			}
		case "sig":
			msgs, base = u.Sig, "sig"
		case "overlay":
			msgs, base = overlayBase, "overlay"
		case "hashinfo":
			need := len(u.Sig)
			hn := rng.Intn(need + 3)
			if rng.Intn(4) == 0 {
				hn = need + rng.Intn(40)
			}
			rn.execute(u, c10Line{Src: "gen", Cons: cons, Base: "none", HN: hn, Desc: fmt.Sprintf("%d hashes for %d", hn, need)}, []wmsg{}, 1, "boundary", -1, []string{"none"}, rng)
			continue
		}
		nm := 1 + rng.Intn(3)
		desc := []string{}
		for i := 0; i < nm; i++ {
			var d string
			msgs, d = mutateOnce(u, cons, msgs, rng)
			desc = append(desc, d)
		}
		cutk, how := len(msgs)+1, "boundary"
		if rng.Intn(4) == 0 {
			cutk = rng.Intn(len(msgs) + 1)
			how = []string{"boundary", "inside"}[rng.Intn(2)]
			desc = append(desc, fmt.Sprintf("cut %d %s", cutk, how))
		}
		framings := []string{[]string{"none", "gzip", "brotli"}[rng.Intn(3)]}
		if cutk != len(msgs)+1 {
			framings = []string{"none"}
		}
		rn.execute(u, c10Line{Src: "gen", Cons: cons, Base: base, Desc: strings.Join(desc, "; ")}, msgs, cutk, how, -1, framings, rng)
	}
}

// trunc: every byte truncation of the valid streams (all offsets of small frames and of the prelude; the first
// and last bytes plus a seeded sample inside large payloads), and sampled truncations of the compressed framings
func (rn *c10Runner) trunc(unis []*c10Universe, dense bool) {
	rng := rand.New(rand.NewSource(envSeed()*31 + 5))
	offsets := func(s *c10Stream) []int {
		offs := []int{}
		for o := 0; o < s.Prelude; o++ {
			offs = append(offs, o)
		}
		for k := 1; k < len(s.Frames); k++ {
			start, end := s.Frames[k-1], s.Frames[k]
			if end-start <= 96 || dense && end-start <= 1024 {
				for o := start; o < end; o++ {
					offs = append(offs, o)
				}
				continue
			}
			for o := start; o < start+24; o++ {
				offs = append(offs, o)
			}
			for i := 0; i < 6; i++ {
				offs = append(offs, start+24+rng.Intn(end-start-48))
			}
			for o := end - 24; o < end; o++ {
				offs = append(offs, o)
			}
		}
		return offs
	}
	for _, u := range unis {
		for _, cons := range []string{"apply", "skip", "rediff", "sig", "overlay"} {
			bases := map[string][]wmsg{"plain": u.Plain, "opt": u.Opt}
			if cons == "sig" {
				bases = map[string][]wmsg{"sig": u.Sig}
			}
			if cons == "overlay" {
				if u != unis[0] {
					continue
				}
				bases = map[string][]wmsg{"overlay": overlayBase}
			}
			for _, bn := range []string{"plain", "opt", "sig", "overlay"} {
				msgs, ok := bases[bn]
				if !ok {
					continue
				}
				var s *c10Stream
				switch cons {
				case "sig":
					s, _ = buildSigStream(u, msgs, "none")
				case "overlay":
					s, _ = buildOverlayStream(msgs)
				default:
					s, _ = buildPatchStream(u, msgs, "none")
				}
				for _, o := range offsets(s) {
					rn.execute(u, c10Line{Src: "trunc", Cons: cons, Base: bn, Desc: fmt.Sprintf("cut at byte %d of %d", o, len(s.Bytes))}, msgs, 0, "", o, []string{"none"}, rng)
				}
				if cons == "overlay" {
					continue
				}
				for _, framing := range []string{"gzip", "brotli"} {
					var cs *c10Stream
					if cons == "sig" {
						cs, _ = buildSigStream(u, msgs, framing)
					} else {
						cs, _ = buildPatchStream(u, msgs, framing)
					}
					n := len(cs.Bytes)
					offs := []int{}
					for o := 0; o < n && o < 48; o++ {
						offs = append(offs, o)
					}
					for i := 0; i < 24 && n > 60; i++ {
						offs = append(offs, 48+rng.Intn(n-48))
					}
					for o := n - 12; o < n; o++ {
						if o >= 48 {
							offs = append(offs, o)
						}
					}
					for _, o := range offs {
						rn.execute(u, c10Line{Src: "trunc", Cons: cons, Base: bn, Desc: fmt.Sprintf("cut at byte %d of %d (%s)", o, n, framing)}, msgs, 0, "", o, []string{framing}, rng)
					}
				}
			}
		}
	}
}

// one re-executes a recorded case (the "case" object of a replay file) and prints what the real code does
func (rn *c10Runner) one(unis []*c10Universe, path string) error {
	b, err := os.ReadFile(path)
	if err != nil {
		return err
	}
	var rp struct {
		Case c10Line `json:"case"`
	}
	if err := json.Unmarshal(b, &rp); err != nil {
		return err
	}
	line := rp.Case
	var msgs []wmsg
	if err := json.Unmarshal([]byte(line.Conc), &msgs); err != nil {
		return err
	}
	var u *c10Universe
	for _, x := range unis {
		if x.Name == line.Uni {
			u = x
		}
	}
	if u == nil && line.Uni == "pushmodel" {
		if u, err = pushModelUniverse(rn.tmp); err != nil {
			return err
		}
	}
	if u == nil {
		return fmt.Errorf("universe %s not rebuilt (seed/salt differ?)", line.Uni)
	}
	cutk, how := line.CutK, line.How
	if line.CutOff >= 0 {
		cutk, how = 0, ""
	}
	rn.execute(u, c10Line{Src: "replay", Cons: line.Cons, Base: line.Base, HN: line.HN, Desc: line.Desc}, msgs, cutk, how, line.CutOff, []string{line.Framing}, rand.New(rand.NewSource(1)))
	return nil
}

// resumeTrunc: the applier RESUMED from a checkpoint on a stream that has been truncated in the meantime. Checkpoints
// come from an uninterrupted always-save application of the valid stream (gob round-tripped); for each, a new
// patcher is made on stream[:cut] and resumed. Cuts lie at or behind the checkpoint's own source offset: resuming
// a seek source beyond its end is a crash INSIDE the dependency (savior/seeksource slices with a negative length)
// before wharf gets to read anything, and is left out (DESIGN 13).
func (rn *c10Runner) resumeTrunc(unis []*c10Universe) {
	rng := rand.New(rand.NewSource(envSeed()*17 + 3))
	for _, u := range unis {
		for _, bn := range []string{"plain", "opt"} {
			msgs := u.Plain
			if bn == "opt" {
				msgs = u.Opt
			}
			for _, framing := range []string{"none", "gzip", "brotli"} {
				st, err := buildPatchStream(u, msgs, framing)
				if err != nil {
					panic("harness: " + err.Error())
				}
				// checkpoints of the valid stream
				var cps [][]byte
				work := filepath.Join(rn.tmp, "cp-"+u.Name+bn+framing)
				sc := &saveConsumer{should: func() bool { return true }, save: func(c *patcher.Checkpoint) (patcher.AfterSaveAction, error) {
					if b, err := gobCheckpoint(c); err == nil && len(cps) < 64 {
						cps = append(cps, b)
					}
					return patcher.AfterSaveContinue, nil
				}}
				if r := realApplyPatch(st.Bytes, applyOpts{Bowl: "fresh", OldDir: u.OldDir, OutDir: filepath.Join(work, "out"), Consumer: sc}); r.Err != nil {
					panic("harness: the valid stream does not apply: " + r.Err.Error())
				}
				os.RemoveAll(work)
				// the section (everything after magic + header) starts where the decoder says
				d := decodePatch(st.Bytes)
				for ci, cb := range cps {
					if ci%3 != 0 && ci != len(cps)-1 {
						continue
					}
					cp0, err := ungobCheckpoint(cb)
					if err != nil || cp0.MessageCheckpoint == nil || cp0.MessageCheckpoint.SourceCheckpoint == nil {
						continue
					}
					lo := d.HeaderEnd + int(cp0.MessageCheckpoint.SourceCheckpoint.Offset)
					hi := len(st.Bytes)
					if framing == "none" {
						hi = d.HeaderEnd + int(cp0.MessageCheckpoint.Offset) + 40
						if hi > len(st.Bytes) {
							hi = len(st.Bytes)
						}
					}
					if lo >= hi {
						continue
					}
					cuts := map[int]bool{lo: true, lo + 1: true, hi - 1: true, (lo + hi) / 2: true, lo + rng.Intn(hi-lo): true, lo + rng.Intn(hi-lo): true}
					for cut := range cuts {
						if cut < lo || cut >= len(st.Bytes) {
							continue
						}
						if !rn.wanted(1) {
							continue
						}
						line := c10Line{Src: "resume", Uni: u.Name, Cons: "resume", Variant: "fresh", Framing: framing, Base: bn, Msgs: msgs,
							TSizes: u.TSizes, SSizes: u.SSizes, SPath: u.SPath, CutK: -1, How: "inside", CutOff: cut,
							Desc: fmt.Sprintf("checkpoint %d of %d (reader offset %d, source offset %d), stream cut at byte %d of %d", ci, len(cps), cp0.MessageCheckpoint.Offset, cp0.MessageCheckpoint.SourceCheckpoint.Offset, cut, len(st.Bytes))}
						stream, cpb := st.Bytes[:cut], cb
						rn.run(line, func(work string) error {
							cp, err := ungobCheckpoint(cpb)
							if err != nil {
								panic("harness: " + err.Error())
							}
							return realApplyPatch(stream, applyOpts{Bowl: "fresh", OldDir: u.OldDir, OutDir: filepath.Join(work, "out"), From: cp}).Err
						})
					}
				}
			}
		}
	}
}

func cmdC10(args []string) error {
	fs := flag.NewFlagSet("c10", flag.ExitOnError)
	mode := fs.String("mode", "gen", "replay | gen | trunc | resume")
	cases := fs.String("cases", "", "replay: TLC output with EDGE lines")
	n := fs.Int("n", -1, "number of executions (-1: all)")
	first := fs.Int("first", 0, "first execution")
	ncases := fs.Int("cases-n", 400, "gen: number of generated cases")
	nuni := fs.Int("universes", 3, "gen/trunc: generated universes besides the model's")
	dense := fs.Bool("dense", false, "trunc: every offset of frames up to 1 KiB")
	out := fs.String("out", "c10.ndjson", "trace output")
	marker := fs.String("marker", "", "file naming the execution in flight")
	wd := fs.Int("watchdog", 60, "seconds before an execution counts as hung")
	salt := fs.Int64("salt", 0, "gen: varies the generated cases between shards")
	one := fs.String("line", "", "one: replay file written by the check")
	fs.Parse(args)
	c10Watchdog = time.Duration(*wd) * time.Second
	w, err := newNDJSON(*out)
	if err != nil {
		return err
	}
	tmp, err := os.MkdirTemp("", "c10-")
	if err != nil {
		return err
	}
	defer os.RemoveAll(tmp)
	if *mode == "one" {
		// rebuild the universe the recorded case ran in
		b, err := os.ReadFile(*one)
		if err != nil {
			return err
		}
		var rp struct {
			Case c10Line `json:"case"`
		}
		if err := json.Unmarshal(b, &rp); err != nil {
			return err
		}
		*salt = rp.Case.Salt
	}
	rn := &c10Runner{out: w, marker: *marker, tmp: tmp, first: *first, n: *n, salt: *salt}
	mu, err := modelUniverse(tmp)
	if err != nil {
		return err
	}
	unis := []*c10Universe{mu}
	if *mode != "replay" {
		for k := 0; k < *nuni; k++ {
			u, err := genUniverse(tmp, k, rand.New(rand.NewSource(envSeed()*613+*salt*7+int64(k))))
			if err != nil {
				return err
			}
			unis = append(unis, u)
		}
	}
	if *mode != "replay" {
		u, err := firstPushUniverse(tmp, rand.New(rand.NewSource(envSeed()*617+*salt*11)))
		if err != nil {
			return err
		}
		unis = append(unis, u)
	}
	switch *mode {
	case "replay":
		if err := rn.replay(mu, *cases); err != nil {
			return err
		}
	case "gen":
		rn.gen(unis, *ncases, *salt)
	case "one":
		if err := rn.one(unis, *one); err != nil {
			return err
		}
	case "trunc":
		rn.trunc(unis, *dense)
	case "resume":
		rn.resumeTrunc(unis)
	default:
		return fmt.Errorf("unknown mode %s", *mode)
	}
	if err := w.close(); err != nil {
		return err
	}
	fmt.Printf("TOTAL %d\n", rn.nextID)
	if rn.hung {
		os.Exit(9)
	}
	writeMarker(*marker, "")
	return nil
}

func init() {
	register("c10", "malformed patch/signature/overlay streams through the real readers", cmdC10)
}
