package main

// growth beyond the listed properties: the per-file pipeline of DiffContext.WritePatch when one of its three tasks
// fails (spec/DiffPipelineFault.tla). A fault is injected into the patch writer, the signature writer or the source
// pool's readers at a chosen byte; after WritePatch returned, the goroutines it started and that are still alive
// after a grace period are counted from a stack dump.

import (
	"bytes"
	"context"
	"errors"
	"flag"
	"fmt"
	"io"
	"os"
	"runtime"
	"sort"
	"strings"
	"time"

	"github.com/itchio/lake"
	"github.com/itchio/lake/pools/fspool"
	"github.com/itchio/lake/tlc"
	"github.com/itchio/wharf/pwr"
)

type leakLine struct {
	Case    int      `json:"case"`
	Fault   string   `json:"fault"` // none | patch | sig | source | transient (patch writer fails one call, then works)
	Target  string   `json:"target"` // transient: type of the message whose first Write fails
	Rebuilds string  `json:"rebuilds"` // transient, WritePatch returned nil: "yes" | "no: <why>" - does the patch rebuild the new build? ("" otherwise)
	At      int64    `json:"at"`    // byte at which the fault fires
	Size    int64    `json:"size"`  // total size of the new build
	Fired   bool     `json:"fired"`
	Err     string   `json:"err"`
	Left    int      `json:"left"`  // goroutines started by taskgroup.Do that are still alive 400 ms after WritePatch returned
	Where   []string `json:"where"` // innermost wharf frame of each
	Algo    string   `json:"algo"`
	ElapsMs int64    `json:"elapsms"`
}

var errInjected = errors.New("injected fault")

type failingWriter struct {
	w     io.Writer
	left  int64
	fired *bool
}

func (f *failingWriter) Write(p []byte) (int, error) {
	if int64(len(p)) > f.left {
		n := int(f.left)
		f.w.Write(p[:n])
		f.left = 0
		*f.fired = true
		return n, errInjected
	}
	f.left -= int64(len(p))
	return f.w.Write(p)
}

// transientWriter fails exactly ONE Write call (writing nothing of it) once `left` bytes went through, and works
// again afterwards: a writer whose errors are not sticky (the io.Writer contract does not promise they are).
type transientWriter struct {
	w     io.Writer
	left  int64
	fired *bool
}

func (f *transientWriter) Write(p []byte) (int, error) {
	if !*f.fired && int64(len(p)) > f.left {
		*f.fired = true
		return 0, errInjected
	}
	f.left -= int64(len(p))
	return f.w.Write(p)
}

type failingPool struct {
	lake.Pool
	left  int64
	fired *bool
}

type failingReader struct {
	r io.Reader
	p *failingPool
}

func (f *failingReader) Read(b []byte) (int, error) {
	if f.p.left <= 0 {
		*f.p.fired = true
		return 0, errInjected
	}
	if int64(len(b)) > f.p.left {
		b = b[:f.p.left]
	}
	n, err := f.r.Read(b)
	f.p.left -= int64(n)
	return n, err
}

func (p *failingPool) GetReader(i int64) (io.Reader, error) {
	r, err := p.Pool.GetReader(i)
	if err != nil {
		return nil, err
	}
	return &failingReader{r: r, p: p}, nil
}

// taskGoroutines returns, for every live goroutine started by taskgroup.Do, its id and innermost frame inside wharf.
func taskGoroutines() map[string]string {
	buf := make([]byte, 8<<20)
	buf = buf[:runtime.Stack(buf, true)]
	out := map[string]string{}
	for _, g := range strings.Split(string(buf), "\n\n") {
		if !strings.Contains(g, "taskgroup.Do.func1") {
			continue
		}
		where := "?"
		for _, ln := range strings.Split(g, "\n") {
			if strings.HasPrefix(ln, "github.com/itchio/wharf/") {
				where = strings.TrimPrefix(ln[:strings.LastIndex(ln, "(")], "github.com/itchio/wharf/")
				break
			}
		}
		out[strings.SplitN(g, " ", 3)[1]] = where
	}
	return out
}

func cmdDiffLeak(args []string) error {
	fs := flag.NewFlagSet("diffleak", flag.ExitOnError)
	n := fs.Int("n", 40, "cases")
	first := fs.Int("first", 0, "first case")
	out := fs.String("out", "diffleak.ndjson", "trace output")
	fs.Parse(args)
	w, err := newNDJSON(*out)
	if err != nil {
		return err
	}
	for k := *first; k < *first+*n; k++ {
		rng := newRand(int64(88000 + k))
		old, new := newTree(), newTree()
		// a few files, the largest spanning many pipe writes (ctxcopy copies 16 KiB at a time)
		sizes := []int{0, 1000, BS, 3*BS + 17, 9*BS + rng.Intn(BS)}
		for i, sz := range sizes {
			c := randBytes(rng, sz)
			new.Files[fmt.Sprintf("f%d.bin", i)] = c
			if i%2 == 0 {
				old.Files[fmt.Sprintf("f%d.bin", i)] = c
			}
		}
		// a file whose ops are emitted WHILE it is read: old blocks alternating with fresh data (a file that is all
		// fresh or all reused is written as one op after the end of the stream was seen)
		base := randBytes(rng, 12*BS)
		var mixed []byte
		for i := 0; i < 12; i++ {
			mixed = append(append(mixed, base[i*BS:(i+1)*BS]...), randBytes(rng, 3000)...)
		}
		old.Files["a-mix.bin"], new.Files["a-mix.bin"] = base, mixed
		root, oldDir, newDir, err := materialisePair(old, new)
		if err != nil {
			return err
		}
		targetContainer, _ := tlc.WalkAny(oldDir, tlc.WalkOpts{})
		sourceContainer, err := tlc.WalkAny(newDir, tlc.WalkOpts{})
		if err != nil {
			return err
		}
		targetSig, err := pwr.ComputeSignature(context.Background(), targetContainer, fspool.New(targetContainer, oldDir), nullConsumer())
		if err != nil {
			return err
		}
		algo := []string{"NONE", "GZIP", "BROTLI"}[k%3]
		line := leakLine{Case: k, Fault: []string{"none", "patch", "sig", "source", "transient"}[k%5], Size: sourceContainer.Size, Algo: algo, Where: []string{}}
		var pool lake.Pool = fspool.New(sourceContainer, newDir)
		var patch, sig bytes.Buffer
		var pw, sw io.Writer = &patch, &sig
		switch line.Fault {
		case "patch":
			// (the patch carries the fresh data: roughly half of the build)
			line.At = []int64{rng.Int63n(40000), rng.Int63n(250000)}[k/4%2]
			pw = &failingWriter{w: &patch, left: line.At, fired: &line.Fired}
		case "sig":
			line.At = rng.Int63n(sourceContainer.Size/2048 + 64)
			sw = &failingWriter{w: &sig, left: line.At, fired: &line.Fired}
		case "transient":
			// aimed at the first Write of a chosen message of the uncompressed patch (positions from a clean run)
			algo, line.Algo = "NONE", "NONE"
			var cp, cs bytes.Buffer
			clean := &pwr.DiffContext{Compression: compressionOf(algo, 1), Consumer: nullConsumer(), SourceContainer: sourceContainer, Pool: pool,
				TargetContainer: targetContainer, TargetSignature: targetSig}
			if err := clean.WritePatch(context.Background(), &cp, &cs); err != nil {
				return err
			}
			d := decodePatch(cp.Bytes())
			if d.Err != "" {
				return fmt.Errorf("decode: %s", d.Err)
			}
			var ops []pmsg
			for _, m := range d.Msgs {
				if m.K == "OP" && m.Ty != "END" {
					ops = append(ops, m)
				}
			}
			m := ops[rng.Intn(len(ops))]
			line.At = int64(d.HeaderEnd) + m.Start
			line.Target = m.Ty
			pw = &transientWriter{w: &patch, left: line.At, fired: &line.Fired}
		case "source":
			line.At = rng.Int63n(sourceContainer.Size + 1)
			pool = &failingPool{Pool: pool, left: line.At, fired: &line.Fired}
		}
		before := taskGoroutines()
		dctx := &pwr.DiffContext{Compression: compressionOf(algo, 1), Consumer: nullConsumer(), SourceContainer: sourceContainer, Pool: pool,
			TargetContainer: targetContainer, TargetSignature: targetSig}
		t0 := time.Now()
		if err := dctx.WritePatch(context.Background(), pw, sw); err != nil {
			line.Err = err.Error()
			if len(line.Err) > 200 {
				line.Err = line.Err[:200]
			}
		}
		line.ElapsMs = time.Since(t0).Milliseconds()
		if line.Fault == "transient" && line.Err == "" {
			outDir := root + "/out"
			res := realApplyPatch(patch.Bytes(), applyOpts{Bowl: "fresh", OldDir: oldDir, OutDir: outDir})
			if res.Err != nil {
				line.Rebuilds = "no: apply fails: " + res.Err.Error()
			} else {
				want, _ := snapshot(newDir)
				got, _ := snapshot(outDir)
				if d := diffSnap(want, got); len(d) > 0 {
					line.Rebuilds = fmt.Sprintf("no: %d entries differ, e.g. %s", len(d), d[0])
				} else {
					line.Rebuilds = "yes"
				}
			}
			if len(line.Rebuilds) > 200 {
				line.Rebuilds = line.Rebuilds[:200]
			}
		}
		// grace period: tasks that are merely slow get 400 ms to return
		for i := 0; i < 8; i++ {
			time.Sleep(50 * time.Millisecond)
			line.Left, line.Where = 0, []string{}
			for id, where := range taskGoroutines() {
				if _, was := before[id]; !was {
					line.Left++
					line.Where = append(line.Where, where)
				}
			}
			if line.Left == 0 {
				break
			}
		}
		sort.Strings(line.Where)
		w.emit(line)
		w.flush()
		os.RemoveAll(root)
	}
	fmt.Printf("{\"lines\":%d}\n", w.n)
	return w.close()
}

func init() {
	register("diffleak", "growth: WritePatch with a failing writer / source, goroutines left behind", cmdDiffLeak)
}
