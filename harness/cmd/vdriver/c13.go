package main

// C13: message sequences written through the real wire.WriteContext (+ pwr.CompressWire), read back through the
// real wire.ReadContext (+ pwr.DecompressWire); WantSave per a seeded schedule, PopCheckpoint at every message
// boundary, every popped checkpoint gob-round-tripped into a brand-new reader over the same bytes.

import (
	"bytes"
	"encoding/gob"
	"flag"
	"fmt"
	"io"
	"math/rand"
	"os"

	"github.com/golang/protobuf/proto"
	"github.com/itchio/savior"
	"github.com/itchio/savior/seeksource"
	"github.com/itchio/wharf/pwr"
	"github.com/itchio/wharf/wire"
	"github.com/pkg/errors"

	_ "github.com/itchio/wharf/compressors/cbrotli"
	_ "github.com/itchio/wharf/compressors/gzip"
	_ "github.com/itchio/wharf/decompressors/cbrotli"
	_ "github.com/itchio/wharf/decompressors/gzip"
)

const c13Magic = int32(0x0C13C13)

type wireEvent struct {
	E      string `json:"e"` // want | msg | pop | eof | err
	Idx    int    `json:"idx"`
	Ok     bool   `json:"ok"`     // msg: payload digest and length match what was written
	Off    int64  `json:"off"`    // pop: reader offset of the checkpoint, -1 = no checkpoint
	SrcOff int64  `json:"srcoff"` // pop: offset of the source checkpoint
	Emit   int64  `json:"emit"`   // msg: offset of the source checkpoint handed over during this read (-1 none)
	Msg    string `json:"msg,omitempty"`
}

type wireSession struct {
	Case    int         `json:"case"`
	Algo    string      `json:"algo"`
	Q       int32       `json:"q"`
	MLens   []int       `json:"mlens"` // marshalled length of every message
	Start   int         `json:"start"` // 0: first reader; k>0: resumed from the checkpoint popped after k messages
	CpOff   int64       `json:"cpoff"`
	CpSrc   int64       `json:"cpsrc"`
	Events  []wireEvent `json:"events"`
	Desc    string      `json:"desc"`
	Bytes   int         `json:"bytes"`
	Gran    int64       `json:"gran"`    // > 1: the source under a resumed reader restarts only at multiples of this
	Rewound int         `json:"rewound"` // > 0: not a new reader but one that had read this many messages and was rewound with Resume(cp)
}

// coarseSource: a seek source that can only restart at multiples of gran (a patch served by something that resumes on
// block boundaries, or only from the start). savior.Source's contract: Resume RETURNS the offset it really resumed at,
// which may be earlier than the checkpoint's; the reader has to discard the difference.
type coarseSource struct {
	savior.SeekSource
	gran int64
}

func (c *coarseSource) Resume(cp *savior.SourceCheckpoint) (int64, error) {
	if cp == nil {
		return c.SeekSource.Resume(nil)
	}
	aligned := cp.Offset / c.gran * c.gran
	if aligned == 0 {
		return c.SeekSource.Resume(nil)
	}
	return c.SeekSource.Resume(&savior.SourceCheckpoint{Offset: aligned})
}

func (c *coarseSource) Section(start int64, size int64) (savior.SeekSource, error) {
	s, err := c.SeekSource.Section(start, size)
	if err != nil {
		return nil, err
	}
	return &coarseSource{SeekSource: s, gran: c.gran}, nil
}

func openReader(stream []byte, gran int64) (*wire.ReadContext, error) {
	var src savior.SeekSource = seeksource.FromBytes(stream)
	if gran > 1 {
		src = &coarseSource{SeekSource: src, gran: gran}
	}
	if _, err := src.Resume(nil); err != nil {
		return nil, err
	}
	raw := wire.NewReadContext(src)
	if err := raw.ExpectMagic(c13Magic); err != nil {
		return nil, err
	}
	h := &pwr.PatchHeader{}
	if err := raw.ReadMessage(h); err != nil {
		return nil, err
	}
	return pwr.DecompressWire(raw, h.Compression)
}

func gobRoundTrip(c *wire.MessageReaderCheckpoint) (*wire.MessageReaderCheckpoint, error) {
	var buf bytes.Buffer
	if err := gob.NewEncoder(&buf).Encode(c); err != nil {
		return nil, err
	}
	out := &wire.MessageReaderCheckpoint{}
	if err := gob.NewDecoder(&buf).Decode(out); err != nil {
		return nil, err
	}
	return out, nil
}

func c13Sizes(rng *rand.Rand, k int) (sizes []int, desc string) {
	classes := []int{0, 1, 2, 120, 127, 128, 129, 16380, 16383, 16384, 32760, 32767, 32768, 32769, 65535, 65536, 65537, 131071, 131072, 131073}
	switch k % 6 {
	case 0: // many small messages
		n := 20 + rng.Intn(40)
		for i := 0; i < n; i++ {
			sizes = append(sizes, rng.Intn(300))
		}
		desc = "many-small"
	case 1: // boundary classes around the varint steps, the 32KiB reusable buffer and its growth steps
		n := 8 + rng.Intn(10)
		for i := 0; i < n; i++ {
			sizes = append(sizes, classes[rng.Intn(len(classes))])
		}
		desc = "boundary-classes"
	case 2: // large then small (buffer grown, then reused)
		sizes = []int{4<<20 + 17 + rng.Intn(1000), 3, 0, 70000, 1, 5<<20 + rng.Intn(1000), 0, 0, 9}
		desc = "large-then-small"
	case 3: // empty messages only
		n := 1 + rng.Intn(12)
		for i := 0; i < n; i++ {
			sizes = append(sizes, 0)
		}
		desc = "all-empty"
	case 4: // growth steps: each message just above the previous power of two
		for s := 32 * 1024; s <= 2<<20; s *= 2 {
			sizes = append(sizes, s-3+rng.Intn(7))
		}
		desc = "growth-steps"
	default:
		n := 1 + rng.Intn(14)
		for i := 0; i < n; i++ {
			if rng.Intn(3) == 0 {
				sizes = append(sizes, classes[rng.Intn(len(classes))])
			} else {
				sizes = append(sizes, rng.Intn(200000))
			}
		}
		desc = "mixed"
	}
	if k%11 == 5 {
		sizes = []int{}
		desc = "no-messages"
	}
	if k%4 == 2 {
		// the stream ENDS with messages of size 0 (half of which are written as messages that marshal to zero
		// bytes: nothing but a one-byte length prefix at the very end of the - possibly compressed - stream)
		for i := 0; i < 1+rng.Intn(3); i++ {
			sizes = append(sizes, 0)
		}
		desc += "+trailing-empty"
	}
	return
}

func cmdC13(args []string) error {
	fs := flag.NewFlagSet("c13", flag.ExitOnError)
	n := fs.Int("n", 20, "cases")
	first := fs.Int("first", 0, "first case index")
	out := fs.String("out", "c13.ndjson", "trace output")
	fs.Parse(args)
	w, err := newNDJSON(*out)
	if err != nil {
		return err
	}
	type comp struct {
		a pwr.CompressionAlgorithm
		q int32
	}
	var comps []comp
	comps = append(comps, comp{pwr.CompressionAlgorithm_NONE, 0})
	for q := int32(-2); q <= 9; q++ {
		comps = append(comps, comp{pwr.CompressionAlgorithm_GZIP, q})
	}
	for q := int32(0); q <= 11; q++ {
		comps = append(comps, comp{pwr.CompressionAlgorithm_BROTLI, q})
	}
	for k := *first; k < *first+*n; k++ {
		rng := newRand(int64(13000 + k))
		sizes, desc := c13Sizes(rng, k)
		cs := comps[k%len(comps)]
		if k%3 == 0 {
			cs = comps[0]
		}
		total := 0
		for _, s := range sizes {
			total += s
		}
		if cs.a == pwr.CompressionAlgorithm_BROTLI && cs.q >= 10 && total > 1<<20 {
			cs.q = 9 // q10/q11 take seconds per MiB
		}
		// ---- write
		var stream bytes.Buffer
		raw := wire.NewWriteContext(&stream)
		must(raw.WriteMagic(c13Magic))
		settings := &pwr.CompressionSettings{Algorithm: cs.a, Quality: cs.q}
		must(raw.WriteMessage(&pwr.PatchHeader{Compression: settings}))
		// a COMPANION stream with the same compression settings whose lifetime overlaps the stream under test (the
		// differ has the patch wire and the signature wire open at the same time, with one setting): opened before
		// or after it, fed in between, closed after it. A registered compressor is a process-wide object.
		var companion *wire.WriteContext
		var companionBuf bytes.Buffer
		// (errors of the writing side are behaviour of the code under test: recorded, not fatal to the driver)
		var werr error
		note := func(err error) {
			if err != nil && werr == nil {
				werr = err
			}
		}
		openCompanion := func() {
			c, err := pwr.CompressWire(wire.NewWriteContext(&companionBuf), settings)
			note(err)
			companion = c
		}
		if k%4 == 1 {
			openCompanion() // opened before the stream under test
		}
		wc, err := pwr.CompressWire(raw, settings)
		if err != nil {
			return err
		}
		if k%4 == 3 {
			openCompanion() // opened after the stream under test
		}
		var shas []string
		var mlens []int
		for i, s := range sizes {
			if companion != nil && i%2 == 0 {
				note(companion.WriteMessage(&pwr.SyncOp{Type: pwr.SyncOp_DATA, FileIndex: int64(i), Data: bytes.Repeat([]byte{0xc0}, 1+i*37)}))
			}
			if s == 0 && rng.Intn(2) == 0 {
				// a message that marshals to ZERO bytes (every field at its default) - any all-default proto3 message
				// does, e.g. the SyncHeader of file 0 in every patch
				mlens = append(mlens, 0)
				shas = append(shas, "EMPTY")
				note(wc.WriteMessage(&pwr.SyncOp{}))
				continue
			}
			var data []byte
			switch rng.Intn(3) {
			case 0:
				data = randBytes(rng, s)
			case 1:
				data = bytes.Repeat([]byte{byte(i)}, s) // compressible
			default:
				data = randBytes(rng, s)
				for j := range data {
					data[j] &= 0x0f
				}
			}
			msg := &pwr.SyncOp{Type: pwr.SyncOp_DATA, FileIndex: int64(i), Data: data}
			b, err := proto.Marshal(msg)
			must(err)
			mlens = append(mlens, len(b))
			shas = append(shas, sha(data))
			note(wc.WriteMessage(msg))
		}
		note(wc.Close())
		if companion != nil {
			note(companion.WriteMessage(&pwr.SyncOp{Type: pwr.SyncOp_HEY_YOU_DID_IT}))
			note(companion.Close())
		}
		if werr != nil {
			if mlens == nil {
				mlens = []int{}
			}
			w.emit(&wireSession{Case: k, Algo: cs.a.String(), Q: cs.q, MLens: mlens, Start: 0, Desc: desc + " (writer side)", Bytes: stream.Len(), Gran: 1,
				Events: []wireEvent{{E: "err", Msg: "writing: " + werr.Error(), Off: -1, Emit: -1}}})
			continue
		}
		sbytes := stream.Bytes()
		if mlens == nil {
			mlens = []int{}
		}

		// ---- one reading session, from boundary `start` (checkpoint cp) to the end
		// rewindAfter > 0: the reader is NOT new. It first reads rewindAfter messages from the start of the stream, is
		// asked to save on the way (WantSave before the last of them, or after it when lateWant) and nobody pops; then
		// the SAME reader is rewound with Resume(cp) - what a patcher object that is resumed a second time does.
		session := func(start int, cp *wire.MessageReaderCheckpoint, wantEvery int, collect bool, rewindAfter int, lateWant bool) (rse *wireSession, rcps []*wire.MessageReaderCheckpoint, rat []int) {
			se := &wireSession{Case: k, Algo: cs.a.String(), Q: cs.q, MLens: mlens, Start: start, Desc: desc, Bytes: len(sbytes), Events: []wireEvent{}, Gran: 1}
			if rewindAfter > 0 {
				se.Desc = fmt.Sprintf("%s (same reader rewound after %d messages with a save pending, lateWant=%v)", desc, rewindAfter, lateWant)
				se.Rewound = rewindAfter
			}
			var cps []*wire.MessageReaderCheckpoint
			var at []int
			fail := func(err error) (*wireSession, []*wire.MessageReaderCheckpoint, []int) {
				se.Events = append(se.Events, wireEvent{E: "err", Msg: fmt.Sprintf("%v", err), Off: -1, Emit: -1})
				return se, cps, at
			}
			defer func() {
				if r := recover(); r != nil {
					se.Events = append(se.Events, wireEvent{E: "err", Msg: fmt.Sprintf("panic: %v", r), Off: -1, Emit: -1})
					rse, rcps, rat = se, cps, at
				}
			}()
			// a resumed reader may sit on a source that restarts earlier than the checkpoint says
			gran := int64(1)
			if cp != nil {
				gran = []int64{1, 1, 4096, 1 << 30}[(start+k)%4]
			}
			se.Gran = gran
			reuseDest := (start+k)%2 == 0
			dest := &pwr.SyncOp{Type: pwr.SyncOp_DATA, FileIndex: 77, Data: []byte("left over from an earlier read")}
			rc, err := openReader(sbytes, gran)
			if err != nil {
				return fail(err)
			}
			for m := 0; m < rewindAfter; m++ {
				if m == rewindAfter-1 && !lateWant {
					rc.WantSave()
				}
				if err := rc.ReadMessage(&pwr.SyncOp{}); err != nil {
					return fail(errors.WithMessage(err, "before rewinding"))
				}
			}
			if rewindAfter > 0 && lateWant {
				rc.WantSave()
			}
			if cp != nil {
				se.CpOff, se.CpSrc = cp.Offset, -1
				if cp.SourceCheckpoint != nil {
					se.CpSrc = cp.SourceCheckpoint.Offset
				}
				if err := rc.Resume(cp); err != nil {
					return fail(err)
				}
			}
			// a companion READER over the companion stream, with the same settings, read in step with the stream under
			// test (registered decompressors are process-wide objects too)
			var crc *wire.ReadContext
			if companionBuf.Len() > 0 {
				csrc := seeksource.FromBytes(companionBuf.Bytes())
				if _, err := csrc.Resume(nil); err == nil {
					crc, _ = pwr.DecompressWire(wire.NewReadContext(csrc), settings)
				}
			}
			idx := start
			for {
				if crc != nil {
					if err := crc.ReadMessage(&pwr.SyncOp{}); err != nil {
						crc = nil
					}
				}
				// boundary: maybe WantSave, always Pop
				if wantEvery > 0 && (idx-start)%wantEvery == 0 {
					rc.WantSave()
					se.Events = append(se.Events, wireEvent{E: "want", Off: -1, Emit: -1})
				}
				if rewindAfter > 0 && idx == start {
					// a rewound reader has read nothing since Resume: whatever it pops here predates the rewinding
					c := rc.PopCheckpoint()
					pe := wireEvent{E: "pop", Idx: idx, Off: -1, SrcOff: -1, Emit: -1}
					if c != nil {
						pe.Off = c.Offset
						if c.SourceCheckpoint != nil {
							pe.SrcOff = c.SourceCheckpoint.Offset
						}
						if collect {
							if rt, err := gobRoundTrip(c); err == nil {
								cps = append(cps, rt)
								at = append(at, idx)
							}
						}
					}
					se.Events = append(se.Events, pe)
				}
				// (callers keep ONE message object and read every message into it; half of the sessions do the same)
				op := &pwr.SyncOp{}
				if reuseDest {
					op = dest
				}
				err := rc.ReadMessage(op)
				if err != nil {
					if errors.Cause(err) == io.EOF {
						se.Events = append(se.Events, wireEvent{E: "eof", Idx: idx, Off: -1, Emit: -1})
						return se, cps, at
					}
					return fail(err)
				}
				idx++
				ok := int(op.FileIndex) == idx-1 && idx-1 < len(shas) && sha(op.Data) == shas[idx-1] && op.Type == pwr.SyncOp_DATA
				if idx-1 < len(shas) && shas[idx-1] == "EMPTY" {
					ok = op.Type == pwr.SyncOp_BLOCK_RANGE && op.FileIndex == 0 && op.BlockIndex == 0 && op.BlockSpan == 0 && len(op.Data) == 0
				}
				ev := wireEvent{E: "msg", Idx: idx, Ok: ok, Off: -1, Emit: -1}
				c := rc.PopCheckpoint()
				pe := wireEvent{E: "pop", Idx: idx, Off: -1, SrcOff: -1, Emit: -1}
				if c != nil {
					pe.Off = c.Offset
					if c.SourceCheckpoint != nil {
						pe.SrcOff = c.SourceCheckpoint.Offset
					}
					ev.Emit = pe.SrcOff
					if collect {
						rt, err := gobRoundTrip(c)
						if err != nil {
							return fail(err)
						}
						cps = append(cps, rt)
						at = append(at, idx)
					}
				}
				se.Events = append(se.Events, ev, pe)
			}
		}
		wantEvery := 1
		if k%4 == 3 {
			wantEvery = 1 + rng.Intn(4)
		}
		s0, cps, at := session(0, nil, wantEvery, true, 0, false)
		w.emit(s0)
		w.flush()
		// resume from every popped checkpoint (bounded for very long streams)
		step := 1
		if len(cps) > 24 {
			step = len(cps) / 24
		}
		for i := 0; i < len(cps); i += step {
			fresh, err := gobRoundTrip(cps[i])
			if err != nil {
				return err
			}
			sr, _, _ := session(at[i], fresh, 1+rng.Intn(3), false, 0, false)
			w.emit(sr)
			w.flush()
		}
		// rewound readers: back to an earlier checkpoint with a save still pending; every checkpoint popped afterwards
		// goes to a new reader like any other
		for j := 0; j < 3 && len(cps) >= 1; j++ {
			i := rng.Intn(len(cps))
			if at[i] >= len(mlens) {
				continue
			}
			after := at[i] + 1 + rng.Intn(len(mlens)-at[i])
			cpc, err := gobRoundTrip(cps[i])
			if err != nil {
				return err
			}
			if os.Getenv("C13_DEBUG") == "1" {
				fmt.Fprintf(os.Stderr, "case %d: cp %d off=%d used before\n", k, i, cpc.Offset)
			}
			sw, cps2, at2 := session(at[i], cpc, 1+rng.Intn(2), true, after, j == 2)
			w.emit(sw)
			w.flush()
			for q := 0; q < len(cps2) && q < 3; q++ {
				sr, _, _ := session(at2[q], cps2[q], 1+rng.Intn(3), false, 0, false)
				w.emit(sr)
				w.flush()
			}
		}
	}
	fmt.Printf("{\"lines\":%d}\n", w.n)
	return w.close()
}

func init() {
	register("c13", "wire writer/reader round trips with checkpoints under every compression setting", cmdC13)
}
