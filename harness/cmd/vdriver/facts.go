package main

// Digest facts about a decoded patch, computed independently of the patcher: for every op / control the
// digest of the bytes it supplies (from the old build or its payload) and of the new file at the position
// reached so far. TLC does the structural reasoning (tiling, bounds, merging, limits, equality of digests).

import (
	"fmt"
	"os"
	"path/filepath"
	"sort"

	"github.com/itchio/lake/tlc"
)

type opFact struct {
	K    string `json:"k"` // SH | OP | BH | CTL
	Ty   string `json:"ty"`
	Fi   int64  `json:"fi"`
	F    int64  `json:"f"`
	I    int64  `json:"i"`
	N    int64  `json:"n"`
	Len  int64  `json:"len"` // bytes the message contributes to the output (BR: bytes available in the old file)
	Pos  int64  `json:"pos"` // output position the harness had reached before this message
	Src  string `json:"src"` // digest of the bytes supplied
	New  string `json:"new"` // digest of new[pos:pos+len]
	Add  int64  `json:"add"`
	Copy int64  `json:"copy"`
	Seek int64  `json:"seek"`
	EOF  bool   `json:"eof"`
	Tgt  int64  `json:"tgt"`
	Off  int64  `json:"off"` // CTL: the harness' running old offset before the control
	Start int64 `json:"start"`
	End  int64  `json:"end"`
}

func readContainerFile(dir string, c *tlc.Container, idx int64) []byte {
	if idx < 0 || idx >= int64(len(c.Files)) {
		return nil
	}
	b, err := os.ReadFile(filepath.Join(dir, filepath.FromSlash(c.Files[idx].Path)))
	if err != nil {
		return nil
	}
	return b
}

// patchFacts walks the decoded messages series by series.
func patchFacts(d *decoded, oldDir, newDir string) []opFact {
	facts := make([]opFact, 0, len(d.Msgs))
	var newContent, oldContent []byte
	var pos, off int64
	oldCache := map[int64][]byte{}
	getOld := func(i int64) []byte {
		if b, ok := oldCache[i]; ok {
			return b
		}
		b := readContainerFile(oldDir, d.Target, i)
		oldCache[i] = b
		return b
	}
	clipNew := func(n int64) string {
		if pos+n <= int64(len(newContent)) && n >= 0 {
			return sha(newContent[pos : pos+n])
		}
		return ""
	}
	for _, m := range d.Msgs {
		f := opFact{K: m.K, Ty: m.Ty, Fi: m.Fi, F: m.F, I: m.I, N: m.N, Add: m.Add, Copy: m.Copy, Seek: m.Seek, EOF: m.EOF, Tgt: m.Tgt, Start: m.Start, End: m.End}
		switch m.K {
		case "SH":
			newContent = readContainerFile(newDir, d.Source, m.Fi)
			pos, off = 0, 0
		case "BH":
			oldContent = getOld(m.Tgt)
			off = 0
		case "OP":
			f.Pos = pos
			switch m.Ty {
			case "DATA":
				f.Len = m.Len
				f.Src = sha(m.data)
				f.New = clipNew(f.Len)
				pos += f.Len
			case "BR":
				o := getOld(m.F)
				a, b := m.I*BS, (m.I+m.N)*BS
				if a < 0 {
					a = 0
				}
				if a > int64(len(o)) {
					a = int64(len(o))
				}
				if b > int64(len(o)) {
					b = int64(len(o))
				}
				if b < a {
					b = a
				}
				f.Len = b - a
				f.Src = sha(o[a:b])
				f.New = clipNew(f.Len)
				pos += f.Len
			}
		case "CTL":
			f.Pos, f.Off = pos, off
			f.Len = m.Add + m.Copy
			if !m.EOF {
				if off >= 0 && off+m.Add <= int64(len(oldContent)) {
					sum := make([]byte, m.Add)
					for i := range sum {
						sum[i] = oldContent[off+int64(i)] + m.add[i]
					}
					f.Src = sha(append(sum, m.data...))
				}
				f.New = clipNew(f.Len)
				pos += f.Len
				off += m.Add + m.Seek
			}
		}
		facts = append(facts, f)
	}
	return facts
}

func sizesOf(c *tlc.Container) []int64 {
	r := make([]int64, len(c.Files))
	for i, f := range c.Files {
		r[i] = f.Size
	}
	return r
}

func pathsOf(c *tlc.Container) []string {
	r := make([]string, len(c.Files))
	for i, f := range c.Files {
		r[i] = f.Path
	}
	return r
}

// snapList renders a snapshot as a sorted list of strings (set equality is decided by TLC).
func snapList(s map[string]snapEntry) []string {
	r := make([]string, 0, len(s))
	for p, e := range s {
		switch e.Kind {
		case "file":
			r = append(r, fmt.Sprintf("file|%s|%d|%s", p, e.Size, e.Sha))
		case "symlink":
			r = append(r, fmt.Sprintf("symlink|%s|%s", p, e.Dest))
		default:
			r = append(r, e.Kind+"|"+p)
		}
	}
	sort.Strings(r)
	return r
}
