package main

import "github.com/itchio/headway/state"

func nullConsumer() *state.Consumer { return &state.Consumer{} }
