//go:build verif

package main

// C16: the real ValidatorContext.Validate under damage patterns, consumers, cancellation instants and schedules.
// Hooks (github.com/itchio/wharf/verifhook, -tags verif) give per-goroutine logs, seeded jitter, and exact
// cancellation instants ("cancel when the main goroutine is about to dispatch file i").

import (
	"context"
	"flag"
	"fmt"
	"math/rand"
	"os"
	"path/filepath"
	"runtime"
	"strings"
	"sync"
	"time"

	"github.com/itchio/wharf/archiver"
	"github.com/itchio/wharf/pwr"
	"github.com/itchio/wharf/verifhook"
)

type c16Run struct {
	Case      int                 `json:"case"`
	NFiles    int                 `json:"nfiles"`
	Kinds     []string            `json:"kinds"` // ok | bad | missing, per file
	NDirW     int                 `json:"ndirw"` // missing directories / symlinks
	Consumer  string              `json:"consumer"`
	Cancel    string              `json:"cancel"` // none | before | at:<point>:<arg> | async
	Cancelled bool                `json:"cancelled"`
	Procs     int                 `json:"procs"`
	Returned  bool                `json:"returned"`
	Ret       string              `json:"ret"` // nil | wound | cancelled | other
	RetMsg    string              `json:"retmsg"`
	Damaged   bool                `json:"damaged"`
	Leak      int                 `json:"leak"`
	WoundsInFile int              `json:"woundsinfile"`
	Logs      map[string][]hookEv `json:"logs"`
	WallMs    int64               `json:"wallms"`
}

type hookEv struct {
	P string `json:"p"`
	A int64  `json:"a"`
}

type hookRec struct {
	mu       sync.Mutex
	logs     map[string][]hookEv
	record   bool
	jitter   *rand.Rand
	jmu      sync.Mutex
	cancelAt string
	cancelA  int64
	cancelB  int64 // -1: any
	afterCancelUs int
	cancel   context.CancelFunc
	fired    bool
}

func (h *hookRec) handle(point string, a, b int64) {
	role := strings.SplitN(point, ".", 2)[0]
	if h.record {
		h.mu.Lock()
		h.logs[role] = append(h.logs[role], hookEv{point, a})
		h.mu.Unlock()
	}
	if h.cancelAt == point && h.cancelA == a && (h.cancelB < 0 || h.cancelB == b) {
		h.mu.Lock()
		fire := !h.fired
		h.fired = true
		if fire && h.record {
			h.logs["e"] = append(h.logs["e"], hookEv{"e.cancel", 0})
		}
		h.mu.Unlock()
		if fire {
			h.cancel()
			if role == "h" {
				// the healer's helper goroutine reacts to the cancellation on its own schedule
				time.Sleep(time.Duration(h.afterCancelUs) * time.Microsecond)
			}
		}
	}
	if h.jitter != nil {
		h.jmu.Lock()
		d := h.jitter.Intn(4)
		us := h.jitter.Intn(300)
		h.jmu.Unlock()
		switch d {
		case 0:
			runtime.Gosched()
		case 1:
			time.Sleep(time.Duration(us) * time.Microsecond)
		}
	}
}

func cmdC16(args []string) error {
	fs := flag.NewFlagSet("c16", flag.ExitOnError)
	n := fs.Int("n", 10, "cases")
	first := fs.Int("first", 0, "first case")
	small := fs.Bool("small", false, "only small configurations with per-goroutine logs (for conformance with Validator.tla)")
	out := fs.String("out", "c16.ndjson", "trace output")
	fs.Parse(args)
	w, err := newNDJSON(*out)
	if err != nil {
		return err
	}
	for k := *first; k < *first+*n; k++ {
		rng := newRand(int64(16000 + k))
		run := c16Run{Case: k, Logs: map[string][]hookEv{"m": {}, "w": {}, "c": {}, "e": {}}}
		// ---- configuration
		switch {
		case *small:
			run.NFiles = rng.Intn(4)
		case k%10 == 9:
			run.NFiles = 1100 + rng.Intn(400) // more wounds than the 1024-slot channel holds
		default:
			run.NFiles = rng.Intn(8)
		}
		pattern := rng.Intn(5)
		// "the directory is in any state": besides changed and missing content, a file entry may be a symlink to
		// a file with exactly the signed content ("linked"), a symlink to an endless source ("endless"), a directory,
		// longer or shorter than signed. (The small configurations bound to Validator.tla keep the model's kinds.)
		dmg := []string{"bad", "missing"}
		if !*small {
			// ("wide": at least 64 contiguous damaged blocks in a file of unchanged size - the wound aggregator's limit)
			// ("bad-early": one flipped byte in the FIRST block of a file of several blocks, size unchanged - healthy blocks
			//  of the same file follow the wound through the per-file relay and the aggregator)
			dmg = []string{"bad", "missing", "bad-early", "missing", "linked", "endless", "dir", "longer", "shorter", "wide", "bad-early", "bad-early"}
		}
		for i := 0; i < run.NFiles; i++ {
			kind := "ok"
			switch pattern {
			case 0: // all fine
			case 1: // damage only in the last file
				if i == run.NFiles-1 {
					kind = dmg[rng.Intn(len(dmg))]
				}
			case 2: // everything damaged
				kind = dmg[rng.Intn(len(dmg))]
			default:
				if rng.Intn(2) == 0 {
					kind = dmg[rng.Intn(len(dmg))]
				}
			}
			run.Kinds = append(run.Kinds, kind)
		}
		if run.Kinds == nil {
			run.Kinds = []string{}
		}
		if !*small && rng.Intn(4) == 0 {
			run.NDirW = 1 + rng.Intn(2)
		}
		run.Consumer = []string{"guardian", "guardian", "writer", "printer", "failing", "healer"}[rng.Intn(6)]
		if *small {
			run.Consumer = []string{"guardian", "printer", "failing"}[rng.Intn(3)]
		}
		switch c := rng.Intn(7); {
		case c == 6 && run.NFiles > 0:
			// the worker is about to validate file i (for the last file: every index has been dispatched, the
			// consumer sees the cancellation before the file's wound exists)
			i := run.NFiles - 1
			if rng.Intn(3) == 0 {
				i = rng.Intn(run.NFiles)
			}
			run.Cancel = fmt.Sprintf("at:w.doOne:%d", i)
		case c == 0:
			run.Cancel = "before"
		case c == 1 && run.NFiles > 0:
			run.Cancel = fmt.Sprintf("at:m.select:%d", rng.Intn(run.NFiles))
		case c == 2 && run.NFiles > 0:
			run.Cancel = fmt.Sprintf("at:w.fileDone:%d", rng.Intn(run.NFiles))
		case c == 3:
			run.Cancel = "at:m.closeFI:0" // after the last file was dispatched
		case c == 4 && !*small:
			run.Cancel = "async"
		default:
			run.Cancel = "none"
		}
		if run.Consumer == "healer" && run.NFiles > 0 && rng.Intn(2) == 0 {
			// while the healer is handling the wound of the LAST damaged file (after its own cancellation check)
			last := -1
			for i, kd := range run.Kinds {
				if kd != "ok" {
					last = i
				}
			}
			if last >= 0 {
				run.Cancel = fmt.Sprintf("at:h.wound:%d:%d", int(pwr.WoundKind_FILE), last)
			}
		}
		// a consumer much slower than the worker: the 1024-slot channel fills up and the worker blocks on it; then
		// the consumer leaves (cancellation). Only the drain loop of the consumer goroutine lets Validate return.
		slow := !*small && k%10 == 9 && k%20 == 19
		if slow {
			run.NFiles = 1600
			run.Kinds = make([]string, run.NFiles)
			for i := range run.Kinds {
				run.Kinds[i] = "bad"
			}
			run.Consumer = "printer"
			run.Cancel = "async-late"
		}
		run.Procs = []int{1, 2, 4, 16}[rng.Intn(4)]
		for _, kd := range run.Kinds {
			if kd != "ok" {
				run.Damaged = true
			}
		}
		if run.NDirW > 0 {
			run.Damaged = true
		}

		// ---- build, sign, damage
		root, err := os.MkdirTemp("", "c16-")
		if err != nil {
			return err
		}
		signed := newTree()
		nwide := 0
		for i := 0; i < run.NFiles; i++ {
			sz := 40 + rng.Intn(60)
			if run.NFiles < 20 && rng.Intn(3) == 0 {
				sz = BS + rng.Intn(2*BS)
			}
			if run.Kinds[i] == "bad-early" {
				sz = 3*BS + rng.Intn(BS)
			}
			if run.Kinds[i] == "wide" {
				if nwide < 2 {
					sz = (64+rng.Intn(12))*BS + []int{0, 1, 1234}[rng.Intn(3)]
					nwide++
				} else {
					run.Kinds[i] = "bad"
				}
			}
			signed.Files[fmt.Sprintf("files/f%05d", i)] = randBytes(rng, sz)
		}
		for i := 0; i < run.NDirW; i++ {
			if i%2 == 0 {
				signed.Dirs[fmt.Sprintf("dirs/d%d", i)] = true
			} else {
				signed.Symlinks[fmt.Sprintf("links/l%d", i)] = "target"
			}
		}
		sdir, dir := filepath.Join(root, "signed"), filepath.Join(root, "copy")
		if err := writeTree(sdir, signed); err != nil {
			return err
		}
		si, err := signDir(sdir)
		if err != nil {
			return err
		}
		os.MkdirAll(dir, 0755)
		if err := copyDir(sdir, dir); err != nil {
			return err
		}
		for i, kd := range run.Kinds {
			p := filepath.Join(dir, "files", fmt.Sprintf("f%05d", i))
			switch kd {
			case "bad":
				b, _ := os.ReadFile(p)
				b[len(b)/2] ^= 0xff
				os.WriteFile(p, b, 0644)
			case "missing":
				os.Remove(p)
			case "bad-early":
				b, _ := os.ReadFile(p)
				b[rng.Intn(BS)] ^= 0x10
				os.WriteFile(p, b, 0644)
			case "wide":
				b, _ := os.ReadFile(p)
				from := 0
				if len(b) > 66*BS {
					from = BS * rng.Intn(len(b)/BS-65)
				}
				for j := from; j < len(b) && j < from+65*BS; j++ {
					b[j] ^= 0xa5
				}
				os.WriteFile(p, b, 0644)
			case "linked":
				b, _ := os.ReadFile(p)
				side := filepath.Join(root, fmt.Sprintf("side-%d", i))
				os.WriteFile(side, b, 0644)
				os.Remove(p)
				os.Symlink(side, p)
			case "endless":
				os.Remove(p)
				os.Symlink("/dev/zero", p)
			case "dir":
				os.Remove(p)
				os.MkdirAll(filepath.Join(p, "sub"), 0755)
			case "longer":
				b, _ := os.ReadFile(p)
				os.WriteFile(p, append(b, 'x'), 0644)
			case "shorter":
				b, _ := os.ReadFile(p)
				os.WriteFile(p, b[:len(b)-1], 0644)
			}
		}
		for i := 0; i < run.NDirW; i++ {
			if i%2 == 0 {
				os.Remove(filepath.Join(dir, "dirs", fmt.Sprintf("d%d", i)))
			} else {
				os.Remove(filepath.Join(dir, "links", fmt.Sprintf("l%d", i)))
			}
		}

		// ---- run
		prev := runtime.GOMAXPROCS(run.Procs)
		runtime.GC()
		base := runtime.NumGoroutine()
		ctx, cancel := context.WithCancel(context.Background())
		h := &hookRec{logs: run.Logs, record: *small, cancel: cancel, cancelB: -1, afterCancelUs: []int{0, 50, 500, 2000}[rng.Intn(4)], jitter: rand.New(rand.NewSource(int64(k)*7919 + envSeed()))}
		if strings.HasPrefix(run.Cancel, "at:") {
			parts := strings.Split(run.Cancel, ":")
			h.cancelAt = parts[1]
			fmt.Sscanf(parts[2], "%d", &h.cancelA)
			if len(parts) > 3 {
				fmt.Sscanf(parts[3], "%d", &h.cancelB)
			}
		}
		verifhook.SetHandler(h.handle)
		vctx := &pwr.ValidatorContext{Consumer: nullConsumer()}
		wp := filepath.Join(root, "wounds.pww")
		switch run.Consumer {
		case "guardian":
			vctx.FailFast = true
		case "writer":
			vctx.WoundsPath = wp
		case "failing":
			vctx.WoundsPath = filepath.Join(root, "no-such-dir", "wounds.pww") // os.Create fails at the first wound
		case "healer":
			zp := filepath.Join(root, "archive.zip")
			zf, err := os.Create(zp)
			if err != nil {
				return err
			}
			if _, err := archiver.CompressZip(zf, sdir, nullConsumer()); err != nil {
				return err
			}
			zf.Close()
			vctx.HealPath = "archive," + zp
		case "printer":
			if slow {
				vctx.Consumer.OnMessage = func(string, string) { time.Sleep(20 * time.Millisecond) }
			} else {
				vctx.Consumer.OnMessage = func(string, string) {}
			}
		}
		if run.Cancel == "before" {
			if *small {
				run.Logs["e"] = append(run.Logs["e"], hookEv{"e.cancel", 0})
			}
			cancel()
		}
		if run.Cancel == "async-late" {
			go func() { time.Sleep(1500 * time.Millisecond); cancel() }()
		}
		if run.Cancel == "async" {
			d := time.Duration(rng.Intn(3000)) * time.Microsecond
			go func() { time.Sleep(d); cancel() }()
		}
		done := make(chan error, 1)
		t0 := time.Now()
		go func() { done <- vctx.Validate(ctx, dir, si) }()
		select {
		case err := <-done:
			run.Returned = true
			switch {
			case err == nil:
				run.Ret = "nil"
			default:
				run.RetMsg = err.Error()
				if len(run.RetMsg) > 120 {
					run.RetMsg = run.RetMsg[:120]
				}
				if _, ok := err.(*pwr.ErrHasWound); ok {
					run.Ret = "wound"
				} else if strings.Contains(strings.ToLower(run.RetMsg), "cancel") {
					run.Ret = "cancelled"
				} else {
					run.Ret = "other"
				}
			}
		case <-time.After(10 * time.Second):
			run.Returned = false
		}
		run.WallMs = time.Since(t0).Milliseconds()
		if os.Getenv("VERIF_DEBUG") != "" {
			fmt.Fprintf(os.Stderr, "case %d: wounds chan len=%d cap=%d goroutines=%d base=%d\n", k, len(vctx.Wounds), cap(vctx.Wounds), runtime.NumGoroutine(), base)
		}
		run.Cancelled = ctx.Err() != nil
		cancel()
		// goroutines back to the baseline?
		for i := 0; i < 200 && runtime.NumGoroutine() > base; i++ {
			time.Sleep(10 * time.Millisecond)
		}
		run.Leak = runtime.NumGoroutine() - base
		if run.Leak < 0 {
			run.Leak = 0
		}
		verifhook.SetHandler(nil)
		runtime.GOMAXPROCS(prev)
		if run.Consumer == "writer" {
			if ws, err := readWoundsFile(wp); err == nil {
				run.WoundsInFile = len(ws)
			} else {
				run.WoundsInFile = -1
			}
		}
		w.emit(run)
		w.flush()
		os.RemoveAll(root)
		if !run.Returned {
			// goroutines of this case are stuck for good: start from a clean process for the next case
			fmt.Printf("{\"lines\":%d,\"stuck\":%d}\n", w.n, k)
			w.close()
			os.Exit(7)
		}
	}
	fmt.Printf("{\"lines\":%d}\n", w.n)
	return w.close()
}

func init() {
	register("c16", "real Validate under damage patterns, consumers, cancellation instants and schedules (hooks)", cmdC16)
}
