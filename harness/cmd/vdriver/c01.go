package main

// C01: diff -> apply (fresh bowl) on generated build pairs under every compression setting; the decoded patch
// with digest facts, the differ's counters and the snapshots of the new build and of the produced directory
// are recorded. The same record serves the diff side of C08 and the patch-level clauses of C11.

import (
	"flag"
	"fmt"
	"github.com/itchio/lake"
	"github.com/itchio/lake/tlc"
	"os"
	"path/filepath"

	"github.com/itchio/wharf/pwr"
)

type pairLine struct {
	Case         int      `json:"case"`
	Desc         string   `json:"desc"`
	Env          string   `json:"env"` // environment of the diff (reader behaviour, origin of the old signature)
	Algo         string   `json:"algo"`
	Q            int32    `json:"q"`
	TSizes       []int64  `json:"tsizes"`
	SSizes       []int64  `json:"ssizes"`
	TPaths       []string `json:"tpaths"`
	SPaths       []string `json:"spaths"`
	Msgs         []opFact `json:"msgs"`
	Decoded      bool     `json:"decoded"` // the independent decoder consumed the stream exactly
	DecErr       string   `json:"decerr"`
	Fresh        int64    `json:"fresh"`
	Reused       int64    `json:"reused"`
	DiffErr      string   `json:"differr"`
	ApplyErr     string   `json:"applyerr"`
	Out          []string `json:"out"`
	New          []string `json:"new"`
	PatchLen     int      `json:"patchlen"`
	PrePopulated bool     `json:"prepopulated"`
}

type compSetting struct {
	a string
	q int32
}

func allCompressions() []compSetting {
	cs := []compSetting{{"NONE", 0}}
	for q := int32(-2); q <= 9; q++ {
		cs = append(cs, compSetting{"GZIP", q})
	}
	for q := int32(0); q <= 11; q++ {
		cs = append(cs, compSetting{"BROTLI", q})
	}
	return cs
}

func cmdC01(args []string) error {
	fs := flag.NewFlagSet("c01", flag.ExitOnError)
	n := fs.Int("n", 20, "cases")
	first := fs.Int("first", 0, "first case")
	ncomp := fs.Int("ncomp", 2, "compression settings per pair (seeded choice; 0 = all)")
	big := fs.Bool("big", true, "allow files beyond 4 MiB")
	out := fs.String("out", "c01.ndjson", "trace output")
	fs.Parse(args)
	w, err := newNDJSON(*out)
	if err != nil {
		return err
	}
	comps := allCompressions()
	for k := *first; k < *first+*n; k++ {
		rng := newRand(int64(1000 + k))
		old, new, desc := genPair(rng, k, *big)
		root, oldDir, newDir, err := materialisePair(old, new)
		if err != nil {
			return err
		}
		var chosen []compSetting
		if *ncomp == 0 {
			chosen = comps
		} else {
			chosen = append(chosen, comps[0])
			for len(chosen) < *ncomp {
				c := comps[1+rng.Intn(len(comps)-1)]
				if c.a == "BROTLI" && c.q >= 10 && new.totalSize() > 1<<20 {
					c.q = 9
				}
				chosen = append(chosen, c)
			}
		}
		wantSnap := snapList(new.snapshot())
		for ci, c := range chosen {
			line := pairLine{Case: k, Desc: desc, Algo: c.a, Q: c.q, New: wantSnap, Msgs: []opFact{}, Out: []string{}}
			// the environment of the diff varies too: readers that hand over the last bytes with io.EOF, short reads,
			// an old signature read back from a signature stream
			env := []diffEnv{{}, {SrcEOF: true}, {StoredSig: true}, {SrcEOF: true, SrcChunk: []int{1000, 16384, BS + 1}[k%3], StoredSig: true}}[(k+ci)%4]
			line.Env = env.String()
			dr, err := realDiffDirsEnv(oldDir, newDir, compressionOf(c.a, c.q), env)
			if err != nil {
				line.DiffErr = err.Error()
				w.emit(line)
				continue
			}
			line.Fresh, line.Reused, line.PatchLen = dr.Fresh, dr.Reused, len(dr.Patch)
			line.TSizes, line.SSizes, line.TPaths, line.SPaths = sizesOf(dr.Target), sizesOf(dr.Source), pathsOf(dr.Target), pathsOf(dr.Source)
			d := decodePatch(dr.Patch)
			line.Decoded, line.DecErr = d.Complete && d.Err == "", d.Err
			if d.Err == "" {
				line.Msgs = patchFacts(d, oldDir, newDir)
			}
			outDir := filepath.Join(root, fmt.Sprintf("out%d", ci))
			// sometimes the output directory already holds longer files at the same paths (Prepare must truncate)
			if (k+ci)%5 == 4 {
				line.PrePopulated = true
				for i, p := range new.sortedFiles() {
					if i%2 == 0 {
						full := filepath.Join(outDir, filepath.FromSlash(p))
						os.MkdirAll(filepath.Dir(full), 0755)
						os.WriteFile(full, randBytes(rng, len(new.Files[p])+1+rng.Intn(70000)), 0644)
					}
				}
			}
			ao := applyOpts{Bowl: "fresh", OldDir: oldDir, OutDir: outDir}
			if (k+ci)%3 == 1 {
				// the OLD build too may be served by readers that return their last bytes with io.EOF
				ao.WrapPool = func(p lake.Pool, _ *tlc.Container) lake.Pool { return &eofPool{Pool: p} }
				line.Env += " oldEOF=true"
			}
			ar := realApplyPatch(dr.Patch, ao)
			if ar.Err != nil {
				line.ApplyErr = ar.Err.Error()
			}
			snap, err := snapshot(outDir)
			if err == nil {
				line.Out = snapList(snap)
			} else if line.ApplyErr == "" {
				line.ApplyErr = "snapshot: " + err.Error()
			}
			os.RemoveAll(outDir)
			w.emit(line)
		}
		os.RemoveAll(root)
	}
	fmt.Printf("{\"lines\":%d}\n", w.n)
	return w.close()
}

var _ = pwr.BlockSize

func init() {
	register("c01", "diff -> apply (fresh bowl) on generated build pairs, every compression setting", cmdC01)
}
