package main

// C18: the real pwr.ValidatingPool driven along model-generated walks (c18-replay) and along
// byte-precise random slicings (c18-bytes); every step's observable outcome is recorded for TLC.

import (
	"bufio"
	"bytes"
	"encoding/json"
	"flag"
	"fmt"
	"io"
	"os"
	"strings"

	"github.com/itchio/lake/tlc"
	"github.com/itchio/wharf/pwr"
	"github.com/itchio/wharf/pwr/bowl"
)

type dripStep struct {
	Op    string `json:"op"`
	N     int    `json:"n"`
	Res   string `json:"res"`
	Inner int    `json:"inner"`
	Nw    int    `json:"nw"`
}

type dripEdge struct {
	Mode   string     `json:"mode"`
	Signed []int      `json:"signed"`
	Data   []int      `json:"data"`
	Hist   []dripStep `json:"hist"`
}

type marker struct {
	K string `json:"k"`
	S int64  `json:"s"`
	E int64  `json:"e"`
}

// one observed step of the real writer, in units
type realStep struct {
	Op      string   `json:"op"`
	N       int      `json:"n"`
	Res     string   `json:"res"`
	Inner   []int    `json:"inner"` // content of the inner pool as unit symbols (99 = bytes that are no symbol / ragged)
	InnerB  int      `json:"innerb"`
	Markers []marker `json:"w"` // all markers received so far (byte offsets)
}

type dripTrace struct {
	Via    string     `json:"via"` // pool | bowl-writer | bowl-transpose
	Mode   string     `json:"mode"`
	Unit   int        `json:"unit"`
	Bs     int        `json:"bs"` // block size in units
	Signed []int      `json:"signed"`
	Data   []int      `json:"data"`
	Steps  []realStep `json:"steps"`
	Model  []dripStep `json:"model"`
}

// collect markers from the pool's wounds channel. The channel is large enough never to block the pool's relay
// (a broken pool may emit far more markers than blocks) and is drained synchronously by the driver: once Close
// has returned the relay goroutine has handed over everything, so the drain is deterministic.
type woundSink struct {
	ch  chan *pwr.Wound
	got []marker
}

func newWoundSink() *woundSink {
	return &woundSink{ch: make(chan *pwr.Wound, 2<<20)}
}

func (s *woundSink) drain() {
	for {
		select {
		case w := <-s.ch:
			k := "W"
			if w.Kind == pwr.WoundKind_CLOSED_FILE {
				k = "H"
			} else if w.Kind != pwr.WoundKind_FILE {
				k = fmt.Sprintf("kind%d", w.Kind)
			}
			if len(s.got) < 200000 {
				s.got = append(s.got, marker{K: k, S: w.Start, E: w.End})
			}
		default:
			return
		}
	}
}

func cmdC18Replay(args []string) error {
	fs := flag.NewFlagSet("c18-replay", flag.ExitOnError)
	edges := fs.String("edges", "", "TLC output containing EDGE lines")
	out := fs.String("out", "c18.ndjson", "trace output")
	bsUnits := fs.Int("bs", 2, "block size in units (model BS)")
	via := fs.String("via", "pool", "pool: the validating pool's writer; bowl-writer: the same walk through a pool bowl's entry writer; bowl-transpose: the walk's data copied whole by the pool bowl's Transpose")
	fs.Parse(args)
	unit := int(pwr.BlockSize) / *bsUnits
	seenTriple := map[string]bool{}
	rng := newRand(1800)
	syms := [][]byte{randBytes(rng, unit), randBytes(rng, unit), randBytes(rng, unit), randBytes(rng, unit)}
	expand := func(xs []int) []byte {
		var b []byte
		for _, x := range xs {
			b = append(b, syms[x]...)
		}
		return b
	}
	toSyms := func(b []byte) []int {
		r := []int{}
		for len(b) > 0 {
			if len(b) < unit {
				r = append(r, 99)
				break
			}
			s := 99
			for k, sy := range syms {
				if bytes.Equal(b[:unit], sy) {
					s = k
				}
			}
			r = append(r, s)
			b = b[unit:]
		}
		return r
	}
	f, err := os.Open(*edges)
	if err != nil {
		return err
	}
	defer f.Close()
	w, err := newNDJSON(*out)
	if err != nil {
		return err
	}
	sc := bufio.NewScanner(f)
	sc.Buffer(make([]byte, 1<<22), 1<<22)
	sigs := map[string]*pwr.SignatureInfo{}
	for sc.Scan() {
		line := sc.Text()
		if !strings.HasPrefix(line, `<<"EDGE"`) {
			continue
		}
		q := line[strings.Index(line, `, "`)+2 : len(line)-2]
		var js string
		if err := json.Unmarshal([]byte(q), &js); err != nil {
			return fmt.Errorf("unquote: %v in %s", err, q)
		}
		var e dripEdge
		if err := json.Unmarshal([]byte(js), &e); err != nil {
			return err
		}
		key := fmt.Sprint(e.Signed)
		sig := sigs[key]
		if sig == nil {
			sig = singleFileSig(expand(e.Signed))
			sigs[key] = sig
		}
		mp := newMemFilePool(sig.Container)
		vp := &pwr.ValidatingPool{Pool: mp, Container: sig.Container, Signature: sig}
		var sink *woundSink
		if e.Mode == "wound" {
			sink = newWoundSink()
			vp.Wounds = sink.ch
		}
		data := expand(e.Data)
		var wr io.WriteCloser
		var pb bowl.Bowl
		if *via != "pool" {
			// a pool bowl writing into the validating pool; its "old build" is one file holding the walk's data
			tc := &tlc.Container{Files: []*tlc.File{{Path: "f", Mode: 0644, Size: int64(len(data)), Offset: 0}}, Size: int64(len(data))}
			tp := newMemFilePool(tc)
			tp.files[0] = data
			pb, err = bowl.NewPoolBowl(bowl.PoolBowlParams{TargetContainer: tc, SourceContainer: sig.Container, TargetPool: tp, OutputPool: vp})
			if err != nil {
				return err
			}
		}
		switch *via {
		case "pool":
			wr, err = vp.GetWriter(0)
			if err != nil {
				return err
			}
		case "bowl-writer":
			ew, err := pb.GetWriter(0)
			if err != nil {
				return err
			}
			if _, err := ew.Resume(nil); err != nil {
				return err
			}
			wr = ew
		case "bowl-transpose":
			key := fmt.Sprint(e.Mode, e.Signed, e.Data)
			if seenTriple[key] {
				continue
			}
			seenTriple[key] = true
			tr := dripTrace{Via: *via, Mode: e.Mode, Unit: unit, Bs: *bsUnits, Signed: e.Signed, Data: e.Data, Model: []dripStep{}, Steps: []realStep{}}
			if tr.Signed == nil {
				tr.Signed = []int{}
			}
			if tr.Data == nil {
				tr.Data = []int{}
			}
			rs := realStep{Op: "close", N: len(e.Data)}
			rs.Res = resOf(pb.Transpose(bowl.Transposition{TargetIndex: 0, SourceIndex: 0}))
			rs.Inner = []int{}
			if b := mp.out[0]; b != nil {
				rs.Inner = toSyms(b.Bytes())
				rs.InnerB = b.Len()
			}
			rs.Markers = []marker{}
			if sink != nil {
				sink.drain()
				rs.Markers = append(rs.Markers, sink.got...)
			}
			tr.Steps = append(tr.Steps, rs)
			w.emit(tr)
			continue
		}
		tr := dripTrace{Via: *via, Mode: e.Mode, Unit: unit, Bs: *bsUnits, Signed: e.Signed, Data: e.Data, Model: e.Hist, Steps: []realStep{}}
		if tr.Signed == nil {
			tr.Signed = []int{}
		}
		if tr.Data == nil {
			tr.Data = []int{}
		}
		pos := 0
		closed := false
		for _, st := range e.Hist {
			rs := realStep{Op: st.Op, N: st.N}
			if st.Op == "write" {
				_, err := wr.Write(data[pos : pos+st.N*unit])
				pos += st.N * unit
				rs.Res = resOf(err)
			} else {
				rs.Res = resOf(wr.Close())
				closed = true
			}
			rs.Inner = toSyms(mp.out[0].Bytes())
			rs.InnerB = mp.out[0].Len()
			rs.Markers = []marker{}
			if sink != nil {
				if closed {
					sink.drain()
				} else {
					// before Close the relay goroutine may still be handing over the last marker:
					// wait until one marker per completed block has arrived (bounded)
					want := pos / int(pwr.BlockSize)
					for spins := 0; len(sink.got) < want && spins < 2000; spins++ {
						sink.drain()
						if len(sink.got) < want {
							yield()
						}
					}
				}
				rs.Markers = append(rs.Markers, sink.got...)
			}
			tr.Steps = append(tr.Steps, rs)
		}
		if !closed {
			wr.Close() // do not leak the relay goroutine
		}
		w.emit(tr)
	}
	fmt.Printf("{\"lines\":%d}\n", w.n)
	return w.close()
}

func resOf(err error) string {
	if err != nil {
		return "err"
	}
	return "ok"
}

func init() {
	register("c18-replay", "replay model walks (EDGE lines) on the real validating pool", cmdC18Replay)
}

// ---------------------------------------------------------------- byte-precise slicings

type byteStep struct {
	Op   string `json:"op"`
	N    int    `json:"n"`
	Res  string `json:"res"`
	Innb int    `json:"innb"` // bytes in the inner pool after the step
	Ish  string `json:"ish"`  // digest of the inner pool's content
	Dsh  string `json:"dsh"`  // digest of data[:innb]  ("" if innb > len(data))
	Nw   int    `json:"nw"`   // markers received so far
}

type byteTrace struct {
	Case    int        `json:"case"`
	Mode    string     `json:"mode"`
	Bs      int        `json:"bs"`
	SgLen   int        `json:"sglen"`
	DataLen int        `json:"datalen"`
	Ssha    []string   `json:"ssha"` // digest per signed block
	Dsha    []string   `json:"dsha"` // digest per FULL block of data
	Tail    string     `json:"tail"` // digest of the partial block flushed by Close ("" if none)
	Steps   []byteStep `json:"steps"`
	W       []marker   `json:"w"` // all markers, in arrival order
	Desc    string     `json:"desc"`
}

func blocksSha(b []byte, bs int, fullOnly bool) []string {
	r := []string{}
	for off := 0; off < len(b); off += bs {
		end := off + bs
		if end > len(b) {
			if fullOnly {
				break
			}
			end = len(b)
		}
		r = append(r, sha(b[off:end]))
	}
	return r
}

func cmdC18Bytes(args []string) error {
	fs := flag.NewFlagSet("c18-bytes", flag.ExitOnError)
	n := fs.Int("n", 50, "cases")
	first := fs.Int("first", 0, "first case index")
	out := fs.String("out", "c18b.ndjson", "trace output")
	fs.Parse(args)
	w, err := newNDJSON(*out)
	if err != nil {
		return err
	}
	BS := int(pwr.BlockSize)
	sizes := []int{0, 1, BS - 1, BS, BS + 1, 2*BS - 1, 2 * BS, 2*BS + 1, 3*BS + 5, 4 * BS}
	for k := *first; k < *first+*n; k++ {
		rng := newRand(int64(18000 + k))
		sgLen := sizes[rng.Intn(len(sizes))]
		if rng.Intn(4) == 0 {
			sgLen = rng.Intn(4*BS + 2)
		}
		signed := randBytes(rng, sgLen)
		if rng.Intn(5) == 0 && sgLen >= 2*BS {
			copy(signed[BS:2*BS], signed[:BS]) // two equal signed blocks
		}
		data := append([]byte{}, signed...)
		desc := "equal"
		nb := (sgLen + BS - 1) / BS
		switch c := rng.Intn(13); {
		case c < 2:
		case c == 12 && sgLen >= BS: // a block replaced by its weak-hash twin (same rolling hash, other content)
			bi := rng.Intn(sgLen / BS)
			copy(data[bi*BS:(bi+1)*BS], weakTwin(signed[bi*BS:(bi+1)*BS]))
			desc = fmt.Sprintf("twin:%d", bi)
		case c < 4 && nb > 0: // flip one byte at a block edge
			bi := rng.Intn(nb)
			off := bi * BS
			if rng.Intn(2) == 0 {
				off = bi*BS + BS - 1
				if off >= sgLen {
					off = sgLen - 1
				}
			}
			data[off] ^= 0x5a
			desc = fmt.Sprintf("flip@%d", off)
		case c < 5 && nb > 1: // several blocks damaged
			desc = "flips@"
			for bi := 0; bi < nb; bi++ {
				if rng.Intn(2) == 0 {
					off := bi*BS + rng.Intn(minInt(BS, sgLen-bi*BS))
					data[off] ^= 0x01
					desc += fmt.Sprintf("%d,", off)
				}
			}
		case c < 6: // block-aligned prefix
			if nb > 0 {
				data = data[:rng.Intn(nb)*BS]
			}
			desc = fmt.Sprintf("aligned-prefix:%d", len(data))
		case c < 7 && sgLen > 0: // ragged prefix
			data = data[:rng.Intn(sgLen)]
			desc = fmt.Sprintf("prefix:%d", len(data))
		case c < 9: // longer than signed
			ext := []int{1, BS - 1, BS, BS + 1, 2*BS + 3}[rng.Intn(5)]
			data = append(data, randBytes(rng, ext)...)
			desc = fmt.Sprintf("extended+%d", ext)
		case c < 10 && nb > 1: // blocks swapped (a block equal to another signed block)
			a, b := rng.Intn(nb-1), 0
			b = a + 1
			if (b+1)*BS <= sgLen {
				tmp := append([]byte{}, data[a*BS:(a+1)*BS]...)
				copy(data[a*BS:(a+1)*BS], data[b*BS:(b+1)*BS])
				copy(data[b*BS:(b+1)*BS], tmp)
				desc = fmt.Sprintf("swap:%d,%d", a, b)
			}
		case c < 11 && nb > 1: // a block dropped: everything after is shifted by one block
			a := rng.Intn(nb - 1)
			data = append(append([]byte{}, data[:a*BS]...), data[(a+1)*BS:]...)
			desc = fmt.Sprintf("drop-block:%d", a)
		default: // unrelated content
			data = randBytes(rng, rng.Intn(3*BS+1))
			desc = fmt.Sprintf("unrelated:%d", len(data))
		}
		mode := "error"
		if k%3 == 2 {
			mode = "wound"
		}
		sig := singleFileSig(signed)
		mp := newMemFilePool(sig.Container)
		vp := &pwr.ValidatingPool{Pool: mp, Container: sig.Container, Signature: sig}
		var sink *woundSink
		if mode == "wound" {
			sink = newWoundSink()
			vp.Wounds = sink.ch
		}
		wr, err := vp.GetWriter(0)
		if err != nil {
			return err
		}
		tr := byteTrace{Case: k, Mode: mode, Bs: BS, SgLen: sgLen, DataLen: len(data), Ssha: blocksSha(signed, BS, false), Dsha: blocksSha(data, BS, true), Desc: desc, Steps: []byteStep{}, W: []marker{}}
		pos := 0
		observe := func(op string, n int, err error, closed bool) {
			st := byteStep{Op: op, N: n, Res: resOf(err)}
			inner := mp.out[0].Bytes()
			st.Innb = len(inner)
			st.Ish = sha(inner)
			if len(inner) <= len(data) {
				st.Dsh = sha(data[:len(inner)])
			}
			if sink != nil {
				if closed {
					sink.drain()
				} else {
					want := pos / BS
					for spins := 0; len(sink.got) < want && spins < 2000; spins++ {
						sink.drain()
						if len(sink.got) < want {
							yield()
						}
					}
				}
				st.Nw = len(sink.got)
			}
			tr.Steps = append(tr.Steps, st)
		}
		// slicing: a seeded mix of sizes, with 1-byte bursts around block boundaries
		style := rng.Intn(5)
		stopAfterErr := rng.Intn(3) // 0: stop at first error and close, 1: close right away, 2: keep writing
		failed := false
		for pos < len(data) {
			var n int
			toEdge := BS - pos%BS
			switch style {
			case 0:
				n = []int{1, 2, 100, BS - 1, BS, BS + 1, 2*BS + 3}[rng.Intn(7)]
			case 1:
				if toEdge <= 3 || pos%BS < 3 {
					n = 1
				} else {
					n = toEdge - 2
				}
			case 2:
				n = 1 + rng.Intn(3*BS)
			case 3:
				n = len(data) // one big write
			default:
				n = 1 + rng.Intn(BS/2)
			}
			if n > len(data)-pos {
				n = len(data) - pos
			}
			_, err := wr.Write(data[pos : pos+n])
			pos += n
			observe("write", n, err, false)
			if err != nil {
				failed = true
				if stopAfterErr < 2 {
					break
				}
			}
			if len(tr.Steps) > 400 {
				style = 2
			}
		}
		_ = failed
		cerr := wr.Close()
		if pos%BS != 0 {
			tr.Tail = sha(data[pos-pos%BS : pos])
		}
		observe("close", 0, cerr, true)
		if sink != nil {
			tr.W = append(tr.W, sink.got...)
		}
		w.emit(tr)
	}
	fmt.Printf("{\"lines\":%d}\n", w.n)
	return w.close()
}

func minInt(a, b int) int {
	if a < b {
		return a
	}
	return b
}

func init() {
	register("c18-bytes", "byte-precise write slicings on the real validating pool, digest facts", cmdC18Bytes)
}
