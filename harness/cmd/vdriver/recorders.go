package main

import (
	"io"
	"sync"

	"github.com/itchio/lake"
	"github.com/itchio/wharf/pwr/bowl"
)

// recBowl records which new-build files the patcher asks the bowl to write or transpose.
type recBowl struct {
	bowl.Bowl
	mu         sync.Mutex
	Writers    []int64
	Transposes []int64
	TransTgt   []int64
}

func (b *recBowl) GetWriter(i int64) (bowl.EntryWriter, error) {
	b.mu.Lock()
	b.Writers = append(b.Writers, i)
	b.mu.Unlock()
	return b.Bowl.GetWriter(i)
}

func (b *recBowl) Transpose(t bowl.Transposition) error {
	b.mu.Lock()
	b.Transposes = append(b.Transposes, t.SourceIndex)
	b.TransTgt = append(b.TransTgt, t.TargetIndex)
	b.mu.Unlock()
	return b.Bowl.Transpose(t)
}

// recPool records which old-build files are opened for reading.
type recPool struct {
	lake.Pool
	mu    sync.Mutex
	Reads []int64
}

func (p *recPool) GetReader(i int64) (io.Reader, error) {
	p.mu.Lock()
	p.Reads = append(p.Reads, i)
	p.mu.Unlock()
	return p.Pool.GetReader(i)
}

func (p *recPool) GetReadSeeker(i int64) (io.ReadSeeker, error) {
	p.mu.Lock()
	p.Reads = append(p.Reads, i)
	p.mu.Unlock()
	return p.Pool.GetReadSeeker(i)
}

func nonNil64(s []int64) []int64 {
	if s == nil {
		return []int64{}
	}
	return s
}
