package main

// C15: determinism of the differ and the optimizer under scheduling / read-slicing / GOMAXPROCS variation.
// Every build pair is diffed R times with source pools that return seeded short reads and yield at seeded
// points, under GOMAXPROCS 1..16; each patch is optimized R times with fixed parameters. Digests are recorded.
// Built with -race the same driver exposes unsynchronized accesses in the pipelines.

import (
	"bytes"
	"context"
	"flag"
	"fmt"
	"github.com/itchio/savior/seeksource"
	"github.com/itchio/wharf/pwr/rediff"
	"io"
	"math/rand"
	"os"
	"runtime"
	"sort"
	"sync"
	"testing/iotest"

	"github.com/itchio/lake"
	"github.com/itchio/lake/pools/fspool"
	"github.com/itchio/lake/tlc"
	"github.com/itchio/wharf/pwr"
)

type c15Line struct {
	Case      int      `json:"case"`
	Desc      string   `json:"desc"`
	Algo      string   `json:"algo"`
	Q         int32    `json:"q"`
	Runs      int      `json:"runs"`
	Procs     []int    `json:"procs"`
	PatchShas []string `json:"patchshas"`
	SigShas   []string `json:"sigshas"`
	DiffErrs  []string `json:"differrs"`
	OptParams string   `json:"optparams"`
	OptShas   []string `json:"optshas"`
	OptErrs   []string `json:"opterrs"`
	AnaMaps   []string `json:"anamaps"` // distinct mappings seen over 96 analyses of the same patch
	OptMaps   []string `json:"optmaps"` // chosen bsdiff targets per run
}

// jitterPool returns readers that slice reads at seeded sizes and yield at seeded points.
type jitterPool struct {
	lake.Pool
	rng *rand.Rand
	mu  sync.Mutex
	// dataWithEOF: the last bytes of a file are returned TOGETHER with io.EOF (n > 0, err == io.EOF), as the
	// io.Reader contract allows and as decompressing / network readers do
	dataWithEOF bool
}

type jitterReader struct {
	r io.Reader
	p *jitterPool
}

func (j *jitterReader) Read(b []byte) (int, error) {
	j.p.mu.Lock()
	n := 1 + j.p.rng.Intn(3*BS)
	y := j.p.rng.Intn(4)
	j.p.mu.Unlock()
	if n < len(b) {
		b = b[:n]
	}
	if y == 0 {
		runtime.Gosched()
	}
	return j.r.Read(b)
}

func (p *jitterPool) GetReader(i int64) (io.Reader, error) {
	r, err := p.Pool.GetReader(i)
	if err != nil {
		return nil, err
	}
	if p.dataWithEOF {
		r = iotest.DataErrReader(r)
	}
	return &jitterReader{r: r, p: p}, nil
}

// tiePair: a new file (at a path that does not exist in the old build) made in equal parts from two old files, so
// that the optimizer's reuse tally has a tie between differently named candidates.
func tiePair(rng *rand.Rand) (old, new *tree, desc string) {
	old, new = newTree(), newTree()
	a, b, c := randBytes(rng, 4*BS), randBytes(rng, 4*BS), randBytes(rng, 4*BS)
	old.Files["tie/a.bin"], old.Files["tie/b.bin"], old.Files["tie/c.bin"] = a, b, c
	mix := append(append(append([]byte{}, a[:2*BS]...), randBytes(rng, 1000)...), b[:2*BS]...)
	mix = append(mix, c[BS:3*BS]...)
	new.Files["tie/mixed-new-name.bin"] = mix
	new.Files["tie/a.bin"] = a
	mix2 := append(append(append([]byte{}, c[:BS]...), randBytes(rng, 10)...), b[2*BS:3*BS]...)
	new.Files["tie/second-mix.bin"] = mix2
	// ties that involve the SAME-PATH old file: against an old file with a lower container index (tie/b.bin sorts
	// before tie/k.bin), against one with a higher index (tie/z.bin), and against both
	kk, m, t, z := randBytes(rng, 4*BS), randBytes(rng, 4*BS), randBytes(rng, 4*BS), randBytes(rng, 4*BS)
	old.Files["tie/k.bin"], old.Files["tie/m.bin"], old.Files["tie/t.bin"], old.Files["tie/z.bin"] = kk, m, t, z
	new.Files["tie/k.bin"] = append(append(append([]byte{}, b[:2*BS]...), randBytes(rng, 1000)...), kk[:2*BS]...)
	new.Files["tie/m.bin"] = append(append(append([]byte{}, m[:2*BS]...), randBytes(rng, 500)...), z[:2*BS]...)
	three := append(append(append([]byte{}, c[:BS]...), randBytes(rng, 100)...), t[:BS]...)
	three = append(append(three, randBytes(rng, 100)...), z[2*BS:3*BS]...)
	new.Files["tie/t.bin"] = three
	return old, new, "tie-between-old-files"
}

// textLikePair: a file made of words from a small dictionary, and an edited version of it (words replaced, a
// paragraph moved, a few inserted).
func textLikePair(rng *rand.Rand) (old, new []byte) {
	dict := make([][]byte, 48)
	for i := range dict {
		w := make([]byte, 3+rng.Intn(7))
		for j := range w {
			w[j] = byte('a' + rng.Intn(26))
		}
		dict[i] = append(w, ' ')
	}
	var words [][]byte
	for n := 0; n < 150000+rng.Intn(60000); {
		w := dict[rng.Intn(len(dict))]
		words = append(words, w)
		n += len(w)
	}
	edited := append([][]byte{}, words...)
	for e := 0; e < 40; e++ {
		edited[rng.Intn(len(edited))] = dict[rng.Intn(len(dict))]
	}
	a, b := rng.Intn(len(edited)/2), len(edited)/2+rng.Intn(len(edited)/2)
	para := append([][]byte{}, edited[a:a+200]...)
	edited = append(edited[:b:b], append(para, edited[b:]...)...)
	edited = append([][]byte{[]byte("a new first line\n")}, edited...)
	return bytes.Join(words, nil), bytes.Join(edited, nil)
}

func cmdC15(args []string) error {
	fs := flag.NewFlagSet("c15", flag.ExitOnError)
	n := fs.Int("n", 6, "cases")
	first := fs.Int("first", 0, "first case")
	runs := fs.Int("runs", 8, "repetitions per pair")
	out := fs.String("out", "c15.ndjson", "trace output")
	fs.Parse(args)
	w, err := newNDJSON(*out)
	if err != nil {
		return err
	}
	for k := *first; k < *first+*n; k++ {
		rng := newRand(int64(15000 + k))
		var old, new *tree
		var desc string
		if k%2 == 1 {
			old, new, desc = tiePair(rng)
		} else {
			old, new, desc = genPair(rng, k, false)
		}
		// a text-like file edited in place: its suffix array is full of near-ties and matches that straddle partition
		// borders, so WHICH of several equally long matches the scanner takes decides the bytes written
		oldText, newText := textLikePair(rng)
		old.Files["text/words.txt"], new.Files["text/words.txt"] = oldText, newText
		root, oldDir, newDir, err := materialisePair(old, new)
		if err != nil {
			return err
		}
		c := []compSetting{{"NONE", 0}, {"GZIP", 3}, {"BROTLI", 2}}[k%3]
		line := c15Line{Case: k, Desc: desc, Algo: c.a, Q: c.q, Runs: *runs, Procs: []int{}, PatchShas: []string{}, SigShas: []string{}, DiffErrs: []string{}, OptShas: []string{}, OptErrs: []string{}, OptMaps: []string{}}
		targetContainer, err := tlc.WalkAny(oldDir, tlc.WalkOpts{})
		if err != nil {
			return err
		}
		sourceContainer, err := tlc.WalkAny(newDir, tlc.WalkOpts{})
		if err != nil {
			return err
		}
		targetSig, err := pwr.ComputeSignature(context.Background(), targetContainer, fspool.New(targetContainer, oldDir), nullConsumer())
		if err != nil {
			return err
		}
		var firstPatch []byte
		for r := 0; r < *runs; r++ {
			procs := []int{1, 2, 3, 4, 8, 16}[(k+r)%6]
			prev := runtime.GOMAXPROCS(procs)
			line.Procs = append(line.Procs, procs)
			var pool lake.Pool = fspool.New(sourceContainer, newDir)
			if r > 0 {
				pool = &jitterPool{Pool: pool, rng: rand.New(rand.NewSource(int64(k*1000+r) + envSeed())), dataWithEOF: r%2 == 1}
			}
			dctx := &pwr.DiffContext{Compression: compressionOf(c.a, c.q), Consumer: nullConsumer(), SourceContainer: sourceContainer, Pool: pool,
				TargetContainer: targetContainer, TargetSignature: targetSig}
			var patch, sig bytes.Buffer
			if err := dctx.WritePatch(context.Background(), &patch, &sig); err != nil {
				line.DiffErrs = append(line.DiffErrs, err.Error())
			}
			runtime.GOMAXPROCS(prev)
			line.PatchShas = append(line.PatchShas, sha(patch.Bytes()))
			line.SigShas = append(line.SigShas, sha(sig.Bytes()))
			if r == 0 {
				firstPatch = append([]byte{}, patch.Bytes()...)
			}
		}
		op := optParams{Partitions: []int{0, 1, 2, 3, 4, 8}[rng.Intn(6)], Concurrency: rng.Intn(3), Comp: compressionOf("NONE", 0)}
		line.OptParams = fmt.Sprintf("partitions=%d conc=%d", op.Partitions, op.Concurrency)
		for r := 0; r < *runs; r++ {
			procs := []int{1, 2, 3, 4, 8, 16}[(k+r)%6]
			prev := runtime.GOMAXPROCS(procs)
			opr := op
			var again []byte
			if r%3 == 1 {
				// same parameters, but the pools have been read through before and the context optimizes twice: the
				// bytes written must not depend on what an earlier run left behind in a pool or a context
				opr.Pools, opr.Again = &optPools{}, &again
			}
			opt, maps, err := realOptimize(firstPatch, oldDir, newDir, opr)
			runtime.GOMAXPROCS(prev)
			if err != nil {
				line.OptErrs = append(line.OptErrs, err.Error())
			}
			line.OptShas = append(line.OptShas, sha(opt))
			if opr.Again != nil && err == nil {
				line.OptShas = append(line.OptShas, sha(again))
			}
			ms := ""
			for si := int64(0); si < int64(len(sourceContainer.Files)); si++ {
				if m, ok := maps[si]; ok {
					ms += fmt.Sprintf("%d<-%d ", si, m.TargetIndex)
				}
			}
			line.OptMaps = append(line.OptMaps, ms)
		}
		// the optimizer's ANALYSIS alone (which old file each new file is bsdiffed against) is cheap: many more
		// repetitions, so that a choice that depends on map iteration order shows
		seen := map[string]bool{}
		for r := 0; r < 96; r++ {
			rc, err := rediff.NewContext(rediff.Params{Consumer: nullConsumer(), PatchReader: seeksource.FromBytes(firstPatch), Partitions: op.Partitions})
			if err != nil {
				seen["error: "+err.Error()] = true
				continue
			}
			maps := rc.GetDiffMappings()
			ms := ""
			for si := int64(0); si < int64(len(sourceContainer.Files)); si++ {
				if m, ok := maps[si]; ok {
					ms += fmt.Sprintf("%d<-%d ", si, m.TargetIndex)
				}
			}
			seen[ms] = true
		}
		line.AnaMaps = []string{}
		for ms := range seen {
			line.AnaMaps = append(line.AnaMaps, ms)
		}
		sort.Strings(line.AnaMaps)
		w.emit(line)
		w.flush()
		os.RemoveAll(root)
	}
	fmt.Printf("{\"lines\":%d}\n", w.n)
	return w.close()
}

func init() {
	register("c15", "repeated diffs / optimizations of the same pair under schedule and read-slicing variation", cmdC15)
}
