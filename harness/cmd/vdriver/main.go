package main

import (
	"fmt"
	"os"
)

type command struct {
	name string
	help string
	run  func(args []string) error
}

var commands []command

func register(name, help string, run func(args []string) error) {
	commands = append(commands, command{name, help, run})
}

func main() {
	if len(os.Args) < 2 {
		fmt.Fprintln(os.Stderr, "usage: vdriver <command> [flags]")
		for _, c := range commands {
			fmt.Fprintf(os.Stderr, "  %-18s %s\n", c.name, c.help)
		}
		os.Exit(2)
	}
	for _, c := range commands {
		if c.name == os.Args[1] {
			if err := c.run(os.Args[2:]); err != nil {
				fmt.Fprintf(os.Stderr, "vdriver %s: %+v\n", c.name, err)
				os.Exit(3)
			}
			return
		}
	}
	fmt.Fprintf(os.Stderr, "unknown command %q\n", os.Args[1])
	os.Exit(2)
}
