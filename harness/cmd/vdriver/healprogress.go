//go:build verif

package main

// growth beyond the listed properties: the progress accounting of the real archive healer (Validate with
// HealPath) on builds of a few files with one damage each, against spec/HealProgress.tla.

import (
	"context"
	"flag"
	"fmt"
	"math"
	"os"
	"path/filepath"
	"sync"

	"github.com/itchio/headway/state"
	"github.com/itchio/wharf/pwr"
)

type hpDisk struct {
	K string `json:"k"` // ok | flip | short | long | missing
	A int64  `json:"a"`
}

type hpLine struct {
	Case      int      `json:"case"`
	BS        int64    `json:"bs"`
	Sizes     []int64  `json:"sizes"`
	Disks     []hpDisk `json:"disks"`
	Total     int64    `json:"total"`
	Err       string   `json:"err"`
	AfterErr  string   `json:"aftererr"`
	Healed    int64    `json:"healed"`
	Corrupted int64    `json:"corrupted"`
	Calls     int      `json:"calls"`    // Progress calls seen
	FinalNum  int64    `json:"finalnum"` // last reported fraction * total, rounded
	MaxNum    int64    `json:"maxnum"`   // largest reported fraction * total, rounded
	Backwards int      `json:"backwards"`
	NaN       int      `json:"nan"`
	// the same damaged directory validated WITHOUT a healer first: the scan fraction bytesDone / container size
	ScanErr       string `json:"scanerr"`
	ScanCalls     int    `json:"scancalls"`
	ScanFinalNum  int64  `json:"scanfinalnum"`
	ScanMaxNum    int64  `json:"scanmaxnum"`
	ScanBackwards int    `json:"scanbackwards"`
	ScanNaN       int    `json:"scannan"`
}

func cmdHealProgress(args []string) error {
	fs := flag.NewFlagSet("healprogress", flag.ExitOnError)
	n := fs.Int("n", 10, "cases")
	first := fs.Int("first", 0, "first case")
	out := fs.String("out", "healprogress.ndjson", "trace output")
	fs.Parse(args)
	w, err := newNDJSON(*out)
	if err != nil {
		return err
	}
	sizes := []int64{0, 1, BS - 1, BS, BS + 1, 2 * BS, 2*BS + 5, 3 * BS}
	for k := *first; k < *first+*n; k++ {
		rng := newRand(int64(88000 + k))
		nf := 1 + rng.Intn(3)
		line := hpLine{Case: k, BS: BS, Sizes: []int64{}, Disks: []hpDisk{}}
		build := newTree()
		for f := 0; f < nf; f++ {
			// the first cases walk the size table with a single file, so that every (size, damage) class is met
			var s int64
			if k < 8*len(sizes) && f == 0 {
				s = sizes[k%len(sizes)]
			} else {
				s = sizes[rng.Intn(len(sizes))]
			}
			line.Sizes = append(line.Sizes, s)
			line.Total += s
			build.Files[fmt.Sprintf("f%d", f)] = randBytes(rng, int(s))
		}
		root, err := os.MkdirTemp("", "hp-")
		if err != nil {
			return err
		}
		ref := filepath.Join(root, "ref")
		dir := filepath.Join(root, "dir")
		if err := writeTree(ref, build); err != nil {
			return err
		}
		if err := writeTree(dir, build); err != nil {
			return err
		}
		si, err := signDir(ref)
		if err != nil {
			return err
		}
		zp := filepath.Join(root, "b.zip")
		if err := zipBuild(zp, build); err != nil {
			return err
		}
		for f := 0; f < nf; f++ {
			s := line.Sizes[f]
			p := filepath.Join(dir, fmt.Sprintf("f%d", f))
			nb := (s + BS - 1) / BS
			kinds := []string{"ok", "flip", "short", "long", "missing"}
			var kind string
			if k < 8*len(sizes) && f == 0 {
				kind = kinds[(k/len(sizes))%len(kinds)]
			} else {
				kind = kinds[rng.Intn(len(kinds))]
			}
			d := hpDisk{K: "ok"}
			switch kind {
			case "flip":
				if nb > 0 {
					j := rng.Int63n(nb)
					data := append([]byte{}, build.Files[fmt.Sprintf("f%d", f)]...)
					bl := int64(BS)
					if (j+1)*BS > s {
						bl = s - j*BS
					}
					data[j*BS+rng.Int63n(bl)] ^= 0x5a
					must(os.WriteFile(p, data, 0644))
					d = hpDisk{K: "flip", A: j}
				}
			case "short":
				if s > 0 {
					cuts := []int64{0, 1, s - 1, s / 2, (s / BS) * BS, BS, BS - 1, BS + 1}
					l := cuts[rng.Intn(len(cuts))]
					if l < 0 || l >= s {
						l = s - 1
					}
					must(os.Truncate(p, l))
					d = hpDisk{K: "short", A: l}
				}
			case "long":
				extras := []int64{1, 7, BS - 1, BS, BS + 1}
				x := extras[rng.Intn(len(extras))]
				fh, err := os.OpenFile(p, os.O_APPEND|os.O_WRONLY, 0644)
				must(err)
				_, err = fh.Write(randBytes(rng, int(x)))
				must(err)
				must(fh.Close())
				d = hpDisk{K: "long", A: x}
			case "missing":
				must(os.Remove(p))
				d = hpDisk{K: "missing"}
			}
			line.Disks = append(line.Disks, d)
		}
		total := float64(line.Total)
		{
			var smu sync.Mutex
			slast := math.Inf(-1)
			scons := &state.Consumer{OnProgress: func(p float64) {
				smu.Lock()
				defer smu.Unlock()
				line.ScanCalls++
				if math.IsNaN(p) || math.IsInf(p, 0) {
					line.ScanNaN++
					return
				}
				num := int64(math.Round(p * total))
				if num > line.ScanMaxNum {
					line.ScanMaxNum = num
				}
				if p < slast {
					line.ScanBackwards++
				}
				slast = p
				line.ScanFinalNum = num
			}}
			sctx := &pwr.ValidatorContext{Consumer: scons}
			if err := sctx.Validate(context.Background(), dir, si); err != nil {
				line.ScanErr = err.Error()
			}
		}
		var mu sync.Mutex
		last := math.Inf(-1)
		cons := &state.Consumer{OnProgress: func(p float64) {
			mu.Lock()
			defer mu.Unlock()
			line.Calls++
			if math.IsNaN(p) || math.IsInf(p, 0) {
				line.NaN++
				return
			}
			num := int64(math.Round(p * total))
			if num > line.MaxNum {
				line.MaxNum = num
			}
			if p < last {
				line.Backwards++
			}
			last = p
			line.FinalNum = num
		}}
		vctx := &pwr.ValidatorContext{HealPath: "archive," + zp, Consumer: cons}
		if err := vctx.Validate(context.Background(), dir, si); err != nil {
			line.Err = err.Error()
		}
		if h, ok := vctx.WoundsConsumer.(pwr.Healer); ok {
			line.Healed = h.TotalHealed()
			line.Corrupted = h.TotalCorrupted()
		}
		if err := pwr.AssertValid(dir, si); err != nil {
			line.AfterErr = err.Error()
			if len(line.AfterErr) > 200 {
				line.AfterErr = line.AfterErr[:200]
			}
		}
		w.emit(line)
		os.RemoveAll(root)
	}
	fmt.Printf("{\"lines\":%d}\n", w.n)
	return w.close()
}

func init() {
	register("healprogress", "progress accounting of the real archive healer (growth beyond the listed properties)", cmdHealProgress)
}
