package main

// C07: the real optimizer (rediff) on patches of generated build pairs - including tiny new files, files
// smaller than the partition count, empty/tiny old files, files mapped to a differently named old file - under
// seeded tuning parameters; the optimized patch is decoded independently, and applied fresh and in place.

import (
	"flag"
	"fmt"
	"github.com/itchio/lake"
	"github.com/itchio/lake/tlc"
	"math/rand"
	"os"
	"path/filepath"
)

type c07Line struct {
	Case      int      `json:"case"`
	Desc      string   `json:"desc"`
	Params    string   `json:"params"`
	Parts     int      `json:"parts"`
	Algo      string   `json:"algo"`
	Q         int32    `json:"q"`
	OutAlgo   string   `json:"outalgo"`
	OutQ      int32    `json:"outq"`
	TSizes    []int64  `json:"tsizes"`
	SSizes    []int64  `json:"ssizes"`
	TPaths    []string `json:"tpaths"`
	SPaths    []string `json:"spaths"`
	Msgs      []opFact `json:"msgs"`
	Decoded   bool     `json:"decoded"`
	DecErr    string   `json:"decerr"`
	OptErr    string   `json:"opterr"`
	NBsdiff   int      `json:"nbsdiff"`
	NCtl      int      `json:"nctl"`
	Mapped    []int64  `json:"mapped"` // per new file: bsdiff target index or -1
	SizeLimit int64    `json:"sizelimit"`
	New       []string `json:"new"`
	FreshErr  string   `json:"fresherr"`
	FreshOut  []string `json:"freshout"`
	OverErr   string   `json:"overerr"`
	OverOut   []string `json:"overout"`
	PlainOut  []string `json:"plainout"` // what the ORIGINAL patch produces (fresh)
	PlainErr  string   `json:"plainerr"`
}

// tinyPair exercises the corners named by the property: new files of 0..16 bytes, files smaller than the partition
// count, old files that are empty or tiny, content that moved to a differently named file.
func tinyPair(rng *rand.Rand) (old, new *tree, desc string) {
	old, new = newTree(), newTree()
	for i := 0; i < 6; i++ {
		p := fmt.Sprintf("tiny/t%d", i)
		o := randBytes(rng, []int{0, 1, 2, 3, 9, 16, 40}[rng.Intn(7)])
		old.Files[p] = o
		n := append([]byte{}, o...)
		switch rng.Intn(4) {
		case 0:
			n = randBytes(rng, rng.Intn(17))
		case 1:
			if len(n) > 0 {
				n[rng.Intn(len(n))] ^= 1
			}
			n = append(n, randBytes(rng, rng.Intn(4))...)
		case 2:
			n = []byte{}
		}
		new.Files[p] = n
	}
	// a larger file whose content moved to another name with an edit (mapped to a differently named old file)
	c := randBytes(rng, 3*BS+rng.Intn(BS))
	old.Files["tiny/big-old-name.bin"] = c
	e := append([]byte{}, c...)
	e[BS+5] ^= 0x10
	new.Files["tiny/big-new-name.bin"] = e
	// same path, old empty -> new non-empty and vice versa
	old.Files["tiny/was-empty"] = []byte{}
	new.Files["tiny/was-empty"] = randBytes(rng, 1+rng.Intn(300))
	old.Files["tiny/becomes-empty"] = randBytes(rng, 1+rng.Intn(300))
	new.Files["tiny/becomes-empty"] = []byte{}
	return old, new, "tiny-files"
}

// crossPair moves sections between files of different sizes (both patched, in both path orders): the optimizer
// re-uses one bsdiff context for every file of a patch, so state left by a large file meets a smaller one.
func crossPair(rng *rand.Rand) (old, new *tree, desc string) {
	old, new = newTree(), newTree()
	names := []string{"cross/a-first.bin", "cross/m-middle.bin", "cross/z-last.bin"}
	rng.Shuffle(len(names), func(i, j int) { names[i], names[j] = names[j], names[i] })
	sizes := []int{20000 + rng.Intn(60000), 600 + rng.Intn(3000), 3*BS + rng.Intn(BS)}
	var olds [][]byte
	for i, n := range names {
		c := randBytes(rng, sizes[i])
		old.Files[n] = c
		olds = append(olds, c)
	}
	for i, n := range names {
		e := append([]byte{}, olds[i]...)
		if len(e) > 10 {
			e[len(e)/3] ^= 0x21 // a one-byte edit so that the file is patched, not copied
		}
		// paste a section cut from the tail of another (usually larger) file
		j := (i + 1 + rng.Intn(2)) % 3
		src := olds[j]
		ln := 300 + rng.Intn(900)
		if ln > len(src) {
			ln = len(src)
		}
		at := len(src) - ln - rng.Intn(1+len(src)/4)
		if at < 0 {
			at = 0
		}
		sec := append([]byte{}, src[at:at+ln]...)
		sec[len(sec)/2] ^= 0x04
		switch rng.Intn(3) {
		case 0:
			e = append(e, sec...)
		case 1:
			e = append(sec, e...)
		default:
			mid := len(e) / 2
			e = append(append(append([]byte{}, e[:mid]...), sec...), e[mid:]...)
		}
		new.Files[n] = e
	}
	return old, new, "cross-file-sections"
}

func cmdC07(args []string) error {
	fs := flag.NewFlagSet("c07", flag.ExitOnError)
	n := fs.Int("n", 10, "cases")
	first := fs.Int("first", 0, "first case")
	marker := fs.String("marker", "", "file receiving the id of the case being executed")
	out := fs.String("out", "c07.ndjson", "trace output")
	fs.Parse(args)
	w, err := newNDJSON(*out)
	if err != nil {
		return err
	}
	comps := allCompressions()
	for k := *first; k < *first+*n; k++ {
		rng := newRand(int64(7000 + k))
		var old, new *tree
		var desc string
		if k%3 == 1 {
			old, new, desc = tinyPair(rng)
		} else if k%3 == 2 {
			old, new, desc = crossPair(rng)
		} else {
			old, new, desc = genPair(rng, k, false)
		}
		root, oldDir, newDir, err := materialisePair(old, new)
		if err != nil {
			return err
		}
		c := comps[0]
		if k%2 == 1 {
			c = comps[1+rng.Intn(len(comps)-1)]
			if c.a == "BROTLI" && c.q > 9 {
				c.q = 9
			}
		}
		oc := comps[rng.Intn(len(comps))]
		if oc.a == "BROTLI" && oc.q > 9 {
			oc.q = 6
		}
		op := optParams{Partitions: rng.Intn(17), Concurrency: rng.Intn(5) - 1, ForceMapAll: rng.Intn(3) == 0, Comp: compressionOf(oc.a, oc.q)}
		switch rng.Intn(4) {
		case 0:
			op.SizeLimit = int64(1 + rng.Intn(3*BS)) // excludes some files
		case 1:
			op.Comp = nil // the optimizer's default output compression
			oc = compSetting{"default", 0}
		}
		line := c07Line{Case: k, Desc: desc, Parts: op.Partitions, Algo: c.a, Q: c.q, OutAlgo: oc.a, OutQ: oc.q, SizeLimit: op.SizeLimit,
			Params: fmt.Sprintf("partitions=%d conc=%d forcemapall=%v sizelimit=%d", op.Partitions, op.Concurrency, op.ForceMapAll, op.SizeLimit),
			Msgs:   []opFact{}, Mapped: []int64{}, New: snapList(new.snapshot()), FreshOut: []string{}, OverOut: []string{}, PlainOut: []string{},
			TSizes: []int64{}, SSizes: []int64{}, TPaths: []string{}, SPaths: []string{}}
		writeMarker(*marker, fmt.Sprintf("{\"id\":%d,\"desc\":%q,\"params\":%q}", k, desc, line.Params))
		dr, err := realDiffDirs(oldDir, newDir, compressionOf(c.a, c.q))
		if err != nil {
			return fmt.Errorf("diff: %v", err)
		}
		var opt []byte
		var oerr error
		switch k % 3 {
		case 1:
			// pools with a history: a first optimization under other settings went through them, then this one
			pools := &optPools{}
			warm := op
			warm.Partitions, warm.Pools = (op.Partitions+1)%4, pools
			if _, _, werr := realOptimize(dr.Patch, oldDir, newDir, warm); werr != nil {
				oerr = fmt.Errorf("first optimization through the shared pools: %v", werr)
				break
			}
			op.Pools = pools
			opt, _, oerr = realOptimize(dr.Patch, oldDir, newDir, op)
			line.Params += " shared-pools"
		case 2:
			// the patch judged is what a SECOND Optimize call of the same context wrote
			var again []byte
			op.Again = &again
			_, _, oerr = realOptimize(dr.Patch, oldDir, newDir, op)
			opt = again
			line.Params += " second-call"
		default:
			opt, _, oerr = realOptimize(dr.Patch, oldDir, newDir, op)
		}
		if oerr != nil {
			line.OptErr = oerr.Error()
			w.emit(line)
			w.flush()
			os.RemoveAll(root)
			continue
		}
		d := decodePatch(opt)
		line.Decoded, line.DecErr = d.Complete && d.Err == "", d.Err
		if line.Decoded {
			line.Msgs = patchFacts(d, oldDir, newDir)
			line.TSizes, line.SSizes, line.TPaths, line.SPaths = sizesOf(d.Target), sizesOf(d.Source), pathsOf(d.Target), pathsOf(d.Source)
			line.Mapped = make([]int64, len(d.Source.Files))
			for i := range line.Mapped {
				line.Mapped[i] = -1
			}
			cur := int64(-1)
			for _, f := range line.Msgs {
				switch f.K {
				case "SH":
					cur = f.Fi
				case "BH":
					line.NBsdiff++
					if cur >= 0 && cur < int64(len(line.Mapped)) {
						line.Mapped[cur] = f.Tgt
					}
				case "CTL":
					line.NCtl++
				}
			}
		}
		// original patch, fresh
		po := filepath.Join(root, "plain-out")
		if ar := realApplyPatch(dr.Patch, applyOpts{Bowl: "fresh", OldDir: oldDir, OutDir: po}); ar.Err != nil {
			line.PlainErr = ar.Err.Error()
		}
		if s, err := snapshot(po); err == nil {
			line.PlainOut = snapList(s)
		}
		// optimized patch, fresh
		fo := filepath.Join(root, "fresh-out")
		fao := applyOpts{Bowl: "fresh", OldDir: oldDir, OutDir: fo}
		if k%4 == 3 {
			// the old build served by readers that return their last bytes together with io.EOF (bsdiff's read cache and
			// the block-range copies see it)
			fao.WrapPool = func(p lake.Pool, _ *tlc.Container) lake.Pool { return &eofPool{Pool: p} }
		}
		if ar := realApplyPatch(opt, fao); ar.Err != nil {
			line.FreshErr = ar.Err.Error()
		}
		if s, err := snapshot(fo); err == nil {
			line.FreshOut = snapList(s)
		}
		// optimized patch, in place
		work := filepath.Join(root, "work")
		os.MkdirAll(work, 0755)
		if err := copyDir(oldDir, work); err != nil {
			return err
		}
		if ar := realApplyPatch(opt, applyOpts{Bowl: "overlay", OldDir: work, StageDir: filepath.Join(root, "stage")}); ar.Err != nil {
			line.OverErr = ar.Err.Error()
		}
		if s, err := snapshot(work); err == nil {
			line.OverOut = snapList(s)
		}
		w.emit(line)
		w.flush()
		os.RemoveAll(root)
	}
	writeMarker(*marker, "")
	fmt.Printf("{\"lines\":%d}\n", w.n)
	return w.close()
}

func init() {
	register("c07", "optimizer on generated patches under seeded parameters; optimized patch applied fresh and in place", cmdC07)
}
