package main

import (
	"bytes"
	"context"
	"io"

	"github.com/itchio/lake/tlc"
	"github.com/itchio/wharf/pwr"
	"github.com/itchio/wharf/wsync"
)

// memFilePool is an in-memory lake.WritablePool over a container.
type memFilePool struct {
	c     *tlc.Container
	files map[int64][]byte        // readable content
	out   map[int64]*bytes.Buffer // written content
	// counters for recording pools
	readers, writers []int64
}

func newMemFilePool(c *tlc.Container) *memFilePool {
	return &memFilePool{c: c, files: map[int64][]byte{}, out: map[int64]*bytes.Buffer{}}
}

func (p *memFilePool) GetSize(i int64) int64 { return p.c.Files[i].Size }
func (p *memFilePool) GetReader(i int64) (io.Reader, error) {
	return p.GetReadSeeker(i)
}
func (p *memFilePool) GetReadSeeker(i int64) (io.ReadSeeker, error) {
	p.readers = append(p.readers, i)
	return bytes.NewReader(p.files[i]), nil
}
func (p *memFilePool) Close() error { return nil }

type memWriter struct{ b *bytes.Buffer }

func (w *memWriter) Write(d []byte) (int, error) { return w.b.Write(d) }
func (w *memWriter) Close() error                { return nil }

func (p *memFilePool) GetWriter(i int64) (io.WriteCloser, error) {
	p.writers = append(p.writers, i)
	b := &bytes.Buffer{}
	p.out[i] = b
	return &memWriter{b}, nil
}

// singleFileSig builds the signature of a one-file container holding content, using the real signer.
func singleFileSig(content []byte) *pwr.SignatureInfo {
	c := &tlc.Container{Files: []*tlc.File{{Path: "f", Mode: 0644, Size: int64(len(content)), Offset: 0}}, Size: int64(len(content))}
	pool := newMemFilePool(c)
	pool.files[0] = content
	hashes, err := pwr.ComputeSignature(context.Background(), c, pool, nullConsumer())
	must(err)
	return &pwr.SignatureInfo{Container: c, Hashes: hashes}
}

var _ = wsync.MaxDataOp
