package main

// C14 at the bowl level: the overlay writer as the patcher reaches it - through the overlay bowl's entry writer
// (pwr/bowl/bowl_overlay.go: GetWriter / Resume / Write / Save / Finalize / Close, Commit -> overlay Patch + truncate)
// - over HISTORIES on one bowl object: an entry begun, written in part, optionally saved, abandoned, then begun
// again from scratch (Resume(nil)) or from the saved checkpoint, finished and committed. Content classes make a
// misplaced old-file reader visible: the new file agrees with the old one at a SHIFTED offset (dropped prefix,
// relocated padding, periodic tiles), not only at the same offset.

import (
	"flag"
	"fmt"
	"math/rand"
	"os"
	"path/filepath"
	"sort"

	"github.com/itchio/lake/tlc"
	"github.com/itchio/wharf/pwr/bowl"
)

type bowlAct struct {
	Op string `json:"op"` // begin-scratch | begin-checkpoint | write | save | abandon | finalize | commit
	N  int    `json:"n"`
	R  string `json:"r"` // "" or error text
}

type c14BowlLine struct {
	Case   int       `json:"case"`
	Desc   string    `json:"desc"`
	OldLen int       `json:"oldlen"`
	NewLen int       `json:"newlen"`
	Acts   []bowlAct `json:"acts"`
	Err    string    `json:"err"`
	OutLen int       `json:"outlen"`
	OutSha string    `json:"outsha"`
	NewSha string    `json:"newsha"`
	OldIntactBeforeCommit bool `json:"oldintact"`
}

func shiftedPair(rng *rand.Rand, k int) (old, new []byte, desc string, shift int) {
	sz := []int{20000, 90000, 262144, 300000, 700000}[rng.Intn(5)]
	switch k % 6 {
	case 5: // a small header inserted in front: the new content is the old one d bytes LATER (d at most the skip threshold)
		old = randBytes(rng, sz)
		d := []int{1, 100, 4096, 8191, 8192, 8193}[rng.Intn(6)]
		new = append(randBytes(rng, d), old...)
		desc = fmt.Sprintf("front-insert-%d", d)
		shift = -d
	case 0: // a prefix of the old file dropped, new tail appended
		old = randBytes(rng, sz)
		p := 1 + rng.Intn(sz/2)
		new = append(append([]byte{}, old[p:]...), randBytes(rng, rng.Intn(70000))...)
		desc = fmt.Sprintf("dropped-prefix-%d", p)
		shift = p
	case 1: // zero padding relocated
		h, t := randBytes(rng, 40000+rng.Intn(100000)), randBytes(rng, 40000+rng.Intn(100000))
		pad := make([]byte, 100000+rng.Intn(300000))
		old = append(append(append([]byte{}, h...), pad...), t...)
		new = append(append(append([]byte{}, h...), randBytes(rng, 30000+rng.Intn(100000))...), pad...)
		desc = "padding-relocated"
	case 2: // periodic tiles
		tile := randBytes(rng, 9000+rng.Intn(30000))
		for len(old) < sz {
			old = append(old, tile...)
		}
		new = append(append([]byte{}, old[len(tile)/2:]...), tile...)
		desc = "periodic-tiles"
		shift = len(tile)/2 + rng.Intn(3)*len(tile)
	case 3: // same-offset edits only (the ordinary case)
		old = randBytes(rng, sz)
		new = append([]byte{}, old...)
		for i := 0; i < 1+rng.Intn(4); i++ {
			o := rng.Intn(len(new))
			copy(new[o:], randBytes(rng, 1+rng.Intn(20000)))
		}
		desc = "same-offset-edits"
	default: // unrelated
		old, new = randBytes(rng, sz), randBytes(rng, sz/2+rng.Intn(sz))
		desc = "unrelated"
	}
	return
}

func cmdC14Bowl(args []string) error {
	fs := flag.NewFlagSet("c14-bowl", flag.ExitOnError)
	n := fs.Int("n", 10, "cases")
	first := fs.Int("first", 0, "first case")
	out := fs.String("out", "c14b.ndjson", "trace output")
	fs.Parse(args)
	w, err := newNDJSON(*out)
	if err != nil {
		return err
	}
	for k := *first; k < *first+*n; k++ {
		rng := newRand(int64(14500 + k))
		old, new, desc, shift := shiftedPair(rng, k)
		root, err := os.MkdirTemp("", "c14b-")
		if err != nil {
			return err
		}
		outDir, stage := filepath.Join(root, "build"), filepath.Join(root, "stage")
		os.MkdirAll(outDir, 0755)
		fp := filepath.Join(outDir, "f.bin")
		if err := os.WriteFile(fp, old, 0644); err != nil {
			return err
		}
		tc := &tlc.Container{Files: []*tlc.File{{Path: "f.bin", Mode: 0644, Size: int64(len(old))}}, Size: int64(len(old))}
		sc := &tlc.Container{Files: []*tlc.File{{Path: "f.bin", Mode: 0644, Size: int64(len(new))}}, Size: int64(len(new))}
		line := c14BowlLine{Case: k, Desc: desc, OldLen: len(old), NewLen: len(new), Acts: []bowlAct{}, NewSha: sha(new)}
		fail := func(f string, a ...interface{}) {
			if line.Err == "" {
				line.Err = fmt.Sprintf(f, a...)
			}
		}
		b, err := bowl.NewOverlayBowl(bowl.OverlayBowlParams{TargetContainer: tc, SourceContainer: sc, OutputFolder: outDir, StageFolder: stage, Consumer: nullConsumer()})
		if err != nil {
			return err
		}
		writeSome := func(ew bowl.EntryWriter, from, to int) int {
			for from < to {
				m := []int{1, 4000, 32768, 131072, 131073, 200000}[rng.Intn(6)]
				if from+m > to {
					m = to - from
				}
				if _, err := ew.Write(new[from : from+m]); err != nil {
					fail("write: %v", err)
					return from
				}
				line.Acts = append(line.Acts, bowlAct{Op: "write", N: m})
				from += m
			}
			return from
		}
		var saved *bowl.WriterCheckpoint
		savedAt := 0
		attempts := 1 + rng.Intn(3)
		for a := 0; a < attempts && line.Err == ""; a++ {
			lastAttempt := a == attempts-1
			ew, err := b.GetWriter(0)
			if err != nil {
				fail("GetWriter: %v", err)
				break
			}
			pos := 0
			if saved != nil && rng.Intn(2) == 0 {
				off, err := ew.Resume(saved)
				if err != nil {
					fail("Resume(checkpoint): %v", err)
					break
				}
				if int(off) != savedAt {
					fail("Resume(checkpoint) reports offset %d, saved at %d", off, savedAt)
				}
				pos = savedAt
				line.Acts = append(line.Acts, bowlAct{Op: "begin-checkpoint", N: savedAt})
			} else {
				if _, err := ew.Resume(nil); err != nil {
					fail("Resume(nil): %v", err)
					break
				}
				// a fresh start rewrites the overlay from its first byte (op boundaries depend on the write slicing):
				// checkpoints of earlier attempts no longer describe the staged file
				saved = nil
				line.Acts = append(line.Acts, bowlAct{Op: "begin-scratch"})
			}
			if lastAttempt {
				// saves in the middle of the session, the SAME writer carries on afterwards (what the patcher does at
				// every checkpoint it is not stopped at); for a front insertion: right after the inserted bytes
				var savePoints []int
				if shift < 0 && pos == 0 && rng.Intn(4) != 0 {
					savePoints = append(savePoints, -shift)
				}
				for i := 0; i < rng.Intn(3); i++ {
					savePoints = append(savePoints, pos+rng.Intn(len(new)-pos+1))
				}
				sort.Ints(savePoints)
				for _, sp := range savePoints {
					if sp <= pos || line.Err != "" {
						continue
					}
					pos = writeSome(ew, pos, sp)
					if line.Err == "" {
						if _, err := ew.Save(); err != nil {
							fail("Save: %v", err)
						}
						line.Acts = append(line.Acts, bowlAct{Op: "save", N: pos})
					}
				}
				pos = writeSome(ew, pos, len(new))
				if line.Err == "" {
					if err := ew.Finalize(); err != nil {
						fail("Finalize: %v", err)
					}
					line.Acts = append(line.Acts, bowlAct{Op: "finalize"})
				}
				ew.Close()
				break
			}
			// a partial attempt: write some, maybe save, abandon
			upto := pos + rng.Intn(len(new)-pos+1)
			// leave the old-file reader exactly where the new content agrees with the old one again (new[i] =
			// old[shift+i]): a later beginning that does not reposition the reader then "recognises" everything
			exact := shift > 0 && pos == 0 && shift <= len(new) && rng.Intn(2) == 0 // (shift < 0: see the last attempt)
			if exact {
				upto = shift
			}
			pos = writeSome(ew, pos, upto)
			if (exact || rng.Intn(2) == 0) && line.Err == "" {
				cp, err := ew.Save()
				if err != nil {
					fail("Save: %v", err)
				} else {
					saved, savedAt = cp, pos
					line.Acts = append(line.Acts, bowlAct{Op: "save", N: pos})
					if more := pos + rng.Intn(len(new)-pos+1); more > pos && !exact {
						pos = writeSome(ew, pos, more) // bytes written after the checkpoint are lost with the attempt
					}
				}
			}
			ew.Close()
			line.Acts = append(line.Acts, bowlAct{Op: "abandon", N: pos})
		}
		if cur, err := os.ReadFile(fp); err == nil {
			line.OldIntactBeforeCommit = sha(cur) == sha(old)
		}
		if line.Err == "" {
			if err := b.Commit(); err != nil {
				fail("Commit: %v", err)
			}
			line.Acts = append(line.Acts, bowlAct{Op: "commit"})
		}
		b.Close()
		if got, err := os.ReadFile(fp); err == nil {
			line.OutLen, line.OutSha = len(got), sha(got)
		}
		w.emit(line)
		os.RemoveAll(root)
	}
	fmt.Printf("{\"lines\":%d}\n", w.n)
	return w.close()
}

func init() {
	register("c14-bowl", "overlay bowl entry-writer histories (begin / save / abandon / begin again / finalize / commit)", cmdC14Bowl)
}
