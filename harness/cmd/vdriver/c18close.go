package main

// C18, wound mode behind the validator's own wound filter (AggregateWounds) and over an inner pool whose writers may
// FAIL on Close (a pool that reports a delayed write error, or itself a fail-fast validating pool): whatever Close
// returns, the markers that come out for the file must still tile the written range and mark exactly the differing
// blocks. Unit scale: 1 unit = 32 KiB, blocks of 2 units; every signed content of up to 5 units x every same-length
// damage pattern plus shorter / longer data, x {inner Close succeeds, fails}.

import (
	"errors"
	"flag"
	"fmt"
	"io"
	"time"

	"github.com/itchio/lake/tlc"
	"github.com/itchio/wharf/pwr"
)

type failClosePool struct {
	*memFilePool
	fail bool
}

type failCloseWriter struct {
	io.WriteCloser
	fail bool
}

func (w *failCloseWriter) Close() error {
	err := w.WriteCloser.Close()
	if w.fail {
		return errors.New("inner pool: delayed write error reported at close")
	}
	return err
}

func (p *failClosePool) GetWriter(i int64) (io.WriteCloser, error) {
	w, err := p.memFilePool.GetWriter(i)
	if err != nil {
		return nil, err
	}
	return &failCloseWriter{w, p.fail}, nil
}

type c18CloseLine struct {
	Case     int      `json:"case"`
	Bs       int      `json:"bs"`   // block size in units
	Unit     int      `json:"unit"` // bytes per unit
	SgLen    int      `json:"sglen"`  // signed length in units
	P        int      `json:"p"`      // units written
	Good     []bool   `json:"good"`   // per block of the written data: equals the signed block
	InnerCloseFails bool `json:"innerclosefails"`
	CloseErr string   `json:"closeerr"`
	Markers  []marker `json:"w"`
	Slicing  string   `json:"slicing"`
}

func cmdC18Close(args []string) error {
	fs := flag.NewFlagSet("c18-close", flag.ExitOnError)
	maxLen := fs.Int("maxlen", 5, "max signed length in units")
	stride := fs.Int("stride", 1, "take every stride-th case")
	phase := fs.Int("phase", 0, "phase")
	out := fs.String("out", "c18c.ndjson", "trace output")
	fs.Parse(args)
	w, err := newNDJSON(*out)
	if err != nil {
		return err
	}
	const unit = 32 * 1024
	const bsUnits = 2
	rng := newRand(1818)
	syms := [][]byte{randBytes(rng, unit), randBytes(rng, unit)}
	expand := func(xs []byte) []byte {
		var b []byte
		for _, x := range xs {
			b = append(b, syms[x]...)
		}
		return b
	}
	id := -1
	for _, sg := range seqsUpTo(2, *maxLen) {
		if len(sg) == 0 {
			continue
		}
		signed := expand(sg)
		sig := singleFileSig(signed)
		for _, dt := range seqsUpTo(2, len(sg)+1) {
			if len(dt) == 0 || len(dt) < len(sg)-1 {
				continue
			}
			for _, fail := range []bool{false, true} {
				id++
				if id%*stride != *phase {
					continue
				}
				data := expand(dt)
				inner := &failClosePool{memFilePool: newMemFilePool(&tlc.Container{Files: sig.Container.Files, Size: sig.Container.Size}), fail: fail}
				sink := newWoundSink()
				vp := &pwr.ValidatingPool{Pool: inner, Container: sig.Container, Signature: sig, Wounds: sink.ch,
					WoundsFilter: func(wounds chan *pwr.Wound) chan *pwr.Wound { return pwr.AggregateWounds(wounds, pwr.MaxWoundSize) }}
				wr, err := vp.GetWriter(0)
				if err != nil {
					return err
				}
				line := c18CloseLine{Case: id, Bs: bsUnits, Unit: unit, SgLen: len(sg), P: len(dt), InnerCloseFails: fail, Good: []bool{}, Markers: []marker{}}
				switch id % 3 {
				case 0:
					line.Slicing = "one-write"
					wr.Write(data)
				case 1:
					line.Slicing = "32KiB"
					for o := 0; o < len(data); o += unit {
						wr.Write(data[o : o+unit])
					}
				default:
					line.Slicing = "10007"
					for o := 0; o < len(data); o += 10007 {
						e := o + 10007
						if e > len(data) {
							e = len(data)
						}
						wr.Write(data[o:e])
					}
				}
				if cerr := wr.Close(); cerr != nil {
					line.CloseErr = cerr.Error()
				}
				// the relay hands its last markers over before Close returns; a pool that does not flush them keeps
				// them for ever - give it a moment, then take what is there
				time.Sleep(2 * time.Millisecond)
				sink.drain()
				line.Markers = append(line.Markers, sink.got...)
				nb := (len(dt) + bsUnits - 1) / bsUnits
				for b := 0; b < nb; b++ {
					lo, hi := b*bsUnits*unit, (b+1)*bsUnits*unit
					if hi > len(data) {
						hi = len(data)
					}
					slo, shi := lo, (b+1)*bsUnits*unit
					if shi > len(signed) {
						shi = len(signed)
					}
					good := slo < len(signed) && string(data[lo:hi]) == string(signed[slo:shi])
					line.Good = append(line.Good, good)
				}
				w.emit(line)
			}
		}
	}
	fmt.Printf("{\"lines\":%d}\n", w.n)
	return w.close()
}

func init() {
	register("c18-close", "wound mode behind AggregateWounds over an inner pool whose Close may fail", cmdC18Close)
}
