//go:build verif

package main

// C06: healing from an archive. The real Validate with HealPath "archive,<zip>" on damaged copies of a build
// under seeded scheduling jitter (hooks in validator and healer) and GOMAXPROCS 1..16.
//   -mode model : the tree of the Heal.tla model (x/, x/y/, x/y/f, x/g, symlink l), every well-formed damaged disk
//   -mode tree  : generated builds with damage sequences incl. kind swaps that hide whole subtrees

import (
	"archive/zip"
	"context"
	"flag"
	"fmt"
	"math/rand"
	"os"
	"path/filepath"
	"runtime"
	"sort"
	"strings"
	"time"

	"github.com/itchio/wharf/pwr"
	"github.com/itchio/wharf/verifhook"
)

type c06Line struct {
	Case     int               `json:"case"`
	Mode     string            `json:"mode"`
	Desc     string            `json:"desc"`
	Damage   []string          `json:"damage"`
	Disk     map[string]string `json:"disk"` // model mode: path -> none|dir|file+|file-|sym+|sym-
	Procs    int               `json:"procs"`
	Returned bool              `json:"returned"`
	Err      string            `json:"err"`
	Diff     []string          `json:"diff"`     // differences between the healed directory and the signed build
	Leftover []string          `json:"leftover"` // entries that are not part of the build and are still there (not judged)
	AfterErr string            `json:"aftererr"` // fail-fast validation after healing
	Valid    bool              `json:"valid"`    // the directory was already valid before healing
	Changed  []string          `json:"changed"`  // valid case: entries whose inode / mtime / size changed
	DirSwap  bool              `json:"dirswap"`  // a non-directory sits where a directory is expected
	Leak     int               `json:"leak"`
	// a SECOND heal of the (now healed) directory with the SAME validator context: must return nil and touch nothing
	AgainErr     string   `json:"againerr"`
	AgainChanged []string `json:"againchanged"`
}

func zipBuild(path string, t *tree) error {
	f, err := os.Create(path)
	if err != nil {
		return err
	}
	zw := zip.NewWriter(f)
	for _, p := range t.sortedFiles() {
		w, err := zw.Create(p)
		if err != nil {
			return err
		}
		if _, err := w.Write(t.Files[p]); err != nil {
			return err
		}
	}
	if err := zw.Close(); err != nil {
		return err
	}
	return f.Close()
}

type statKey struct {
	Ino   uint64
	Mtime int64
	Size  int64
	Mode  uint32
}

func statTree(dir string) map[string]statKey {
	out := map[string]statKey{}
	filepath.Walk(dir, func(p string, info os.FileInfo, err error) error {
		if err != nil {
			return nil
		}
		rel, _ := filepath.Rel(dir, p)
		out[rel] = statKey{Ino: inodeOf(info), Mtime: info.ModTime().UnixNano(), Size: info.Size(), Mode: uint32(info.Mode())}
		return nil
	})
	return out
}

var modelPaths = []string{"x", "x/y", "x/y/f", "x/g", "l"}
var modelExpect = map[string]string{"x": "dir", "x/y": "dir", "x/y/f": "file", "x/g": "file", "l": "sym"}

func modelDisks() []map[string]string {
	kinds := []string{"none", "dir", "file+", "file-", "sym+", "sym-", "symdir"}
	var out []map[string]string
	var rec func(i int, cur map[string]string)
	rec = func(i int, cur map[string]string) {
		if i == len(modelPaths) {
			c := map[string]string{}
			for k, v := range cur {
				c[k] = v
			}
			out = append(out, c)
			return
		}
		p := modelPaths[i]
		for _, k := range kinds {
			// well-formed: something exists only under directories; a symlink to a look-alike directory only where
			// the build has a directory
			ok := true
			if k == "symdir" && modelExpect[p] != "dir" {
				continue
			}
			if k != "none" {
				for q := p; strings.Contains(q, "/"); {
					q = q[:strings.LastIndex(q, "/")]
					if cur[q] != "dir" {
						ok = false
					}
				}
			}
			if !ok {
				continue
			}
			cur[p] = k
			rec(i+1, cur)
		}
		delete(cur, p)
	}
	rec(0, map[string]string{})
	return out
}

func cmdC06(args []string) error {
	fs := flag.NewFlagSet("c06", flag.ExitOnError)
	n := fs.Int("n", 10, "cases")
	first := fs.Int("first", 0, "first case")
	mode := fs.String("mode", "tree", "tree | model")
	out := fs.String("out", "c06.ndjson", "trace output")
	fs.Parse(args)
	w, err := newNDJSON(*out)
	if err != nil {
		return err
	}
	disks := modelDisks()
	for k := *first; k < *first+*n; k++ {
		rng := newRand(int64(6000 + k))
		line := c06Line{AgainChanged: []string{}, Case: k, Mode: *mode, Damage: []string{}, Diff: []string{}, Changed: []string{}, Disk: map[string]string{}}
		root, err := os.MkdirTemp("", "c06-")
		if err != nil {
			return err
		}
		var build *tree
		if *mode == "model" {
			if k >= len(disks) {
				os.RemoveAll(root)
				break
			}
			build = newTree()
			build.Dirs["x/y"] = true
			build.Files["x/y/f"] = randBytes(rng, BS+100)
			build.Files["x/g"] = randBytes(rng, 500)
			build.Symlinks["l"] = "x/g"
			line.Desc = fmt.Sprintf("disk#%d", k)
		} else {
			build, line.Desc = genBuild(rng, k)
			// nested directories with content, so that kind swaps can hide subtrees
			build.Files["nest/a/b/deep.bin"] = randBytes(rng, 1000+rng.Intn(BS))
			build.Files["nest/a/side.bin"] = randBytes(rng, 300)
			build.Files["nest/empty.bin"] = []byte{}
			build.Dirs["nest/a/b/emptydir"] = true
			// (directories that come AFTER nest/a in the container's order, for damages that break several directories)
			build.Files["nest/m-later/keep.bin"] = randBytes(rng, 500)
			build.Files["zz-last/tail.bin"] = randBytes(rng, 700)
			build.Symlinks["zz-last/link"] = "tail.bin"
			build.Symlinks["nest/link"] = "a/side.bin"
		}
		sdir, dir := filepath.Join(root, "signed"), filepath.Join(root, "target")
		if err := writeTree(sdir, build); err != nil {
			return err
		}
		si, err := signDir(sdir)
		if err != nil {
			return err
		}
		// (the healer spec is "archive,<location>": the location itself may contain commas)
		zp := filepath.Join(root, []string{"build.zip", "build,v1.zip", "Hello, World build.zip"}[k%3])
		if err := zipBuild(zp, build); err != nil {
			return err
		}
		// ---- the damaged directory
		if *mode == "model" {
			d := disks[k]
			line.Disk = d
			os.MkdirAll(dir, 0755)
			for _, p := range modelPaths {
				full := filepath.Join(dir, filepath.FromSlash(p))
				switch d[p] {
				case "dir":
					os.MkdirAll(full, 0755)
				case "file+":
					if c, ok := build.Files[p]; ok {
						os.WriteFile(full, c, 0644)
					} else {
						os.WriteFile(full, []byte("a file where something else is expected"), 0644)
					}
				case "file-":
					os.WriteFile(full, []byte("damaged content"), 0644)
				case "sym+":
					if dest, ok := build.Symlinks[p]; ok {
						os.Symlink(dest, full)
					} else {
						os.Symlink("nowhere", full)
					}
				case "sym-":
					os.Symlink("wrong-destination", full)
				case "symdir":
					// a link that resolves to a directory elsewhere holding a healthy copy of the signed subtree
					la := filepath.Join(root, "lookalike-"+strings.ReplaceAll(p, "/", "_"))
					copyDir(filepath.Join(sdir, filepath.FromSlash(p)), la)
					os.Symlink(la, full)
				}
				if modelExpect[p] == "dir" && d[p] != "dir" && d[p] != "none" {
					line.DirSwap = true
				}
			}
			line.Damage = []string{fmt.Sprint(d)}
		} else {
			switch k % 7 {
			case 0: // already valid
				os.MkdirAll(dir, 0755)
				copyDir(sdir, dir)
			case 1: // missing altogether
			case 2: // empty
				os.MkdirAll(dir, 0755)
				line.Damage = []string{"empty-directory"}
			default:
				os.MkdirAll(dir, 0755)
				copyDir(sdir, dir)
				line.Damage = applyDamage(rng, dir, si.Container, build)
				if line.Damage == nil {
					line.Damage = []string{}
				}
				// kind swaps that hide whole subtrees
				switch rng.Intn(6) {
				case 0:
					os.RemoveAll(filepath.Join(dir, "nest", "a"))
					os.WriteFile(filepath.Join(dir, "nest", "a"), []byte("a file where a directory with content is expected"), 0644)
					line.Damage = append(line.Damage, "dir->file(hides subtree):nest/a")
					line.DirSwap = true
				case 1:
					os.RemoveAll(filepath.Join(dir, "nest", "a"))
					os.Symlink("nowhere", filepath.Join(dir, "nest", "a"))
					line.Damage = append(line.Damage, "dir->symlink(hides subtree):nest/a")
					line.DirSwap = true
				case 3:
					// the directory replaced by a symlink that RESOLVES to a directory with the same content (the folder
					// was moved to another disk and linked back): through the link every file looks healthy
					la := filepath.Join(root, fmt.Sprintf("lookalike-%d", k))
					copyDir(filepath.Join(dir, "nest", "a"), la)
					os.RemoveAll(filepath.Join(dir, "nest", "a"))
					os.Symlink(la, filepath.Join(dir, "nest", "a"))
					line.Damage = append(line.Damage, "dir->symlink-to-lookalike-dir(hides subtree):nest/a")
					line.DirSwap = true
					// ... and on top of it one or two LATER directories broken too (a file, a dangling link, another
					// look-alike link in their place), with a large missing directory tree that keeps the healer busy
					if rng.Intn(2) == 0 {
						for _, later := range [][]string{{"nest", "m-later"}, {"zz-last"}}[rng.Intn(2):] {
							lp := filepath.Join(append([]string{dir}, later...)...)
							switch rng.Intn(3) {
							case 0:
								os.RemoveAll(lp)
								os.WriteFile(lp, []byte("file"), 0644)
								line.Damage = append(line.Damage, "dir->file:"+strings.Join(later, "/"))
							case 1:
								os.RemoveAll(lp)
								os.Symlink("nowhere-at-all", lp)
								line.Damage = append(line.Damage, "dir->symlink:"+strings.Join(later, "/"))
							default:
								la2 := filepath.Join(root, fmt.Sprintf("lookalike2-%d-%s", k, later[len(later)-1]))
								copyDir(lp, la2)
								os.RemoveAll(lp)
								os.Symlink(la2, lp)
								line.Damage = append(line.Damage, "dir->symlink-to-lookalike-dir:"+strings.Join(later, "/"))
							}
						}
					}
				case 2:
					p := filepath.Join(dir, "nest", "a", "side.bin")
					os.Remove(p)
					os.MkdirAll(filepath.Join(p, "inside", "deeper"), 0755)
					os.WriteFile(filepath.Join(p, "inside", "x"), []byte("x"), 0644)
					line.Damage = append(line.Damage, "file->nonempty-dir:nest/a/side.bin")
				}
			}
			if k%7 == 1 {
				line.Damage = []string{"missing-directory"}
			}
		}
		line.Valid = len(line.Damage) == 0 && *mode == "tree"
		before := map[string]statKey{}
		if line.Valid {
			before = statTree(dir)
		}
		// ---- heal under jitter
		line.Procs = []int{1, 2, 4, 16}[rng.Intn(4)]
		prev := runtime.GOMAXPROCS(line.Procs)
		base := runtime.NumGoroutine()
		jr := rand.New(rand.NewSource(int64(k)*104729 + envSeed()))
		h := &hookRec{logs: map[string][]hookEv{}, jitter: jr}
		verifhook.SetHandler(h.handle)
		vctx := &pwr.ValidatorContext{HealPath: "archive," + zp, Consumer: nullConsumer()}
		done := make(chan error, 1)
		go func() { done <- vctx.Validate(context.Background(), dir, si) }()
		select {
		case err := <-done:
			line.Returned = true
			if err != nil {
				line.Err = err.Error()
				line.Err = strings.ReplaceAll(line.Err, root, "")
				if len(line.Err) > 200 {
					line.Err = line.Err[:200]
				}
			}
		case <-time.After(15 * time.Second):
		}
		verifhook.SetHandler(nil)
		for i := 0; i < 100 && runtime.NumGoroutine() > base; i++ {
			time.Sleep(10 * time.Millisecond)
		}
		if l := runtime.NumGoroutine() - base; l > 0 {
			line.Leak = l
		}
		runtime.GOMAXPROCS(prev)
		// ---- afterwards
		if s, err := snapshot(dir); err == nil {
			// C06 speaks about the entries OF THE BUILD; what else lies in the directory (a damage can leave a stray
			// entry behind, e.g. content written through a dangling link that replaced a file) is not healing's business
			line.Diff, line.Leftover = []string{}, []string{}
			for _, df := range diffSnap(build.snapshot(), s) {
				if strings.HasPrefix(df, "leftover:") {
					line.Leftover = append(line.Leftover, df)
				} else {
					line.Diff = append(line.Diff, df)
				}
			}
		} else {
			line.Diff = []string{"snapshot: " + err.Error()}
		}
		if err := pwr.AssertValid(dir, si); err != nil {
			line.AfterErr = err.Error()
			if len(line.AfterErr) > 160 {
				line.AfterErr = line.AfterErr[:160]
			}
		}
		if line.Returned && line.Err == "" && len(line.Diff) == 0 {
			b2 := statTree(dir)
			if err := vctx.Validate(context.Background(), dir, si); err != nil {
				line.AgainErr = err.Error()
			}
			a2 := statTree(dir)
			for p, b := range b2 {
				if a, ok := a2[p]; !ok || a != b {
					line.AgainChanged = append(line.AgainChanged, p)
				}
			}
			for p := range a2 {
				if _, ok := b2[p]; !ok {
					line.AgainChanged = append(line.AgainChanged, "+"+p)
				}
			}
			sort.Strings(line.AgainChanged)
		}
		if line.Valid {
			after := statTree(dir)
			for p, b := range before {
				if a, ok := after[p]; !ok || a != b {
					line.Changed = append(line.Changed, p)
				}
			}
			for p := range after {
				if _, ok := before[p]; !ok {
					line.Changed = append(line.Changed, "+"+p)
				}
			}
			sort.Strings(line.Changed)
		}
		w.emit(line)
		w.flush()
		os.RemoveAll(root)
		if !line.Returned {
			fmt.Printf("{\"lines\":%d,\"stuck\":%d}\n", w.n, k)
			w.close()
			os.Exit(7)
		}
	}
	fmt.Printf("{\"lines\":%d}\n", w.n)
	return w.close()
}

func init() {
	register("c06", "healing from an archive on damaged directories under seeded scheduling jitter", cmdC06)
}
