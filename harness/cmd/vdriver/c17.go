package main

// C17: partial application by whitelist. For each patch (plain or optimized, seeded compression) and each subset
// of new-file indices the real patcher runs with a recording bowl and a recording target pool.

import (
	"flag"
	"fmt"
	"math/rand"
	"os"
	"path/filepath"
	"sort"

	"github.com/itchio/lake"
	"github.com/itchio/lake/tlc"
	"github.com/itchio/wharf/pwr/bowl"
)

type c17Subset struct {
	Wl         []int64  `json:"wl"`
	Touched    int64    `json:"touched"`
	Err        string   `json:"err"`
	Writers    []int64  `json:"writers"`
	Transposes []int64  `json:"transposes"`
	Reads      []int64  `json:"reads"`
	Out        []string `json:"out"`  // snapshot entries of the whitelisted files in the output
	Want       []string `json:"want"` // the same entries in the new build
}

type c17Line struct {
	Case      int         `json:"case"`
	Desc      string      `json:"desc"`
	Algo      string      `json:"algo"`
	Q         int32       `json:"q"`
	Optimized bool        `json:"optimized"`
	OptErr    string      `json:"opterr"`
	TSizes    []int64     `json:"tsizes"`
	SSizes    []int64     `json:"ssizes"`
	SPaths    []string    `json:"spaths"`
	Msgs      []opFact    `json:"msgs"`
	Decoded   bool        `json:"decoded"`
	DecErr    string      `json:"decerr"`
	Subsets   []c17Subset `json:"subsets"`
	NBsdiff   int         `json:"nbsdiff"`
	MaxTgt    int64       `json:"maxtgt"`
}

// manyFilesPair builds an old build with more than 2049 files such that the file at target index 2049 is the
// bsdiff target of a modified new file (the aliasing case of the end-marker recognition in skipFile).
func manyFilesPair(rng *rand.Rand) (old, new *tree, desc string) {
	old, new = newTree(), newTree()
	for i := 0; i < 2056; i++ {
		p := fmt.Sprintf("many/f%04d.bin", i)
		c := randBytes(rng, 40+rng.Intn(60))
		old.Files[p] = c
		new.Files[p] = c
	}
	paths := old.sortedFiles() // tlc.WalkDir lists files in lexical order
	for _, idx := range []int{2049, 2050, 3} {
		p := paths[idx]
		c := append([]byte{}, old.Files[p]...)
		c[len(c)/2] ^= 0x55
		c = append(c, byte(idx))
		new.Files[p] = c
	}
	return old, new, "many-files(target-index-2049)"
}

func subsetsOf(rng *rand.Rand, n int) [][]int64 {
	var out [][]int64
	if n <= 5 {
		for m := 0; m < 1<<uint(n); m++ {
			s := []int64{}
			for i := 0; i < n; i++ {
				if m&(1<<uint(i)) != 0 {
					s = append(s, int64(i))
				}
			}
			out = append(out, s)
		}
		return out
	}
	full := []int64{}
	for i := 0; i < n; i++ {
		full = append(full, int64(i))
	}
	out = append(out, []int64{}, full)
	for len(out) < 10 {
		s := []int64{}
		for i := 0; i < n; i++ {
			if rng.Intn(2) == 0 {
				s = append(s, int64(i))
			}
		}
		out = append(out, s)
	}
	for i := 0; i < n && i < 3; i++ { // singletons and co-singletons
		out = append(out, []int64{int64(rng.Intn(n))})
	}
	return out
}

func cmdC17(args []string) error {
	fs := flag.NewFlagSet("c17", flag.ExitOnError)
	n := fs.Int("n", 10, "cases")
	first := fs.Int("first", 0, "first case")
	out := fs.String("out", "c17.ndjson", "trace output")
	fs.Parse(args)
	w, err := newNDJSON(*out)
	if err != nil {
		return err
	}
	comps := allCompressions()
	for k := *first; k < *first+*n; k++ {
		rng := newRand(int64(17000 + k))
		var old, new *tree
		var desc string
		many := k%12 == 7
		if many {
			old, new, desc = manyFilesPair(rng)
		} else {
			old, new, desc = genPair(rng, k, false)
		}
		root, oldDir, newDir, err := materialisePair(old, new)
		if err != nil {
			return err
		}
		c := comps[rng.Intn(len(comps))]
		if c.a == "BROTLI" && c.q >= 10 {
			c.q = 5
		}
		if k%3 == 0 {
			c = comps[0]
		}
		line := c17Line{Case: k, Desc: desc, Algo: c.a, Q: c.q, Msgs: []opFact{}, Subsets: []c17Subset{}, TSizes: []int64{}, SSizes: []int64{}, SPaths: []string{}}
		dr, err := realDiffDirs(oldDir, newDir, compressionOf(c.a, c.q))
		if err != nil {
			return fmt.Errorf("diff: %v", err)
		}
		patch := dr.Patch
		if k%2 == 1 || many {
			op := optParams{Partitions: rng.Intn(4), ForceMapAll: !many && rng.Intn(3) == 0, Comp: compressionOf(c.a, c.q)}
			opt, _, err := realOptimize(patch, oldDir, newDir, op)
			if err != nil {
				line.OptErr = err.Error()
			} else {
				patch = opt
				line.Optimized = true
			}
		}
		d := decodePatch(patch)
		line.Decoded = d.Complete && d.Err == ""
		line.DecErr = d.Err
		if !line.Decoded {
			w.emit(line)
			os.RemoveAll(root)
			continue
		}
		facts := patchFacts(d, oldDir, newDir)
		if many {
			// keep the record small: only the series that are not plain whole-file copies
			line.Msgs = facts
		} else {
			line.Msgs = facts
		}
		for _, f := range facts {
			if f.K == "BH" {
				line.NBsdiff++
				if f.Tgt > line.MaxTgt {
					line.MaxTgt = f.Tgt
				}
			}
		}
		line.TSizes, line.SSizes, line.SPaths = sizesOf(d.Target), sizesOf(d.Source), pathsOf(d.Source)
		wantSnap := new.snapshot()
		var subsets [][]int64
		if many {
			// whitelists around the aliasing series
			var bs []int64
			cur := int64(-1)
			for _, f := range facts {
				if f.K == "SH" {
					cur = f.Fi
				}
				if f.K == "BH" {
					bs = append(bs, cur)
				}
			}
			subsets = [][]int64{{}, bs}
			if len(bs) > 6 {
				bs = bs[:6]
			}
			for _, b := range bs {
				subsets = append(subsets, []int64{b})
				var others []int64
				for _, o := range bs {
					if o != b {
						others = append(others, o)
					}
				}
				subsets = append(subsets, others)
			}
			subsets = append(subsets, []int64{0, 1, 2050, 2055})
		} else {
			subsets = subsetsOf(rng, len(d.Source.Files))
		}
		for si, wl := range subsets {
			outDir := filepath.Join(root, fmt.Sprintf("out%d", si))
			m := map[int64]bool{}
			for _, i := range wl {
				m[i] = true
			}
			// the whitelist is a map[int64]bool: the same subset may be written with explicit false entries for
			// files that are NOT selected (a caller filling the map with wl[i] = needsPatching(i))
			if (si+k)%2 == 1 && len(d.Source.Files) <= 64 {
				for i := range d.Source.Files {
					if !m[int64(i)] {
						m[int64(i)] = false
					}
				}
			}
			rb := &recBowl{}
			rp := &recPool{}
			// a third of the applications are INTERRUPTED: stopped at their first checkpoints (inside whitelisted files)
			// and resumed, the same patcher carrying on with a new pool and a new bowl
			interrupt := 0
			if (si+2*k)%3 == 0 {
				interrupt = 1 + (si+k)%3
			}
			ar := realApplyPatch(patch, applyOpts{Bowl: "fresh", OldDir: oldDir, OutDir: outDir, Whitelist: m, Interrupt: interrupt, OldEOF: k%2 == 1,
				WrapPool: func(p lake.Pool, _ *tlc.Container) lake.Pool { rp.Pool = p; return rp },
				WrapBowl: func(b bowl.Bowl) bowl.Bowl { rb.Bowl = b; return rb }})
			s := c17Subset{Wl: nonNil64(wl), Touched: ar.Touched, Writers: nonNil64(rb.Writers), Transposes: nonNil64(rb.Transposes), Reads: nonNil64(rp.Reads), Out: []string{}, Want: []string{}}
			if ar.Err != nil {
				s.Err = ar.Err.Error()
			}
			snap, _ := snapshot(outDir)
			for _, i := range wl {
				p := d.Source.Files[i].Path
				if e, ok := snap[p]; ok {
					s.Out = append(s.Out, snapList(map[string]snapEntry{p: e})...)
				}
				if e, ok := wantSnap[p]; ok {
					s.Want = append(s.Want, snapList(map[string]snapEntry{p: e})...)
				}
			}
			sort.Strings(s.Out)
			sort.Strings(s.Want)
			line.Subsets = append(line.Subsets, s)
			os.RemoveAll(outDir)
		}
		w.emit(line)
		os.RemoveAll(root)
	}
	fmt.Printf("{\"lines\":%d}\n", w.n)
	return w.close()
}

func init() {
	register("c17", "partial application by whitelist with recording bowl and pool", cmdC17)
}
