package main

// C02: in-place application through the overlay bowl.
//   -mode model : (old,new) pairs of the BowlOverlay model's universe (paths a, b, d, d/x; contents c1, c2, empty;
//                 symlink; d may be a directory), materialised (symbol -> atom) and run through the real
//                 diff -> patcher -> overlay bowl, several commits per pair (Go map iteration orders);
//                 the outcome is reported in the model's terms.
//   -mode scen  : generated real-scale pairs (renames, swaps, chains, duplications, patched+renamed, grow/shrink,
//                 deleted dirs, symlink changes), R commits each.
// In both modes the directory holding the old build is snapshotted right before Commit.

import (
	"flag"
	"fmt"
	"math/rand"
	"os"
	"path/filepath"
	"sort"
	"strings"
)

type mEntry struct {
	K string `json:"k"` // none | file | dir | sym
	C string `json:"c"` // file content symbol
	T string `json:"t"` // symlink target symbol
}

var mPaths = []string{"a", "b", "d", "d/x"}

type mOutcome struct {
	Final  map[string]mEntry `json:"final"`
	Failed bool              `json:"failed"`
	Err    string            `json:"err"`
	Extra  []string          `json:"extra"` // entries outside the model's universe (temp names, files written through links)
	Count  int               `json:"count"`
}

type c02Line struct {
	Case     int               `json:"case"`
	Mode     string            `json:"mode"`
	Desc     string            `json:"desc"`
	Old      map[string]mEntry `json:"old"`
	New      map[string]mEntry `json:"new"`
	Outcomes []mOutcome        `json:"outcomes"`
	Reps     int               `json:"reps"`
	PreCommitUntouched bool    `json:"precommit_untouched"`
	KindChange bool            `json:"kindchange"`
	// scen mode
	NewList  []string   `json:"newlist"`
	OutLists [][]string `json:"outlists"`
	Errs     []string   `json:"errs"`
	DiffErr  string     `json:"differr"`
}

func mEntries() (top []mEntry, dEntries []mEntry, dxEntries []mEntry) {
	base := []mEntry{{K: "none"}, {K: "file", C: "c1"}, {K: "file", C: "c2"}, {K: "file", C: "e"}, {K: "sym", T: "t1"}}
	top = base
	dEntries = append(append([]mEntry{}, base...), mEntry{K: "dir"})
	dxEntries = base
	return
}

func mBuilds() []map[string]mEntry {
	top, de, dx := mEntries()
	var out []map[string]mEntry
	for _, a := range top {
		for _, b := range top {
			for _, d := range de {
				for _, x := range dx {
					if x.K != "none" && d.K != "dir" {
						continue
					}
					out = append(out, map[string]mEntry{"a": a, "b": b, "d": d, "d/x": x})
				}
			}
		}
	}
	return out
}

func mTree(b map[string]mEntry, atoms map[string][]byte) *tree {
	t := newTree()
	for p, e := range b {
		switch e.K {
		case "file":
			t.Files[p] = atoms[e.C]
		case "dir":
			t.Dirs[p] = true
		case "sym":
			t.Symlinks[p] = e.T
		}
	}
	return t
}

func mProject(dir string, atoms map[string][]byte) (map[string]mEntry, []string) {
	final := map[string]mEntry{}
	for _, p := range mPaths {
		final[p] = mEntry{K: "none"}
	}
	extra := []string{}
	snap, _ := snapshot(dir)
	shaToSym := map[string]string{}
	for s, b := range atoms {
		shaToSym[sha(b)] = s
	}
	for p, e := range snap {
		known := false
		for _, mp := range mPaths {
			if mp == p {
				known = true
			}
		}
		if !known {
			extra = append(extra, e.Kind+":"+p)
			continue
		}
		switch e.Kind {
		case "file":
			c, ok := shaToSym[e.Sha]
			if !ok {
				c = "garbage"
			}
			final[p] = mEntry{K: "file", C: c}
		case "dir":
			final[p] = mEntry{K: "dir"}
		case "symlink":
			final[p] = mEntry{K: "sym", T: e.Dest}
		default:
			final[p] = mEntry{K: "other"}
		}
	}
	sort.Strings(extra)
	return final, extra
}

func kindChange(o, n map[string]mEntry) bool {
	for _, p := range mPaths {
		if o[p].K != "none" && n[p].K != "none" && o[p].K != n[p].K {
			return true
		}
	}
	return false
}

func inPlaceOnce(root string, id int, oldDir string, patch []byte, oldSnap map[string]snapEntry) (work string, untouched bool, err error) {
	ws := filepath.Join(root, fmt.Sprintf("w%d", id))
	work = filepath.Join(ws, "work")
	if err = os.MkdirAll(work, 0755); err != nil {
		return
	}
	if err = copyDir(oldDir, work); err != nil {
		return
	}
	untouched = true
	ar := realApplyPatch(patch, applyOpts{Bowl: "overlay", OldDir: work, StageDir: filepath.Join(ws, "stage"), OldEOF: len(patch)%2 == 1, BeforeCommit: func() {
		s, _ := snapshot(work)
		untouched = len(diffSnap(oldSnap, s)) == 0
	}})
	err = ar.Err
	return
}

func cmdC02(args []string) error {
	fs := flag.NewFlagSet("c02", flag.ExitOnError)
	n := fs.Int("n", 10, "cases")
	first := fs.Int("first", 0, "first case")
	mode := fs.String("mode", "model", "model | scen")
	reps := fs.Int("reps", 4, "commits per pair")
	sample := fs.Bool("sample", true, "model mode: seeded sample of the universe (false: case index = pair index)")
	subset := fs.String("subset", "all", "model mode: all | nokind (pairs in which no path changes kind) | kind")
	stride := fs.Int("stride", 1, "model mode with a subset: keep every stride-th pair of the subset")
	out := fs.String("out", "c02.ndjson", "trace output")
	fs.Parse(args)
	w, err := newNDJSON(*out)
	if err != nil {
		return err
	}
	builds := mBuilds()
	npairs := len(builds) * len(builds)
	var pool []int // pair indices of the chosen subset
	if *mode == "model" && *subset != "all" {
		for idx := 0; idx < npairs; idx++ {
			kc := kindChange(builds[idx/len(builds)], builds[idx%len(builds)])
			if (kc && *subset == "kind") || (!kc && *subset == "nokind") {
				pool = append(pool, idx)
			}
		}
		if *stride > 1 {
			// a FIXED subset (every stride-th pair of the subset), the same under every seed
			var thin []int
			for i := 0; i < len(pool); i += *stride {
				thin = append(thin, pool[i])
			}
			pool = thin
		}
		npairs = len(pool)
	}
	for k := *first; k < *first+*n; k++ {
		rng := newRand(int64(2000 + k))
		line := c02Line{Case: k, Mode: *mode, Reps: *reps, Outcomes: []mOutcome{}, NewList: []string{}, OutLists: [][]string{}, Errs: []string{}, Old: map[string]mEntry{}, New: map[string]mEntry{}}
		var old, new *tree
		atoms := map[string][]byte{}
		if *mode == "model" {
			idx := k
			if *sample {
				idx = rng.Intn(npairs)
			}
			if idx >= npairs {
				break
			}
			if pool != nil {
				idx = pool[idx]
			}
			line.Old, line.New = builds[idx/len(builds)], builds[idx%len(builds)]
			line.KindChange = kindChange(line.Old, line.New)
			arng := rand.New(rand.NewSource(42))
			atoms["c1"], atoms["c2"], atoms["e"] = randBytes(arng, 70000), randBytes(arng, 66000), []byte{}
			old, new = mTree(line.Old, atoms), mTree(line.New, atoms)
			line.Desc = fmt.Sprintf("pair#%d", idx)
		} else {
			old, new, line.Desc = genPair(rng, k, false)
			line.NewList = snapList(new.snapshot())
		}
		root, oldDir, newDir, err := materialisePair(old, new)
		if err != nil {
			return err
		}
		dr, err := realDiffDirs(oldDir, newDir, compressionOf("NONE", 0))
		if err != nil {
			line.DiffErr = err.Error()
			w.emit(line)
			os.RemoveAll(root)
			continue
		}
		oldSnap, _ := snapshot(oldDir)
		line.PreCommitUntouched = true
		seen := map[string]int{}
		for r := 0; r < *reps; r++ {
			work, untouched, aerr := inPlaceOnce(root, r, oldDir, dr.Patch, oldSnap)
			if !untouched {
				line.PreCommitUntouched = false
			}
			es := ""
			if aerr != nil {
				es = aerr.Error()
				if i := strings.Index(es, root); i >= 0 {
					es = strings.ReplaceAll(es, root, "")
				}
			}
			if *mode == "model" {
				final, extra := mProject(work, atoms)
				key := fmt.Sprint(final, extra, aerr != nil)
				if i, ok := seen[key]; ok {
					line.Outcomes[i].Count++
				} else {
					seen[key] = len(line.Outcomes)
					line.Outcomes = append(line.Outcomes, mOutcome{Final: final, Failed: aerr != nil, Err: es, Extra: extra, Count: 1})
				}
			} else {
				s, _ := snapshot(work)
				line.OutLists = append(line.OutLists, snapList(s))
				line.Errs = append(line.Errs, es)
			}
			os.RemoveAll(filepath.Join(root, fmt.Sprintf("w%d", r)))
		}
		w.emit(line)
		os.RemoveAll(root)
	}
	fmt.Printf("{\"lines\":%d}\n", w.n)
	return w.close()
}

func init() {
	register("c02", "in-place application through the overlay bowl (model universe pairs / generated scenarios)", cmdC02)
}
