package main

// Shared machinery for the build-pair level properties (C01, C02, C03, C07, C08, C09, C17, ...):
// symbolic trees, on-disk materialisation, snapshots, and a seeded generator of (old,new) build pairs
// covering the size classes and content relations the properties quantify over.

import (
	"fmt"
	"math/rand"
	"os"
	"path/filepath"
	"sort"
	"strings"
)

const BS = 64 * 1024

type tree struct {
	Files    map[string][]byte
	Dirs     map[string]bool   // explicit directories (may be empty)
	Symlinks map[string]string // path -> dest
}

func newTree() *tree {
	return &tree{Files: map[string][]byte{}, Dirs: map[string]bool{}, Symlinks: map[string]string{}}
}

func (t *tree) clone() *tree {
	c := newTree()
	for k, v := range t.Files {
		c.Files[k] = v
	}
	for k := range t.Dirs {
		c.Dirs[k] = true
	}
	for k, v := range t.Symlinks {
		c.Symlinks[k] = v
	}
	return c
}

func (t *tree) sortedFiles() []string {
	var r []string
	for k := range t.Files {
		r = append(r, k)
	}
	sort.Strings(r)
	return r
}

func (t *tree) totalSize() int64 {
	var n int64
	for _, v := range t.Files {
		n += int64(len(v))
	}
	return n
}

func writeTree(dir string, t *tree) error {
	if err := os.MkdirAll(dir, 0755); err != nil {
		return err
	}
	for d := range t.Dirs {
		if err := os.MkdirAll(filepath.Join(dir, filepath.FromSlash(d)), 0755); err != nil {
			return err
		}
	}
	for p, c := range t.Files {
		full := filepath.Join(dir, filepath.FromSlash(p))
		if err := os.MkdirAll(filepath.Dir(full), 0755); err != nil {
			return err
		}
		if err := os.WriteFile(full, c, 0644); err != nil {
			return err
		}
	}
	for p, dest := range t.Symlinks {
		full := filepath.Join(dir, filepath.FromSlash(p))
		if err := os.MkdirAll(filepath.Dir(full), 0755); err != nil {
			return err
		}
		if err := os.Symlink(dest, full); err != nil {
			return err
		}
	}
	return nil
}

type snapEntry struct {
	Kind string `json:"kind"` // file | dir | symlink | other
	Size int64  `json:"size"`
	Sha  string `json:"sha"`
	Dest string `json:"dest"`
}

// snapshot walks a directory without following symlinks.
func snapshot(dir string) (map[string]snapEntry, error) {
	out := map[string]snapEntry{}
	err := filepath.Walk(dir, func(p string, info os.FileInfo, err error) error {
		if err != nil {
			return err
		}
		rel, _ := filepath.Rel(dir, p)
		if rel == "." {
			return nil
		}
		rel = filepath.ToSlash(rel)
		switch {
		case info.Mode()&os.ModeSymlink != 0:
			dest, _ := os.Readlink(p)
			out[rel] = snapEntry{Kind: "symlink", Dest: dest}
		case info.IsDir():
			out[rel] = snapEntry{Kind: "dir"}
		case info.Mode().IsRegular():
			b, err := os.ReadFile(p)
			if err != nil {
				return err
			}
			out[rel] = snapEntry{Kind: "file", Size: int64(len(b)), Sha: sha(b)}
		default:
			out[rel] = snapEntry{Kind: "other"}
		}
		return nil
	})
	return out, err
}

// expected snapshot of a symbolic tree (directories implied by files are included)
func (t *tree) snapshot() map[string]snapEntry {
	out := map[string]snapEntry{}
	addParents := func(p string) {
		for {
			i := strings.LastIndex(p, "/")
			if i < 0 {
				return
			}
			p = p[:i]
			out[p] = snapEntry{Kind: "dir"}
		}
	}
	for d := range t.Dirs {
		out[d] = snapEntry{Kind: "dir"}
		addParents(d)
	}
	for p, c := range t.Files {
		out[p] = snapEntry{Kind: "file", Size: int64(len(c)), Sha: sha(c)}
		addParents(p)
	}
	for p, d := range t.Symlinks {
		out[p] = snapEntry{Kind: "symlink", Dest: d}
		addParents(p)
	}
	return out
}

// diffSnap lists the differences between two snapshots (empty = identical trees).
func diffSnap(want, got map[string]snapEntry) []string {
	diffs := []string{}
	for p, w := range want {
		g, ok := got[p]
		if !ok {
			diffs = append(diffs, "missing:"+w.Kind+":"+p)
			continue
		}
		if g.Kind != w.Kind {
			diffs = append(diffs, fmt.Sprintf("kind:%s:%s!=%s", p, g.Kind, w.Kind))
			continue
		}
		if w.Kind == "file" && (g.Size != w.Size || g.Sha != w.Sha) {
			diffs = append(diffs, fmt.Sprintf("content:%s:size %d want %d", p, g.Size, w.Size))
		}
		if w.Kind == "symlink" && g.Dest != w.Dest {
			diffs = append(diffs, fmt.Sprintf("dest:%s:%s!=%s", p, g.Dest, w.Dest))
		}
	}
	for p, g := range got {
		if _, ok := want[p]; !ok {
			diffs = append(diffs, "leftover:"+g.Kind+":"+p)
		}
	}
	sort.Strings(diffs)
	return diffs
}

func copyDir(src, dst string) error {
	return filepath.Walk(src, func(p string, info os.FileInfo, err error) error {
		if err != nil {
			return err
		}
		rel, _ := filepath.Rel(src, p)
		target := filepath.Join(dst, rel)
		switch {
		case info.Mode()&os.ModeSymlink != 0:
			dest, err := os.Readlink(p)
			if err != nil {
				return err
			}
			return os.Symlink(dest, target)
		case info.IsDir():
			return os.MkdirAll(target, 0755)
		default:
			b, err := os.ReadFile(p)
			if err != nil {
				return err
			}
			return os.WriteFile(target, b, info.Mode().Perm())
		}
	})
}

// ---------------------------------------------------------------- generator

var sizeClasses = []int{0, 1, 7, BS - 1, BS, BS + 1, 2*BS - 1, 2 * BS, 2*BS + 1, 3*BS + 17, 5 * BS, 7*BS + BS/2}

func pickSize(rng *rand.Rand) int {
	if rng.Intn(5) == 0 {
		return rng.Intn(6 * BS)
	}
	return sizeClasses[rng.Intn(len(sizeClasses))]
}

var pathPool = []string{"a.bin", "b.bin", "c.dat", "data/d.bin", "data/e.bin", "data/deep/f.bin", "lib/g.so", "lib/h.so", "z.txt", "bin/tool", "bin/other", "res/x/1", "res/x/2", "res/y/3"}

var oddNames = []string{"docs/README", "docs/readme", "Case.bin", "case.bin", "..cache", "..data/inner.bin", ".../three-dots.bin", ".hidden",
	"a..b", "sp ace/fi le.bin", "comma,name.bin", "\u00fcn\u00ef/c\u00f6d\u00e9.bin", "trailing-dot.", "-dash"}

func isOddName(p string) bool {
	for _, n := range oddNames {
		if n == p {
			return true
		}
	}
	return false
}

// oddNamesTree adds entries with unusual but valid names: case-only differences between two paths, names starting
// with one, two or three dots, "..", spaces, commas, non-ASCII. Contents are non-empty and pairwise different.
func oddNamesTree(t *tree, rng *rand.Rand) {
	for _, n := range oddNames {
		if _, ok := t.Files[n]; !ok && rng.Intn(4) > 0 {
			t.Files[n] = randBytes(rng, 1+rng.Intn(BS+BS/2))
		}
	}
	t.Dirs["..empty-dir"] = true
	if _, ok := t.Files["..data/inner.bin"]; ok {
		t.Symlinks["..current"] = "..data"
	}
}

// genPair returns an (old,new) pair and a description of the relations it contains.
// big=true allows one file beyond 4 MiB (data-op splitting inside a real patch).
func genPair(rng *rand.Rand, k int, big bool) (old, new *tree, desc string) {
	old, new = newTree(), newTree()
	var tags []string
	tag := func(s string) { tags = append(tags, s) }

	paths := append([]string{}, pathPool...)
	rng.Shuffle(len(paths), func(i, j int) { paths[i], paths[j] = paths[j], paths[i] })
	next := 0
	fresh := func() string { p := paths[next%len(paths)]; next++; return p }

	nold := 2 + rng.Intn(5)
	var oldPaths []string
	for i := 0; i < nold; i++ {
		p := fresh()
		sz := pickSize(rng)
		old.Files[p] = randBytes(rng, sz)
		oldPaths = append(oldPaths, p)
	}
	if big && k%4 == 0 {
		p := fresh()
		old.Files[p] = randBytes(rng, 4<<20+3*BS+rng.Intn(BS))
		oldPaths = append(oldPaths, p)
		tag("big-old")
	}
	// two old files sharing blocks
	if rng.Intn(3) == 0 && len(oldPaths) >= 2 {
		a, b := oldPaths[0], oldPaths[1]
		if len(old.Files[a]) >= BS {
			old.Files[b] = append(append([]byte{}, old.Files[a][:BS]...), old.Files[b]...)
			tag("shared-block")
		}
	}
	// all-zero file (every block identical)
	if rng.Intn(6) == 0 {
		p := fresh()
		old.Files[p] = make([]byte, BS*(1+rng.Intn(3))+rng.Intn(100))
		oldPaths = append(oldPaths, p)
		tag("zeros")
	}

	for _, p := range oldPaths {
		c := old.Files[p]
		switch r := rng.Intn(20); {
		case r == 0: // removed
			tag("removed")
		case r == 1: // renamed
			new.Files[fresh()] = c
			tag("renamed")
		case r == 2: // duplicated, original kept
			new.Files[p] = c
			n := 1 + rng.Intn(2)
			for i := 0; i < n; i++ {
				new.Files[fresh()] = c
			}
			tag("dup+orig")
		case r == 3: // duplicated, original gone
			new.Files[fresh()] = c
			new.Files[fresh()] = c
			tag("dup-orig")
		case r == 4 && len(c) > BS: // block-aligned prefix
			nb := 1 + rng.Intn(len(c)/BS)
			new.Files[p] = append([]byte{}, c[:nb*BS]...)
			tag("aligned-prefix")
		case r == 5 && len(c) > BS: // block-aligned suffix under another name
			nb := 1 + rng.Intn(len(c)/BS)
			new.Files[fresh()] = append([]byte{}, c[nb*BS:]...)
			new.Files[p] = c
			tag("aligned-suffix")
		case r == 6 && len(c) > 0: // in-place edit
			d := append([]byte{}, c...)
			for e := 0; e < 1+rng.Intn(3); e++ {
				at := rng.Intn(len(d))
				ln := 1 + rng.Intn(1+minInt(len(d)-at-1, 3000))
				copy(d[at:at+ln], randBytes(rng, ln))
			}
			new.Files[p] = d
			tag("edit")
		case r == 7: // insertion (shifts everything after)
			at := 0
			if len(c) > 0 {
				at = rng.Intn(len(c))
			}
			ins := randBytes(rng, 1+rng.Intn(2*BS))
			new.Files[p] = append(append(append([]byte{}, c[:at]...), ins...), c[at:]...)
			tag("insert")
		case r == 8 && len(c) > 2: // deletion
			at := rng.Intn(len(c) - 1)
			ln := 1 + rng.Intn(len(c)-at-1)
			new.Files[p] = append(append([]byte{}, c[:at]...), c[at+ln:]...)
			tag("delete")
		case r == 9 && len(c) >= 2*BS: // block swap
			d := append([]byte{}, c...)
			copy(d[:BS], c[BS:2*BS])
			copy(d[BS:2*BS], c[:BS])
			new.Files[p] = d
			tag("block-swap")
		case r == 10: // append
			new.Files[p] = append(append([]byte{}, c...), randBytes(rng, 1+rng.Intn(2*BS))...)
			tag("append")
		case r == 11 && len(c) > 0: // truncate (unaligned)
			new.Files[p] = append([]byte{}, c[:rng.Intn(len(c))]...)
			tag("truncate")
		case r == 12 && len(c) >= BS: // weak-hash twin of one block
			d := append([]byte{}, c...)
			bi := rng.Intn(len(c) / BS)
			copy(d[bi*BS:(bi+1)*BS], weakTwin(c[bi*BS:(bi+1)*BS]))
			new.Files[p] = d
			tag("weak-twin")
		case r == 13: // emptied
			new.Files[p] = []byte{}
			tag("emptied")
		case r == 14 && len(c) >= BS: // same size, first block unchanged, rest different
			d := randBytes(rng, len(c))
			copy(d[:BS], c[:BS])
			new.Files[p] = d
			tag("same-size-first-block")
		case r == 16 && len(c) > 3000: // same length, a few bytes changed close to (not at) the end, sometimes one earlier
			d := append([]byte{}, c...)
			for e := 0; e < 1+rng.Intn(3); e++ {
				at := len(d) - 2 - rng.Intn(minInt(len(d)-2, 30000))
				d[at] ^= byte(1 + rng.Intn(255))
			}
			if rng.Intn(2) == 0 {
				d[rng.Intn(len(d)/2)] ^= 0x11
			}
			new.Files[p] = d
			tag("tail-edit")
		case r == 17 && len(c) > 40000: // the head of the old file needed again later (backward seeks to its start)
			h := 1000 + rng.Intn(minInt(len(c)-1000, 60000))
			switch rng.Intn(3) {
			case 0: // header repeated as trailer
				new.Files[p] = append(append([]byte{}, c...), c[:h]...)
			case 1: // two parts swapped at an arbitrary point, then the head once more
				new.Files[p] = append(append(append([]byte{}, c[h:]...), c[:h]...), c[:h/2]...)
			default: // content doubled
				new.Files[p] = append(append([]byte{}, c...), c...)
			}
			tag("head-again")
		case r == 18: // a few bytes in front: everything after is shifted by less than a block
			new.Files[p] = append(randBytes(rng, 1+rng.Intn(1000)), c...)
			tag("front-insert")
		default: // unchanged
			new.Files[p] = c
			tag("same")
		}
	}
	// brand new files
	for i := 0; i < rng.Intn(3); i++ {
		new.Files[fresh()] = randBytes(rng, pickSize(rng))
		tag("new")
	}
	if big && k%4 == 2 {
		new.Files[fresh()] = randBytes(rng, 4<<20+2*BS+rng.Intn(BS)) // a fresh run beyond the data-op limit
		tag("big-new")
	}
	// swap two paths, rename chains
	if rng.Intn(4) == 0 && len(oldPaths) >= 2 {
		a, b := oldPaths[0], oldPaths[1]
		new.Files[a], new.Files[b] = old.Files[b], old.Files[a]
		tag("swap")
	}
	if rng.Intn(5) == 0 && len(oldPaths) >= 3 {
		a, b, c := oldPaths[0], oldPaths[1], oldPaths[2]
		new.Files[b] = old.Files[a]
		new.Files[c] = old.Files[b]
		delete(new.Files, a)
		tag("chain")
	}
	// a file that is patched AND the source of a rename
	if rng.Intn(5) == 0 && len(oldPaths) >= 1 && len(old.Files[oldPaths[0]]) > 10 {
		a := oldPaths[0]
		new.Files[fresh()] = old.Files[a]
		d := append([]byte{}, old.Files[a]...)
		d[len(d)/2] ^= 0xff
		new.Files[a] = d
		tag("patched+renamed")
	}
	// directories and symlinks
	switch rng.Intn(6) {
	case 0:
		old.Dirs["emptydir"] = true
		new.Dirs["emptydir"] = true
		tag("emptydir-kept")
	case 1:
		old.Dirs["olddir/sub"] = true
		tag("emptydir-removed")
	case 2:
		new.Dirs["newdir/sub"] = true
		tag("emptydir-added")
	}
	switch rng.Intn(7) {
	case 0:
		old.Symlinks["link"] = "a.bin"
		new.Symlinks["link"] = "a.bin"
		tag("symlink-kept")
	case 1:
		old.Symlinks["link"] = "a.bin"
		new.Symlinks["link"] = "b.bin"
		tag("symlink-retargeted")
	case 2:
		old.Symlinks["link"] = "a.bin"
		tag("symlink-removed")
	case 3:
		new.Symlinks["data/link"] = "../a.bin"
		tag("symlink-added")
	}
	// names: valid names that code treating a path as anything else than an opaque string gets wrong
	if rng.Intn(4) == 0 {
		oddNamesTree(old, rng)
		for p, c := range old.Files {
			if isOddName(p) && rng.Intn(3) > 0 {
				new.Files[p] = c
			}
		}
		oddNamesTree(new, rng)
		tag("odd-names")
	}
	if k%13 == 12 {
		// the new build has FEWER files than the old one, and its one patched file borrows blocks from the old file that
		// sorts LAST (an index beyond the new build's file count)
		old, new = newTree(), newTree()
		for i := 0; i < 6; i++ {
			old.Files[fmt.Sprintf("f%d.bin", i)] = randBytes(rng, 2*BS+rng.Intn(BS))
		}
		last := old.Files["f5.bin"]
		new.Files["a-first.bin"] = append(append(append([]byte{}, last[:BS]...), randBytes(rng, 1000)...), last[BS:]...)
		tags = []string{"shrinking-build"}
	}
	if k%17 == 16 { // identical builds
		new = old.clone()
		tags = []string{"identical-builds"}
	}
	if k%19 == 18 { // new build empty of files
		new = newTree()
		new.Dirs["only"] = true
		tags = []string{"new-has-no-files"}
	}
	// a path cannot be both a file and a symlink / dir
	for p := range new.Symlinks {
		delete(new.Files, p)
	}
	for p := range old.Symlinks {
		delete(old.Files, p)
	}
	desc = strings.Join(tags, ",")
	return
}
