package main

// C09: applying through the safekeeper (signature-checking pool).
//   c09-unit : one old file (signed vs actual content) at unit scale (1 unit = 32 KiB, block = 2 units) read through
//              the REAL safekeeper by the two consumers the fresh bowl / rsync applier use: copy until EOF
//              (io.CopyBuffer, 32 KiB buffer) and the real wsync.ApplySingle of a block range;
//   c09-tree : (patch, damage) pairs: plain and optimized patches of generated build pairs applied with the fresh
//              bowl while the old build - damaged in blocks the patch reuses or not, truncated, extended, files
//              deleted, empty files filled - is read through the safekeeper.

import (
	"bytes"
	"context"
	"flag"
	"fmt"
	"io"
	"math/rand"
	"os"
	"path/filepath"

	"github.com/itchio/lake"
	"github.com/itchio/lake/pools/fspool"
	"github.com/itchio/lake/tlc"
	"github.com/itchio/savior"
	"github.com/itchio/savior/seeksource"
	"github.com/itchio/wharf/pwr"
	"github.com/itchio/wharf/wsync"
)

// signatureStream returns the bytes of a signature file (.pws) of the build in dir, written by the real differ.
func signatureStream(dir string) ([]byte, *tlc.Container, error) {
	c, err := tlc.WalkAny(dir, tlc.WalkOpts{})
	if err != nil {
		return nil, nil, err
	}
	empty := &tlc.Container{}
	dctx := &pwr.DiffContext{Compression: compressionOf("NONE", 0), Consumer: nullConsumer(), SourceContainer: c, Pool: fspool.New(c, dir),
		TargetContainer: empty, TargetSignature: nil}
	var patch, sig bytes.Buffer
	if err := dctx.WritePatch(context.Background(), &patch, &sig); err != nil {
		return nil, nil, err
	}
	return sig.Bytes(), c, nil
}

func newSafeKeeper(inner lake.Pool, sig []byte) (lake.Pool, error) {
	return pwr.NewSafeKeeper(pwr.SafeKeeperParams{Inner: inner, Open: func() (savior.SeekSource, error) {
		s := seeksource.FromBytes(sig)
		if _, err := s.Resume(nil); err != nil {
			return nil, err
		}
		return s, nil
	}})
}

type c09Unit struct {
	Id     int    `json:"id"`
	Unit   int    `json:"unit"`
	Signed []int  `json:"signed"`
	Actual []int  `json:"actual"`
	EOFD   bool   `json:"eofd"`   // the inner pool's readers hand over the last bytes of a file together with io.EOF
	Mode   []int  `json:"mode"`   // [-1,0] copy until EOF | [i,n] block range
	Result string `json:"result"` // ok | error
	Out    []int  `json:"out"`    // delivered content as unit symbols (99 = ragged / unknown)
	Err    string `json:"err"`
}

func cmdC09Unit(args []string) error {
	fs := flag.NewFlagSet("c09-unit", flag.ExitOnError)
	maxS := fs.Int("maxsigned", 5, "max signed length (units)")
	stride := fs.Int("stride", 1, "take every stride-th case")
	phase := fs.Int("phase", 0, "phase")
	out := fs.String("out", "c09u.ndjson", "trace output")
	fs.Parse(args)
	w, err := newNDJSON(*out)
	if err != nil {
		return err
	}
	const unit = 32 * 1024
	const bsU = 2
	rng := newRand(900)
	syms := [][]byte{randBytes(rng, unit), randBytes(rng, unit)}
	expand := func(xs []byte) []byte {
		var b []byte
		for _, x := range xs {
			b = append(b, syms[x]...)
		}
		return b
	}
	toSyms := func(b []byte) []int {
		r := []int{}
		for len(b) > 0 {
			if len(b) < unit {
				r = append(r, 99)
				break
			}
			s := 99
			for k, sy := range syms {
				if bytes.Equal(b[:unit], sy) {
					s = k
				}
			}
			r = append(r, s)
			b = b[unit:]
		}
		return r
	}
	root, err := os.MkdirTemp("", "c09u-")
	if err != nil {
		return err
	}
	defer os.RemoveAll(root)
	signedSeqs := seqsUpTo(2, *maxS)
	actualSeqs := seqsUpTo(2, *maxS+1)
	id := -1
	for _, sg := range signedSeqs {
		var sig []byte
		var c *tlc.Container
		nb := (len(sg) + bsU - 1) / bsU
		var modes [][]int
		if len(sg) > 0 {
			modes = append(modes, []int{-1, 0})
		}
		for i := 0; i < nb; i++ {
			for n := 1; i+n <= nb; n++ {
				modes = append(modes, []int{i, n})
			}
		}
		// one cache chunk of the bsdiff applier's read cache (32 KiB = one unit): it may enter a block in its middle
		for j := 0; j < len(sg); j++ {
			modes = append(modes, []int{-2, j})
		}
		for _, ac := range actualSeqs {
			for _, mode0 := range modes {
				for _, eofd := range []bool{false, true} {
					mode := mode0
					id++
					if id%*stride != *phase {
						continue
					}
					if sig == nil {
						sd := filepath.Join(root, "signed")
						os.RemoveAll(sd)
						os.MkdirAll(sd, 0755)
						os.WriteFile(filepath.Join(sd, "f"), expand(sg), 0644)
						sig, c, err = signatureStream(sd)
						if err != nil {
							return err
						}
					}
					ad := filepath.Join(root, "actual")
					os.RemoveAll(ad)
					os.MkdirAll(ad, 0755)
					os.WriteFile(filepath.Join(ad, "f"), expand(ac), 0644)
					// eofd: the pool under the safekeeper reports io.EOF together with the last bytes of a file
					var inner lake.Pool = fspool.New(c, ad)
					if eofd {
						inner = &eofPool{Pool: inner}
					}
					sk, err := newSafeKeeper(inner, sig)
					if err != nil {
						return err
					}
					line := c09Unit{Id: id, Unit: unit, Signed: ints(sg), Actual: ints(ac), Mode: mode, Out: []int{}, EOFD: eofd}
					var outb bytes.Buffer
					buf := make([]byte, 32*1024)
					var rerr error
					if mode[0] == -2 {
						// lrufile.getChunk: Seek to the chunk, io.ReadFull of one chunk (a short last chunk is fine)
						var rs io.ReadSeeker
						rs, rerr = sk.GetReadSeeker(0)
						if rerr == nil {
							_, rerr = rs.Seek(int64(mode[1])*int64(unit), io.SeekStart)
						}
						if rerr == nil {
							var n int
							n, rerr = io.ReadFull(rs, buf[:unit])
							if rerr == io.ErrUnexpectedEOF || rerr == io.EOF {
								rerr = nil
							}
							outb.Write(buf[:n])
						}
					} else if mode[0] == -1 {
						// freshBowl.Transpose
						var r io.Reader
						r, rerr = sk.GetReader(0)
						if rerr == nil {
							_, rerr = io.CopyBuffer(struct{ io.Writer }{&outb}, r, buf)
						}
					} else {
						// the REAL applier of a block range (wsync.ApplySingle, fail-fast) reading through the safekeeper
						// (the output is a plain io.Writer as a bowl's entry writer is: a *bytes.Buffer would make io.CopyBuffer
						// take its ReaderFrom shortcut and ignore the applier's buffer)
						rerr = wsync.NewContext(int(pwr.BlockSize)).ApplySingle(struct{ io.Writer }{&outb}, sk, wsync.Operation{
							Type: wsync.OpBlockRange, FileIndex: 0, BlockIndex: int64(mode[0]), BlockSpan: int64(mode[1])})
					}
					sk.Close()
					line.Result = "ok"
					if rerr != nil {
						line.Result, line.Err = "error", rerr.Error()
						if len(line.Err) > 160 {
							line.Err = line.Err[:160]
						}
					}
					line.Out = toSyms(outb.Bytes())
					w.emit(line)
				}
			}
		}
	}
	fmt.Printf("{\"lines\":%d}\n", w.n)
	return w.close()
}

// ---------------------------------------------------------------- tree level

type c09Tree struct {
	Case      int      `json:"case"`
	Desc      string   `json:"desc"`
	Optimized bool     `json:"optimized"`
	Damage    []string `json:"damage"`
	Err       string   `json:"err"`
	Out       []string `json:"out"`
	New       []string `json:"new"`
	Wrong     []string `json:"wrong"` // entries of the output that differ from the new build (files only)
}

func damageOld(rng *rand.Rand, dir string, old *tree, reusedHint map[string]bool) []string {
	var log []string
	paths := old.sortedFiles()
	if len(paths) == 0 {
		return log
	}
	nd := 1 + rng.Intn(2)
	for d := 0; d < nd; d++ {
		p := paths[rng.Intn(len(paths))]
		full := filepath.Join(dir, filepath.FromSlash(p))
		content, err := os.ReadFile(full)
		if err != nil {
			continue
		}
		switch rng.Intn(8) {
		case 0, 1: // flip
			if len(content) == 0 {
				os.WriteFile(full, randBytes(rng, 1+rng.Intn(100)), 0644)
				log = append(log, "fill-empty:"+p)
				continue
			}
			off := rng.Intn(len(content))
			content[off] ^= 1 << uint(rng.Intn(8))
			os.WriteFile(full, content, 0644)
			log = append(log, fmt.Sprintf("flip:%s@%d", p, off))
		case 2: // truncate, often exactly at a block boundary or to zero
			if len(content) == 0 {
				continue
			}
			to := rng.Intn(len(content))
			switch rng.Intn(3) {
			case 0:
				to = 0
			case 1:
				if len(content) > BS {
					to = (1 + rng.Intn((len(content)-1)/BS)) * BS
				}
			}
			os.WriteFile(full, content[:to], 0644)
			log = append(log, fmt.Sprintf("truncate:%s:%d->%d", p, len(content), to))
		case 3, 4: // extend inside the last block / past it
			ext := []int{1, 5, 100, BS - len(content)%BS - 1, BS, 2*BS + 7}[rng.Intn(6)]
			if ext <= 0 {
				ext = 3
			}
			os.WriteFile(full, append(content, randBytes(rng, ext)...), 0644)
			log = append(log, fmt.Sprintf("extend:%s:%d+%d", p, len(content), ext))
		case 5: // deleted
			os.Remove(full)
			log = append(log, "deleted:"+p)
		case 6: // weak-hash twin of a block
			if len(content) >= BS {
				bi := rng.Intn(len(content) / BS)
				copy(content[bi*BS:(bi+1)*BS], weakTwin(content[bi*BS:(bi+1)*BS]))
				os.WriteFile(full, content, 0644)
				log = append(log, fmt.Sprintf("weak-twin:%s#%d", p, bi))
			}
		default: // flip in the first or last byte of a block
			if len(content) > 0 {
				nb := (len(content) + BS - 1) / BS
				bi := rng.Intn(nb)
				off := bi * BS
				if rng.Intn(2) == 0 {
					off = minInt((bi+1)*BS, len(content)) - 1
				}
				content[off] ^= 0x40
				os.WriteFile(full, content, 0644)
				log = append(log, fmt.Sprintf("flip-edge:%s@%d", p, off))
			}
		}
	}
	return log
}

func cmdC09Tree(args []string) error {
	fs := flag.NewFlagSet("c09-tree", flag.ExitOnError)
	n := fs.Int("n", 10, "cases")
	first := fs.Int("first", 0, "first case")
	out := fs.String("out", "c09t.ndjson", "trace output")
	fs.Parse(args)
	w, err := newNDJSON(*out)
	if err != nil {
		return err
	}
	for k := *first; k < *first+*n; k++ {
		rng := newRand(int64(9000 + k))
		old, new, desc := genPair(rng, k, false)
		if k%4 == 3 { // files of exactly k*64KiB that are renamed / duplicated (whole-file copies through the pool)
			for i := 0; i < 2; i++ {
				c := randBytes(rng, (1+rng.Intn(4))*BS)
				old.Files[fmt.Sprintf("exact/e%d.bin", i)] = c
				new.Files[fmt.Sprintf("exact/renamed%d.bin", i)] = c
			}
			desc += ",exact-multiple-renamed"
		}
		root, oldDir, newDir, err := materialisePair(old, new)
		if err != nil {
			return err
		}
		line := c09Tree{Case: k, Desc: desc, Damage: []string{}, Out: []string{}, New: snapList(new.snapshot()), Wrong: []string{}}
		dr, err := realDiffDirs(oldDir, newDir, compressionOf("NONE", 0))
		if err != nil {
			return fmt.Errorf("diff: %v", err)
		}
		patch := dr.Patch
		if k%2 == 1 {
			if opt, _, err := realOptimize(patch, oldDir, newDir, optParams{Partitions: rng.Intn(3), Comp: compressionOf("NONE", 0)}); err == nil {
				patch = opt
				line.Optimized = true
			}
		}
		sig, _, err := signatureStream(oldDir)
		if err != nil {
			return err
		}
		// damage a copy of the old build (every third case stays undamaged)
		dmg := filepath.Join(root, "damaged")
		os.MkdirAll(dmg, 0755)
		if err := copyDir(oldDir, dmg); err != nil {
			return err
		}
		if k%3 != 0 {
			line.Damage = damageOld(rng, dmg, old, nil)
			if line.Damage == nil {
				line.Damage = []string{}
			}
		}
		outDir := filepath.Join(root, "out")
		ar := realApplyPatch(patch, applyOpts{Bowl: "fresh", OldDir: dmg, OutDir: outDir,
			WrapPool: func(p lake.Pool, _ *tlc.Container) lake.Pool {
				if k%4 == 1 {
					// the pool under the safekeeper hands over the last bytes of a file together with io.EOF
					p = &eofPool{Pool: p}
				}
				sk, err := newSafeKeeper(p, sig)
				if err != nil {
					panic(err)
				}
				return sk
			}})
		if ar.Err != nil {
			line.Err = ar.Err.Error()
			if len(line.Err) > 240 {
				line.Err = line.Err[:240]
			}
		}
		if s, err := snapshot(outDir); err == nil {
			line.Out = snapList(s)
			line.Wrong = diffSnap(new.snapshot(), s)
		}
		w.emit(line)
		os.RemoveAll(root)
	}
	fmt.Printf("{\"lines\":%d}\n", w.n)
	return w.close()
}

func init() {
	register("c09-unit", "one old file read through the real safekeeper by the fresh bowl's / applier's consumers, unit scale", cmdC09Unit)
	register("c09-tree", "(patch, damage) pairs applied with the old build read through the safekeeper", cmdC09Tree)
}
