package main

// growth beyond the listed properties: the real pwr/genie (compositions of big blocks from the op stream) on real
// patches of generated build pairs, against spec/Genie.tla.

import (
	"flag"
	"fmt"
	"os"

	"github.com/itchio/savior/seeksource"
	"github.com/itchio/wharf/pwr/genie"
)

type gOp struct {
	T   string `json:"t"` // BR | DATA
	F   int64  `json:"f"`
	I   int64  `json:"i"`
	N   int64  `json:"n"`
	Len int64  `json:"len"`
}

type gOrigin struct {
	T    string `json:"t"` // old | fresh
	F    int64  `json:"f"`
	Off  int64  `json:"off"`
	Size int64  `json:"size"`
}

type gComp struct {
	BI      int64     `json:"bi"`
	Size    int64     `json:"size"`
	Origins []gOrigin `json:"origins"`
}

type genieLine struct {
	Case   int     `json:"case"`
	Desc   string  `json:"desc"`
	File   int     `json:"file"`
	Path   string  `json:"path"`
	SB     int64   `json:"sb"`
	BB     int64   `json:"bb"`
	Olds   []int64 `json:"olds"`
	Size   int64   `json:"size"`
	Series []gOp   `json:"series"`
	Comps  []gComp `json:"comps"`
	Err    string  `json:"err"`
}

func cmdGenie(args []string) error {
	fs := flag.NewFlagSet("genie", flag.ExitOnError)
	n := fs.Int("n", 10, "build pairs")
	first := fs.Int("first", 0, "first pair")
	out := fs.String("out", "genie.ndjson", "trace output")
	fs.Parse(args)
	w, err := newNDJSON(*out)
	if err != nil {
		return err
	}
	bigs := []int64{BS, 2 * BS, 4 * BS, 16 * BS, 64 * BS, 3*BS + 1000, 100000}
	for k := *first; k < *first+*n; k++ {
		rng := newRand(int64(77000 + k))
		old, new, desc := genPair(rng, k, false)
		root, oldDir, newDir, err := materialisePair(old, new)
		if err != nil {
			return err
		}
		dr, err := realDiffDirs(oldDir, newDir, compressionOf([]string{"none", "gzip", "brotli"}[k%3], 1))
		if err != nil {
			os.RemoveAll(root)
			return err
		}
		d := decodePatch(dr.Patch)
		if d.Err != "" {
			os.RemoveAll(root)
			return fmt.Errorf("decode: %s", d.Err)
		}
		// per new file: its op series
		series := map[int64][]gOp{}
		cur := int64(-1)
		for _, m := range d.Msgs {
			switch {
			case m.K == "SH":
				cur = m.Fi
				series[cur] = []gOp{}
			case m.K == "OP" && m.Ty == "BR":
				series[cur] = append(series[cur], gOp{T: "BR", F: m.F, I: m.I, N: m.N})
			case m.K == "OP" && m.Ty == "DATA":
				series[cur] = append(series[cur], gOp{T: "DATA", Len: m.Len})
			}
		}
		for _, bb := range []int64{bigs[k%len(bigs)], bigs[(k/2+3)%len(bigs)]} {
			g := &genie.Genie{BlockSize: bb}
			src := seeksource.FromBytes(dr.Patch)
			if _, err := src.Resume(nil); err != nil {
				return err
			}
			comps := map[int64][]gComp{}
			gerr := g.ParseHeader(src)
			if gerr == nil {
				gerr = g.ParseContents(func(c *genie.Composition) {
					gc := gComp{BI: c.BlockIndex, Size: c.Size, Origins: []gOrigin{}}
					for _, o := range c.Origins {
						switch x := o.(type) {
						case *genie.BlockOrigin:
							gc.Origins = append(gc.Origins, gOrigin{T: "old", F: x.FileIndex, Off: x.Offset, Size: x.Size})
						case *genie.FreshOrigin:
							gc.Origins = append(gc.Origins, gOrigin{T: "fresh", Size: x.Size})
						}
					}
					comps[c.FileIndex] = append(comps[c.FileIndex], gc)
				})
			}
			for fi, f := range dr.Source.Files {
				line := genieLine{Case: k, Desc: desc, File: fi, Path: f.Path, SB: BS, BB: bb, Olds: sizesOf(dr.Target), Size: f.Size,
					Series: series[int64(fi)], Comps: comps[int64(fi)]}
				if line.Series == nil {
					line.Series = []gOp{}
				}
				if line.Comps == nil {
					line.Comps = []gComp{}
				}
				if gerr != nil {
					line.Err = gerr.Error()
				}
				w.emit(line)
			}
		}
		os.RemoveAll(root)
	}
	fmt.Printf("{\"lines\":%d}\n", w.n)
	return w.close()
}

func init() {
	register("genie", "the real pwr/genie on real patches (growth beyond the listed properties)", cmdGenie)
}
