package main

// C11: rsync operations emitted by the real wsync.Context, recorded for TLC.
//
//  c11-enum   exhaustive enumeration of small inputs (block size is a parameter of the real code)
//  c11-large  random large inputs (block sizes up to 64 KiB, > 8 MiB of new content), digest facts

import (
	"bytes"
	"context"
	"flag"
	"fmt"
	"io"
	"math/rand"
	"strings"
	"testing/iotest"

	"github.com/itchio/wharf/wsync"
)

type memPool struct{ files [][]byte }

type c11Op struct {
	T string `json:"t"`
	F int64  `json:"f"`
	I int64  `json:"i"`
	N int64  `json:"n"`
}

type c11OpData struct {
	T string `json:"t"`
	D []int  `json:"d"`
}

type c11Line struct {
	Bs   int           `json:"bs"`
	Olds [][]int       `json:"olds"`
	Src  []int         `json:"src"`
	Pref int64         `json:"pref"`
	Ops  []interface{} `json:"ops"`
}

// signFiles signs the old files with the real CreateSignature. via chooses how the old files' bytes are DELIVERED -
// all of it within the io.Reader contract: 0 one Read per call on a bytes.Reader; 1 one byte per Read and the last
// byte together with io.EOF; 2 reads one byte short of a block, last bytes with io.EOF; 3 whole reads, last bytes
// with io.EOF.
func signFiles(bs int, olds [][]byte, via int) []wsync.BlockHash {
	ctx := wsync.NewContext(bs)
	var hashes []wsync.BlockHash
	for fi, o := range olds {
		var r io.Reader = bytes.NewReader(o)
		switch via % 4 {
		case 1:
			r = iotest.DataErrReader(iotest.OneByteReader(r))
		case 2:
			n := bs - 1
			if n < 1 {
				n = 1
			}
			r = iotest.DataErrReader(&chunkReader{r: r, n: n})
		case 3:
			r = iotest.DataErrReader(r)
		}
		err := ctx.CreateSignature(context.Background(), int64(fi), r, func(h wsync.BlockHash) error {
			hashes = append(hashes, h)
			return nil
		})
		must(err)
	}
	return hashes
}

// realDiff runs the real differ and returns a copy of every operation.
func realDiff(ctx *wsync.Context, lib *wsync.BlockLibrary, src io.Reader, pref int64) []wsync.Operation {
	var ops []wsync.Operation
	err := ctx.ComputeDiff(src, lib, func(op wsync.Operation) error {
		if op.Type == wsync.OpData {
			op.Data = append([]byte{}, op.Data...)
		}
		ops = append(ops, op)
		return nil
	}, pref)
	must(err)
	return ops
}

func seqsUpTo(alpha, n int) [][]byte {
	out := [][]byte{{}}
	prev := [][]byte{{}}
	for l := 1; l <= n; l++ {
		var cur [][]byte
		for _, p := range prev {
			for a := 0; a < alpha; a++ {
				s := append(append([]byte{}, p...), byte(a))
				cur = append(cur, s)
			}
		}
		out = append(out, cur...)
		prev = cur
	}
	return out
}

func parseInts(s string) []int {
	var r []int
	for _, p := range strings.Split(s, ",") {
		var v int
		fmt.Sscanf(p, "%d", &v)
		r = append(r, v)
	}
	return r
}

func cmdC11Enum(args []string) error {
	fs := flag.NewFlagSet("c11-enum", flag.ExitOnError)
	bss := fs.String("bs", "1,2,3", "block sizes")
	alpha := fs.Int("alpha", 2, "alphabet size")
	nold := fs.Int("nold", 1, "number of old files")
	maxOld := fs.Int("maxold", 5, "max old length")
	maxNew := fs.Int("maxnew", 6, "max new length")
	prefs := fs.String("prefs", "all", "preferred indices (1-based, 0 = none) or 'all'")
	out := fs.String("out", "c11.ndjson", "output")
	fs.Parse(args)

	w, err := newNDJSON(*out)
	if err != nil {
		return err
	}
	oldSeqs := seqsUpTo(*alpha, *maxOld)
	newSeqs := seqsUpTo(*alpha, *maxNew)
	var prefList []int
	if *prefs == "all" {
		for p := 0; p <= *nold; p++ {
			prefList = append(prefList, p)
		}
	} else {
		prefList = parseInts(*prefs)
	}

	idx := make([]int, *nold)
	combo := 0
	for {
		combo++
		olds := make([][]byte, *nold)
		oldsJ := make([][]int, *nold)
		for k := range idx {
			olds[k] = oldSeqs[idx[k]]
			oldsJ[k] = ints(olds[k])
		}
		for _, bs := range parseInts(*bss) {
			ctx := wsync.NewContext(bs)
			lib := libraryOf(signFiles(bs, olds, combo+bs), true)
			for _, src := range newSeqs {
				for _, pref := range prefList {
					ops := realDiff(ctx, lib, bytes.NewReader(src), int64(pref-1))
					line := c11Line{Bs: bs, Olds: oldsJ, Src: ints(src), Pref: int64(pref), Ops: make([]interface{}, 0, len(ops))}
					for _, op := range ops {
						switch op.Type {
						case wsync.OpData:
							line.Ops = append(line.Ops, c11OpData{T: "data", D: ints(op.Data)})
						case wsync.OpBlockRange:
							line.Ops = append(line.Ops, c11Op{T: "range", F: op.FileIndex + 1, I: op.BlockIndex, N: op.BlockSpan})
						default:
							line.Ops = append(line.Ops, c11Op{T: fmt.Sprintf("type%d", op.Type)})
						}
					}
					w.emit(line)
				}
			}
		}
		// next combination of old files
		k := 0
		for k < len(idx) {
			idx[k]++
			if idx[k] < len(oldSeqs) {
				break
			}
			idx[k] = 0
			k++
		}
		if k == len(idx) {
			break
		}
	}
	fmt.Printf("{\"lines\":%d}\n", w.n)
	return w.close()
}

// ---------------------------------------------------------------- large runs

type c11Fact struct {
	T    string `json:"t"`
	Len  int64  `json:"len"`  // bytes the op contributes (data: len(Data); range: bytes actually available in the old file)
	Pos  int64  `json:"pos"`  // position in the new content at which the harness compared
	Osha string `json:"osha"` // digest of the bytes the op supplies
	Ssha string `json:"ssha"` // digest of new[pos:pos+len] ("" when out of range)
	F    int64  `json:"f"`
	I    int64  `json:"i"`
	N    int64  `json:"n"`
}

type c11LargeLine struct {
	Case    int       `json:"case"`
	Bs      int       `json:"bs"`
	OldLens []int64   `json:"oldlens"`
	SrcLen  int64     `json:"srclen"`
	Pref    int64     `json:"pref"`
	Max     int64     `json:"max"`
	Ops     []c11Fact `json:"ops"`
	Desc    string    `json:"desc"`
	Chunk   int       `json:"chunk"` // reader slicing used for the source (0 = whole reads)
}

// chunkReader returns at most n bytes per Read (exercises io.ReadAtLeast in the differ).
type chunkReader struct {
	r io.Reader
	n int
}

func (c *chunkReader) Read(p []byte) (int, error) {
	if c.n > 0 && len(p) > c.n {
		p = p[:c.n]
	}
	return c.r.Read(p)
}

func randBytes(rng *rand.Rand, n int) []byte {
	b := make([]byte, n)
	rng.Read(b)
	return b
}

// weakTwin returns a block with the same rolling hash as b but different content:
// +d at offset p and -d at offset p+1 keep a; b changes by w(p)*d - w(p+1)*d = d, so a second
// pair (-d at q, +d at q+1) restores it.
func weakTwin(b []byte) []byte {
	t := append([]byte{}, b...)
	if len(t) < 4 {
		return t
	}
	for p := 0; p+3 < len(t); p++ {
		if t[p] < 255 && t[p+1] > 0 && t[p+2] > 0 && t[p+3] < 255 {
			t[p]++
			t[p+1]--
			t[p+2]--
			t[p+3]++
			return t
		}
	}
	return t
}

func buildLargeCase(rng *rand.Rand, k int) (bs int, olds [][]byte, src []byte, pref int64, desc string) {
	bsChoices := []int{1, 2, 3, 5, 16, 64, 255, 1000, 4096, 16384, 65536, 65536, 65536}
	bs = bsChoices[rng.Intn(len(bsChoices))]
	if k%7 == 3 {
		bs = 1 + rng.Intn(65536)
	}
	// with tiny blocks random bytes would match old blocks all the time (millions of ops):
	// old content and fresh content then use disjoint byte ranges, so only intended matches occur
	small := bs < 64
	gen := func(n int, fresh bool) []byte {
		b := randBytes(rng, n)
		if small {
			for i := range b {
				b[i] &= 0x7f
				if fresh {
					b[i] |= 0x80
				}
			}
		}
		return b
	}
	nold := 1 + rng.Intn(3)
	for i := 0; i < nold; i++ {
		nb := rng.Intn(40)
		tail := 0
		if rng.Intn(2) == 0 {
			tail = rng.Intn(bs)
		}
		sz := nb*bs + tail
		if sz > 3<<20 {
			sz = 3<<20 + rng.Intn(bs)
		}
		olds = append(olds, gen(sz, false))
	}
	var parts []string
	var buf bytes.Buffer
	big := func(q int) {
		// a fresh run around q*MaxDataOp, at every phase relative to the block size
		n := q*wsync.MaxDataOp + rng.Intn(3*bs+2) - bs - 1
		if n < 0 {
			n = 0
		}
		buf.Write(gen(n, true))
		parts = append(parts, fmt.Sprintf("fresh:%d", n))
	}
	small1 := func() {
		switch c := rng.Intn(10); {
		case c < 3:
			n := rng.Intn(3*bs + 1)
			buf.Write(gen(n, true))
			parts = append(parts, fmt.Sprintf("fresh:%d", n))
		case c < 7:
			// run of consecutive old blocks (possibly including the short tail)
			f := rng.Intn(len(olds))
			o := olds[f]
			if len(o) == 0 {
				return
			}
			nb := (len(o) + bs - 1) / bs
			i := rng.Intn(nb)
			n := 1 + rng.Intn(nb-i)
			end := (i + n) * bs
			if end > len(o) {
				end = len(o)
			}
			buf.Write(o[i*bs : end])
			parts = append(parts, fmt.Sprintf("old%d[%d+%d]", f, i, n))
		case c < 8:
			// weak-hash twin of an old block
			f := rng.Intn(len(olds))
			o := olds[f]
			if len(o) < bs || bs < 4 {
				return
			}
			i := rng.Intn(len(o) / bs)
			buf.Write(weakTwin(o[i*bs : (i+1)*bs]))
			parts = append(parts, fmt.Sprintf("twin%d[%d]", f, i))
		default:
			// unaligned slice of an old file
			f := rng.Intn(len(olds))
			o := olds[f]
			if len(o) < 2 {
				return
			}
			a := rng.Intn(len(o) - 1)
			b := a + 1 + rng.Intn(len(o)-a-1)
			buf.Write(o[a:b])
			parts = append(parts, fmt.Sprintf("slice%d[%d:%d]", f, a, b))
		}
	}
	pieces := func(n int) {
		for i := 0; i < n; i++ {
			small1()
		}
	}
	switch k % 6 {
	case 0: // no match at all: pure splitting and buffer wrap-around
		big(2 + rng.Intn(2))
	case 1: // matches, then a long fresh run that ends the content (final data op)
		pieces(rng.Intn(12))
		big(1 + rng.Intn(2))
	case 2: // long fresh run first, matches after it, content ends on a block multiple
		big(2)
		pieces(1 + rng.Intn(20))
		if buf.Len()%bs != 0 {
			buf.Truncate(buf.Len() - buf.Len()%bs)
		}
	case 3: // alternating
		pieces(rng.Intn(8))
		big(1)
		pieces(rng.Intn(8))
		big(1)
		pieces(rng.Intn(8))
	case 4: // long fresh run, then the short tail of an old file as the very end
		big(2)
		f := rng.Intn(len(olds))
		o := olds[f]
		if len(o) > 0 {
			nb := (len(o) + bs - 1) / bs
			buf.Write(o[(nb-1)*bs:])
			parts = append(parts, fmt.Sprintf("old%d[%d+1]", f, nb-1))
		}
	default:
		pieces(30)
		big(2)
		pieces(10)
	}
	src = append([]byte{}, buf.Bytes()...)
	pref = int64(rng.Intn(len(olds)+1)) - 1
	if len(parts) > 12 {
		parts = append(parts[:12], fmt.Sprintf("...(%d pieces)", len(parts)))
	}
	desc = strings.Join(parts, " ")
	return
}

func cmdC11Large(args []string) error {
	fs := flag.NewFlagSet("c11-large", flag.ExitOnError)
	n := fs.Int("n", 10, "number of cases")
	first := fs.Int("first", 0, "index of the first case")
	out := fs.String("out", "c11large.ndjson", "output")
	fs.Parse(args)
	w, err := newNDJSON(*out)
	if err != nil {
		return err
	}
	for k := *first; k < *first+*n; k++ {
		rng := newRand(int64(1100 + k))
		bs, olds, src, pref, desc := buildLargeCase(rng, k)
		ctx := wsync.NewContext(bs)
		lib := libraryOf(signFiles(bs, olds, k/2), k%2 == 0)
		chunk := 0
		var rd io.Reader = bytes.NewReader(src)
		if k%3 == 1 {
			chunk = 1 + rng.Intn(2*bs)
			rd = &chunkReader{r: rd, n: chunk}
		}
		ops := realDiff(ctx, lib, rd, pref)
		line := c11LargeLine{Case: k, Bs: bs, SrcLen: int64(len(src)), Pref: pref + 1, Max: wsync.MaxDataOp, Desc: desc, Chunk: chunk, Ops: make([]c11Fact, 0, len(ops))}
		for _, o := range olds {
			line.OldLens = append(line.OldLens, int64(len(o)))
		}
		pos := int64(0)
		for _, op := range ops {
			var supplied []byte
			f := c11Fact{Pos: pos}
			switch op.Type {
			case wsync.OpData:
				f.T = "data"
				supplied = op.Data
			case wsync.OpBlockRange:
				f.T, f.F, f.I, f.N = "range", op.FileIndex+1, op.BlockIndex, op.BlockSpan
				if op.FileIndex >= 0 && op.FileIndex < int64(len(olds)) && op.BlockIndex >= 0 && op.BlockSpan >= 0 {
					o := olds[op.FileIndex]
					a := op.BlockIndex * int64(bs)
					b := (op.BlockIndex + op.BlockSpan) * int64(bs)
					if a > int64(len(o)) {
						a = int64(len(o))
					}
					if b > int64(len(o)) {
						b = int64(len(o))
					}
					supplied = o[a:b]
				}
			default:
				f.T = fmt.Sprintf("type%d", op.Type)
			}
			f.Len = int64(len(supplied))
			f.Osha = sha(supplied)
			if pos+f.Len <= int64(len(src)) {
				f.Ssha = sha(src[pos : pos+f.Len])
			}
			pos += f.Len
			line.Ops = append(line.Ops, f)
		}
		w.emit(line)
	}
	fmt.Printf("{\"lines\":%d}\n", w.n)
	return w.close()
}

// libraryOf builds the block library the differ searches. The signature slice it was built from is then RECYCLED
// by the "caller" (overwritten with records of another signing, as a caller with one scratch slice per run would
// do): the library must be a snapshot of the signature, not a view of the caller's slice.
func libraryOf(sig []wsync.BlockHash, recycle bool) *wsync.BlockLibrary {
	lib := wsync.NewBlockLibrary(sig)
	if recycle {
		for i := range sig {
			// same content at the same slot, but another address (file boundaries moved), or a foreign record
			if i%2 == 0 {
				sig[i].FileIndex, sig[i].BlockIndex = sig[i].FileIndex+1, sig[i].BlockIndex+7
			} else {
				sig[i] = wsync.BlockHash{FileIndex: 99, BlockIndex: int64(i), WeakHash: ^sig[i].WeakHash}
			}
		}
	}
	return lib
}

func init() {
	register("c11-enum", "enumerate small rsync diff inputs on the real wsync.Context", cmdC11Enum)
	register("c11-large", "random large rsync diff inputs with digest facts", cmdC11Large)
}
