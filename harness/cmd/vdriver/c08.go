package main

// C08: builds of high-entropy content and new builds derived by renames, duplications and k localized edits
// (overwrite / insert / delete) with the edit script logged; the real differ's patch is decoded and the
// fresh bytes per new file, the differ's counters and the edit accounting are recorded.

import (
	"flag"
	"fmt"
	"math/rand"
	"os"
)

type c08File struct {
	Path       string `json:"path"`
	Size       int64  `json:"size"`
	From       string `json:"from"`       // old path the content derives from ("" = brand new)
	K          int    `json:"k"`          // number of edits
	Introduced int64  `json:"introduced"` // bytes the edits introduce
	Script     string `json:"script"`
	Fresh      int64  `json:"fresh"` // DATA bytes in this file's series of the real patch
	Reused     int64  `json:"reused"`
	Si         int    `json:"si"` // index in the source container
}

type c08Line struct {
	Case      int       `json:"case"`
	Desc      string    `json:"desc"`
	Files     []c08File `json:"files"`
	Fresh     int64     `json:"fresh"`
	Reused    int64     `json:"reused"`
	Total     int64     `json:"total"`
	DataBytes int64     `json:"databytes"`  // sum of DATA payloads in the decoded patch
	RangeBytes int64    `json:"rangebytes"` // sum of block-range sizes in the decoded patch
	DiffErr   string    `json:"differr"`
	Decoded   bool      `json:"decoded"`
	Identical bool      `json:"identical"`
}

// introBytes: the bytes an edit introduces. One edit in four introduces a run of ONE repeated byte (zero fill,
// padding, 0xff): every window inside such a run has the same rolling hash as the one before it, which is the case
// the differ's "same hash as the previous position, do not look it up again" shortcut is about - the data that
// FOLLOWS the run must be found again.
func introBytes(rng *rand.Rand, n int) ([]byte, string) {
	b := randBytes(rng, n)
	if rng.Intn(4) == 0 {
		v := []byte{0, 0xff, ' ', byte(rng.Intn(256))}[rng.Intn(4)]
		for i := range b {
			b[i] = v
		}
		return b, fmt.Sprintf("const%d", v)
	}
	return b, ""
}

func applyEdits(rng *rand.Rand, c []byte, k int) (out []byte, introduced int64, script string) {
	out = append([]byte{}, c...)
	for e := 0; e < k; e++ {
		maxLen := 1 + rng.Intn(3*BS)
		if rng.Intn(3) == 0 {
			maxLen = 1 + rng.Intn(64)
		}
		switch rng.Intn(3) {
		case 0: // overwrite
			if len(out) == 0 {
				continue
			}
			at := rng.Intn(len(out))
			ln := minInt(maxLen, len(out)-at)
			nb, tag := introBytes(rng, ln)
			copy(out[at:at+ln], nb)
			introduced += int64(ln)
			script += fmt.Sprintf("ow%s@%d+%d ", tag, at, ln)
		case 1: // insert
			at := rng.Intn(len(out) + 1)
			ins, tag := introBytes(rng, maxLen)
			out = append(append(append([]byte{}, out[:at]...), ins...), out[at:]...)
			introduced += int64(maxLen)
			script += fmt.Sprintf("ins%s@%d+%d ", tag, at, maxLen)
		default: // delete
			if len(out) == 0 {
				continue
			}
			at := rng.Intn(len(out))
			ln := minInt(maxLen, len(out)-at)
			out = append(append([]byte{}, out[:at]...), out[at+ln:]...)
			script += fmt.Sprintf("del@%d+%d ", at, ln)
		}
	}
	return
}

func cmdC08(args []string) error {
	fs := flag.NewFlagSet("c08", flag.ExitOnError)
	n := fs.Int("n", 20, "cases")
	first := fs.Int("first", 0, "first case")
	out := fs.String("out", "c08.ndjson", "trace output")
	fs.Parse(args)
	w, err := newNDJSON(*out)
	if err != nil {
		return err
	}
	for k := *first; k < *first+*n; k++ {
		rng := newRand(int64(8000 + k))
		old, new := newTree(), newTree()
		meta := map[string]*c08File{}
		nold := 1 + rng.Intn(4)
		var oldPaths []string
		for i := 0; i < nold; i++ {
			p := fmt.Sprintf("old/f%d.bin", i)
			sz := pickSize(rng)
			if rng.Intn(4) == 0 {
				sz = (8+rng.Intn(40))*BS + rng.Intn(BS) // files of several dozen blocks
			}
			if k%10 == 9 && i == 0 {
				sz = 200*BS + rng.Intn(BS) // several hundred blocks
			}
			old.Files[p] = randBytes(rng, sz)
			oldPaths = append(oldPaths, p)
		}
		// old builds in which a block-aligned 64 KiB chunk occurs more than once (several signature entries share one
		// weak hash): X Y X inside a file, a small file that starts with the first block of a bigger one, a chunk
		// (padding / separator) alternating with other data
		if k%4 == 2 {
			chunk := randBytes(rng, BS)
			switch (k / 4) % 3 {
			case 0:
				c := append(append(append([]byte{}, chunk...), randBytes(rng, BS)...), chunk...)
				c = append(c, randBytes(rng, 2*BS+rng.Intn(BS))...)
				old.Files["old/xyx.bin"] = c
				oldPaths = append(oldPaths, "old/xyx.bin")
			case 1:
				big := append(append([]byte{}, chunk...), randBytes(rng, 4*BS+rng.Intn(BS))...)
				old.Files["old/a-big.bin"] = big
				old.Files["old/z-small.bin"] = append(append([]byte{}, chunk...), randBytes(rng, rng.Intn(BS))...)
				oldPaths = append(oldPaths, "old/a-big.bin", "old/z-small.bin")
			case 2:
				var c []byte
				for i := 0; i < 5; i++ {
					c = append(c, chunk...)
					c = append(c, randBytes(rng, BS)...)
				}
				c = append(c, randBytes(rng, rng.Intn(BS))...)
				old.Files["old/periodic.bin"] = c
				oldPaths = append(oldPaths, "old/periodic.bin")
			}
		}
		desc := ""
		nn := 0
		add := func(path, from string, content []byte, kk int, intro int64, script string) {
			new.Files[path] = content
			meta[path] = &c08File{Path: path, Size: int64(len(content)), From: from, K: kk, Introduced: intro, Script: script}
			nn++
		}
		for _, p := range oldPaths {
			c := old.Files[p]
			switch rng.Intn(6) {
			case 0: // same path, unchanged
				add(p, p, c, 0, 0, "")
				desc += "same,"
			case 1: // renamed
				add(fmt.Sprintf("new/r%d.bin", nn), p, c, 0, 0, "")
				desc += "renamed,"
			case 2: // duplicated
				add(p, p, c, 0, 0, "")
				add(fmt.Sprintf("new/d%d.bin", nn), p, c, 0, 0, "")
				add(fmt.Sprintf("new/e%d.bin", nn), p, c, 0, 0, "")
				desc += "dup,"
			default: // k localized edits, same path or renamed
				kk := 1 + rng.Intn(4)
				e, intro, script := applyEdits(rng, c, kk)
				path := p
				if rng.Intn(3) == 0 {
					path = fmt.Sprintf("new/m%d.bin", nn)
				}
				add(path, p, e, kk, intro, script)
				desc += fmt.Sprintf("edits%d,", kk)
			}
		}
		if rng.Intn(3) == 0 {
			c := randBytes(rng, pickSize(rng))
			add("new/brand.bin", "", c, 0, int64(len(c)), "brand-new")
			desc += "brand-new,"
		}
		identical := k%8 == 7 || k%8 == 2
		if identical {
			new = old.clone()
			meta = map[string]*c08File{}
			for p, c := range old.Files {
				meta[p] = &c08File{Path: p, Size: int64(len(c)), From: p}
			}
			desc = "identical-builds"
		}
		root, oldDir, newDir, err := materialisePair(old, new)
		if err != nil {
			return err
		}
		line := c08Line{Case: k, Desc: desc, Identical: identical, Files: []c08File{}}
		// (half of the diffs get the old build's hashes the way a client does: from a stored signature read back)
		dr, err := realDiffDirsEnv(oldDir, newDir, compressionOf("NONE", 0), diffEnv{StoredSig: k%2 == 1, SrcEOF: k%4 == 2})
		if err != nil {
			line.DiffErr = err.Error()
			w.emit(line)
			os.RemoveAll(root)
			continue
		}
		line.Fresh, line.Reused, line.Total = dr.Fresh, dr.Reused, dr.Source.Size
		d := decodePatch(dr.Patch)
		line.Decoded = d.Complete && d.Err == ""
		if line.Decoded {
			facts := patchFacts(d, oldDir, newDir)
			cur := -1
			for _, f := range facts {
				switch {
				case f.K == "SH":
					cur = int(f.Fi)
				case f.K == "OP" && f.Ty == "DATA":
					line.DataBytes += f.Len
					if m := meta[d.Source.Files[cur].Path]; m != nil {
						m.Fresh += f.Len
					}
				case f.K == "OP" && f.Ty == "BR":
					line.RangeBytes += f.Len
					if m := meta[d.Source.Files[cur].Path]; m != nil {
						m.Reused += f.Len
					}
				}
			}
			for si, sf := range d.Source.Files {
				if m := meta[sf.Path]; m != nil {
					m.Si = si
					line.Files = append(line.Files, *m)
				}
			}
		}
		w.emit(line)
		os.RemoveAll(root)
	}
	fmt.Printf("{\"lines\":%d}\n", w.n)
	return w.close()
}

func init() {
	register("c08", "fresh-byte accounting of the real differ on edit scripts over high-entropy content", cmdC08)
}
