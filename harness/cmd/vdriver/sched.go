package main

import (
	"runtime"
	"time"
)

func yield() {
	runtime.Gosched()
	time.Sleep(50 * time.Microsecond)
}
