package main

// C04: signatures of generated builds from both producers (diff-time signing behind multiread, stand-alone
// ComputeSignature), read back through ReadSignature under every compression setting, compared with an
// independent recomputation; then validation of a pristine copy.

import (
	"bytes"
	"context"
	"crypto/md5"
	"flag"
	"fmt"
	"io"
	"math/rand"
	"os"
	"path/filepath"
	"testing/iotest"

	"github.com/itchio/lake"
	"github.com/itchio/lake/pools/fspool"
	"github.com/itchio/lake/tlc"
	"github.com/itchio/savior/seeksource"
	"github.com/itchio/wharf/pwr"
	"github.com/itchio/wharf/wsync"
)

type c04File struct {
	Path    string  `json:"path"`
	Size    int64   `json:"size"`
	NRead   int     `json:"nread"`   // hashes ReadSignature assigned to this file (by FileIndex)
	NDirect int     `json:"ndirect"` // hashes of the stand-alone signer for this file
	NOwn    int     `json:"nown"`    // blocks of the independent recomputation
	EqRD    bool    `json:"eqrd"`    // read-back == direct, block by block (weak, strong, short size, indices)
	EqRO    bool    `json:"eqro"`    // read-back == own recomputation (weak, strong)
	Shorts  []int64 `json:"shorts"`  // short sizes as read back
	Raw     []int   `json:"raw"`     // content of tiny files (<= 16 bytes), for TLC's own evaluation of the weak hash
	B1      int64   `json:"b1"`      // weak hash of block 0 as read back, split: weak = b1 + 65536*b2
	B2      int64   `json:"b2"`
}

type c04Line struct {
	Case          int       `json:"case"`
	Desc          string    `json:"desc"`
	Algo          string    `json:"algo"`
	Q             int32     `json:"q"`
	ShortReads    int       `json:"shortreads"`
	DataWithEOF   bool      `json:"datawitheof"`
	Files         []c04File `json:"files"`
	NHashesRead   int       `json:"nhashesread"`
	NHashesDirect int       `json:"nhashesdirect"`
	ContainerEq   bool      `json:"containereq"` // container read back == container walked
	ReadErr       string    `json:"readerr"`
	DiffErr       string    `json:"differr"`
	HashInfoErr   string    `json:"hashinfoerr"`
	// validation of a pristine copy
	Wounds            int    `json:"wounds"`            // non-healthy wounds written by the wounds writer
	ValidateErr       string `json:"validateerr"`       // Validate with WoundsPath
	FailFastErr       string `json:"failfasterr"`       // AssertValid
	FailFastDirectErr string `json:"failfastdirecterr"` // AssertValid against the stand-alone signature
}

// ownBeta is an independent implementation of the rolling checksum of a whole block.
func ownBeta(b []byte) (uint32, uint32) {
	var a, s uint64
	n := uint64(len(b))
	for i, v := range b {
		a += uint64(v)
		s += (n - uint64(i)) * uint64(v)
	}
	return uint32(a % 65536), uint32(s % 65536)
}

type ownHash struct {
	weak   uint32
	strong [16]byte
}

func ownSignature(content []byte) []ownHash {
	var out []ownHash
	if len(content) == 0 {
		b1, b2 := ownBeta(nil)
		return []ownHash{{b1 + 65536*b2, md5.Sum(nil)}}
	}
	for off := 0; off < len(content); off += BS {
		end := off + BS
		if end > len(content) {
			end = len(content)
		}
		b1, b2 := ownBeta(content[off:end])
		out = append(out, ownHash{b1 + 65536*b2, md5.Sum(content[off:end])})
	}
	return out
}

// shortReadPool makes every reader of the wrapped pool return short reads.
type shortReadPool struct {
	lake.Pool
	n int
	// dataWithEOF: readers hand over the last bytes of a file together with io.EOF (n > 0, err == io.EOF), as the
	// io.Reader contract allows and as decompressing readers (zip entries, HTTP bodies) do
	dataWithEOF bool
}

func (p *shortReadPool) GetReader(i int64) (io.Reader, error) {
	r, err := p.Pool.GetReader(i)
	if err != nil {
		return nil, err
	}
	if p.dataWithEOF {
		r = iotest.DataErrReader(r)
	}
	if p.n <= 0 {
		return r, nil
	}
	return &chunkReader{r: r, n: p.n}, nil
}

func genBuild(rng *rand.Rand, k int) (*tree, string) {
	t := newTree()
	desc := ""
	switch k % 5 {
	case 0: // size sweep around block multiples
		for i, sz := range []int{0, 1, BS - 1, BS, BS + 1, 2*BS - 1, 2 * BS, 2*BS + 1, 3 * BS, 5*BS + 7} {
			t.Files[fmt.Sprintf("sweep/f%02d", i)] = randBytes(rng, sz)
		}
		desc = "size-sweep"
	case 1: // many small files, empty ones in between
		for i := 0; i < 40+rng.Intn(60); i++ {
			sz := rng.Intn(40)
			if i%3 == 0 {
				sz = 0
			}
			t.Files[fmt.Sprintf("small/d%d/f%03d", i%4, i)] = randBytes(rng, sz)
		}
		desc = "many-small"
	case 2: // tiny files whose bytes TLC hashes itself + a large file
		for i := 0; i < 8; i++ {
			t.Files[fmt.Sprintf("tiny/t%d", i)] = randBytes(rng, rng.Intn(17))
		}
		t.Files["tiny/large.bin"] = randBytes(rng, 20*BS+rng.Intn(BS))
		oddNamesTree(t, rng)
		desc = "tiny+large+odd-names"
	case 3: // only empty files / only dirs and links
		for i := 0; i < 1+rng.Intn(4); i++ {
			t.Files[fmt.Sprintf("empties/e%d", i)] = []byte{}
		}
		t.Dirs["empties/dir/deeper"] = true
		t.Symlinks["empties/link"] = "e0"
		desc = "empties"
	default:
		_, nt, d := genPair(rng, k, k%20 == 4)
		t = nt
		desc = "generated:" + d
	}
	if k%2 == 0 {
		t.Dirs["an-empty-dir"] = true
		t.Symlinks["a-link"] = "nowhere"
	}
	return t, desc
}

func cmdC04(args []string) error {
	fs := flag.NewFlagSet("c04", flag.ExitOnError)
	n := fs.Int("n", 10, "cases")
	first := fs.Int("first", 0, "first case")
	out := fs.String("out", "c04.ndjson", "trace output")
	fs.Parse(args)
	w, err := newNDJSON(*out)
	if err != nil {
		return err
	}
	comps := allCompressions()
	for k := *first; k < *first+*n; k++ {
		rng := newRand(int64(4000 + k))
		build, desc := genBuild(rng, k)
		oldT := newTree()
		if k%3 == 0 { // diff against a related old build rather than nothing
			for p, c := range build.Files {
				if rng.Intn(2) == 0 {
					oldT.Files[p] = c
				}
			}
		}
		root, oldDir, newDir, err := materialisePair(oldT, build)
		if err != nil {
			return err
		}
		c := comps[k%len(comps)]
		if c.a == "BROTLI" && c.q > 9 && build.totalSize() > 1<<20 {
			c.q = 9
		}
		line := c04Line{Case: k, Desc: desc, Algo: c.a, Q: c.q, Files: []c04File{}}
		// (a) diff-time signature, source pool with short reads for some cases
		targetContainer, _ := tlc.WalkAny(oldDir, tlc.WalkOpts{})
		sourceContainer, err := tlc.WalkAny(newDir, tlc.WalkOpts{})
		if err != nil {
			return err
		}
		targetSig, err := pwr.ComputeSignature(context.Background(), targetContainer, fspool.New(targetContainer, oldDir), nullConsumer())
		if err != nil {
			return err
		}
		var srcPool lake.Pool = fspool.New(sourceContainer, newDir)
		if k%2 == 1 {
			line.ShortReads = []int{1, 7, 4096, BS - 1, BS + 1}[rng.Intn(5)]
			srcPool = &shortReadPool{Pool: srcPool, n: line.ShortReads}
		}
		if k%4 >= 2 { // (with and without short reads)
			line.DataWithEOF = true
			srcPool = &shortReadPool{Pool: srcPool, n: line.ShortReads, dataWithEOF: true}
		}
		dctx := &pwr.DiffContext{Compression: compressionOf(c.a, c.q), Consumer: nullConsumer(), SourceContainer: sourceContainer, Pool: srcPool,
			TargetContainer: targetContainer, TargetSignature: targetSig}
		var patch, sig bytes.Buffer
		if err := dctx.WritePatch(context.Background(), &patch, &sig); err != nil {
			line.DiffErr = err.Error()
			w.emit(line)
			os.RemoveAll(root)
			continue
		}
		sigSrc := seeksource.FromBytes(sig.Bytes())
		if _, err := sigSrc.Resume(nil); err != nil {
			return err
		}
		si, err := pwr.ReadSignature(context.Background(), sigSrc)
		if err != nil {
			line.ReadErr = err.Error()
			w.emit(line)
			os.RemoveAll(root)
			continue
		}
		line.ContainerEq = si.Container.EnsureEqual(sourceContainer) == nil && sourceContainer.EnsureEqual(si.Container) == nil && si.Container.Size == sourceContainer.Size
		// (b) stand-alone signature
		var directPool lake.Pool = fspool.New(sourceContainer, newDir)
		if k%8 >= 4 {
			directPool = &shortReadPool{Pool: directPool, dataWithEOF: true}
		}
		direct, err := pwr.ComputeSignature(context.Background(), sourceContainer, directPool, nullConsumer())
		if err != nil {
			return err
		}
		line.NHashesRead, line.NHashesDirect = len(si.Hashes), len(direct)
		if _, err := pwr.ComputeHashInfo(si); err != nil {
			line.HashInfoErr = err.Error()
		}
		group := func(hs []wsync.BlockHash) map[int64][]wsync.BlockHash {
			m := map[int64][]wsync.BlockHash{}
			for _, h := range hs {
				m[h.FileIndex] = append(m[h.FileIndex], h)
			}
			return m
		}
		gr, gd := group(si.Hashes), group(direct)
		for fi, f := range sourceContainer.Files {
			content, _ := os.ReadFile(filepath.Join(newDir, filepath.FromSlash(f.Path)))
			own := ownSignature(content)
			r, d := gr[int64(fi)], gd[int64(fi)]
			cf := c04File{Path: f.Path, Size: f.Size, NRead: len(r), NDirect: len(d), NOwn: len(own), Shorts: []int64{}, Raw: []int{}}
			cf.EqRD = len(r) == len(d)
			cf.EqRO = len(r) == len(own)
			for i := range r {
				cf.Shorts = append(cf.Shorts, int64(r[i].ShortSize))
				if i < len(d) && !(r[i].WeakHash == d[i].WeakHash && bytes.Equal(r[i].StrongHash, d[i].StrongHash) && r[i].ShortSize == d[i].ShortSize && r[i].BlockIndex == d[i].BlockIndex && r[i].BlockIndex == int64(i)) {
					// the stand-alone signer leaves ShortSize 0 only for full blocks, like the reader
					cf.EqRD = false
				}
				if i < len(own) && !(r[i].WeakHash == own[i].weak && bytes.Equal(r[i].StrongHash, own[i].strong[:])) {
					cf.EqRO = false
				}
			}
			if len(content) <= 16 {
				cf.Raw = ints(content)
			}
			if len(r) > 0 {
				cf.B1, cf.B2 = int64(r[0].WeakHash%65536), int64(r[0].WeakHash/65536)
			}
			line.Files = append(line.Files, cf)
		}
		// validation of a pristine copy against the read-back signature
		copyTo := filepath.Join(root, "pristine")
		os.MkdirAll(copyTo, 0755)
		if err := copyDir(newDir, copyTo); err != nil {
			return err
		}
		wp := filepath.Join(root, "wounds.pww")
		vctx := &pwr.ValidatorContext{WoundsPath: wp, Consumer: nullConsumer()}
		if k%2 == 1 {
			// a validator context with a HISTORY (a launcher's verify / repair / verify loop): it first sees a badly
			// damaged copy - every directory replaced by a file or by a symlink to a look-alike folder, a file deleted,
			// one truncated - and then the pristine one
			bad := filepath.Join(root, "damaged-first")
			os.MkdirAll(bad, 0755)
			copyDir(newDir, bad)
			for di, dd := range sourceContainer.Dirs {
				dp := filepath.Join(bad, filepath.FromSlash(dd.Path))
				if _, err := os.Lstat(dp); err != nil {
					continue // below a directory already replaced
				}
				if di%2 == 0 {
					os.RemoveAll(dp)
					os.WriteFile(dp, []byte("a file where a directory belongs"), 0644)
				} else {
					la := filepath.Join(root, fmt.Sprintf("lookalike-%d", di))
					copyDir(dp, la)
					os.RemoveAll(dp)
					os.Symlink(la, dp)
				}
			}
			for fi, f := range sourceContainer.Files {
				fp := filepath.Join(bad, filepath.FromSlash(f.Path))
				if fi%3 == 0 {
					os.Remove(fp)
				} else if fi%3 == 1 && f.Size > 0 {
					os.Truncate(fp, f.Size/2)
				}
			}
			vctx.WoundsPath = filepath.Join(root, "wounds-damaged.pww")
			vctx.Validate(context.Background(), bad, si)
			vctx.WoundsPath = wp
		}
		if err := vctx.Validate(context.Background(), copyTo, si); err != nil {
			line.ValidateErr = err.Error()
		}
		if ws, err := readWoundsFile(wp); err == nil {
			line.Wounds = len(ws)
		}
		if err := pwr.AssertValid(copyTo, si); err != nil {
			line.FailFastErr = err.Error()
		}
		if err := pwr.AssertValid(copyTo, &pwr.SignatureInfo{Container: sourceContainer, Hashes: direct}); err != nil {
			line.FailFastDirectErr = err.Error()
		}
		w.emit(line)
		os.RemoveAll(root)
	}
	fmt.Printf("{\"lines\":%d}\n", w.n)
	return w.close()
}

func init() {
	register("c04", "signatures from both producers, read back and recomputed; validation of a pristine copy", cmdC04)
}
