package main

// C12 (control series): the real bsdiff.DiffContext.Do on enumerated small and random large (old,new)
// pairs under every partition setting, the real IndividualPatchContext.Apply with the old offset logged
// after every control, and resumption from saved offsets.

import (
	"bytes"
	"flag"
	"fmt"
	"io"
	"math/rand"
	"os"

	"github.com/golang/protobuf/proto"
	"github.com/itchio/wharf/bsdiff"
)

type bsdCtl struct {
	Add  []int `json:"add"`
	Copy []int `json:"copy"`
	Seek int64 `json:"seek"`
	EOF  bool  `json:"eof"`
}

type bsdSmall struct {
	Id      int      `json:"id"`
	Old     []int    `json:"old"`
	New     []int    `json:"new"`
	Parts   int      `json:"parts"`
	Ctl     []bsdCtl `json:"ctl"`
	DiffErr string   `json:"differr"`
	Offs    []int64  `json:"offs"`    // OldOffset of the real applier after each non-eof control
	Out     []int    `json:"out"`     // what the real applier produced
	ApplyOK bool     `json:"applyok"` // every real Apply returned nil
	Resumes []bool   `json:"resumes"` // k-th: applying controls k+1.. from the saved offset after k gives the same remainder
}

type rawCtl struct {
	add, cpy []byte
	seek     int64
	eof      bool
}

func realBsdiff(old, new []byte, parts, conc int) ([]rawCtl, error) {
	return realBsdiffWith(&bsdiff.DiffContext{Partitions: parts, SuffixSortConcurrency: conc}, old, new)
}

// realBsdiffWith diffs with a given (possibly already used) DiffContext: contexts are re-usable, the optimizer
// uses one for all files of a patch
func realBsdiffWith(dc *bsdiff.DiffContext, old, new []byte) ([]rawCtl, error) {
	var ctl []rawCtl
	err := dc.Do(bytes.NewReader(old), bytes.NewReader(new), func(m proto.Message) error {
		c := m.(*bsdiff.Control)
		ctl = append(ctl, rawCtl{add: append([]byte{}, c.Add...), cpy: append([]byte{}, c.Copy...), seek: c.Seek, eof: c.Eof})
		return nil
	}, nullConsumer())
	return ctl, err
}

// realApply applies ctl[from:] starting at oldOffset with the real applier; returns output, offsets, error.
func realApply(pc *bsdiff.PatchContext, old []byte, ctl []rawCtl, from int, oldOffset int64) ([]byte, []int64, error) {
	var out bytes.Buffer
	ipc, err := pc.NewIndividualPatchContext(bytes.NewReader(old), oldOffset, &out)
	if err != nil {
		return nil, nil, err
	}
	var offs []int64
	for _, c := range ctl[from:] {
		if c.eof {
			break
		}
		if err := ipc.Apply(&bsdiff.Control{Add: c.add, Copy: c.cpy, Seek: c.seek}); err != nil {
			return out.Bytes(), offs, err
		}
		offs = append(offs, ipc.OldOffset)
	}
	return out.Bytes(), offs, nil
}

// marker lets the orchestrator name the case during which the process died (bsdiff panics in goroutines).
func writeMarker(path string, s string) {
	if path != "" {
		os.WriteFile(path, []byte(s), 0644)
	}
}

func cmdC12Small(args []string) error {
	fs := flag.NewFlagSet("c12-small", flag.ExitOnError)
	alpha := fs.Int("alpha", 3, "alphabet size")
	maxLen := fs.Int("maxlen", 4, "max length of old and new")
	parts := fs.String("parts", "0,1,2,3,5", "partition settings")
	first := fs.Int("first", 0, "first case id")
	stride := fs.Int("stride", 1, "take every stride-th case")
	phase := fs.Int("phase", 0, "phase within stride")
	marker := fs.String("marker", "", "file receiving the id of the case being executed")
	out := fs.String("out", "c12small.ndjson", "output")
	fs.Parse(args)
	w, err := newNDJSON(*out)
	if err != nil {
		return err
	}
	seqs := seqsUpTo(*alpha, *maxLen)
	pl := parseInts(*parts)
	pc := bsdiff.NewPatchContext()
	id := -1
	for _, old := range seqs {
		for _, new := range seqs {
			for _, p := range pl {
				id++
				if id < *first || id%*stride != *phase {
					continue
				}
				writeMarker(*marker, fmt.Sprintf("{\"id\":%d,\"old\":%v,\"new\":%v,\"parts\":%d}", id, jsonInts(old), jsonInts(new), p))
				line := bsdSmall{Id: id, Old: ints(old), New: ints(new), Parts: p, Ctl: []bsdCtl{}, Offs: []int64{}, Out: []int{}, Resumes: []bool{}}
				ctl, err := realBsdiff(old, new, p, id%3)
				if err != nil {
					line.DiffErr = err.Error()
				}
				for _, c := range ctl {
					line.Ctl = append(line.Ctl, bsdCtl{Add: ints(c.add), Copy: ints(c.cpy), Seek: c.seek, EOF: c.eof})
				}
				outb, offs, aerr := realApply(pc, old, ctl, 0, 0)
				line.ApplyOK = aerr == nil
				line.Out = ints(outb)
				if offs != nil {
					line.Offs = offs
				}
				if aerr == nil {
					// resume after k controls from the offset the applier reported
					pos := 0
					for k := 0; k < len(offs); k++ {
						pos += len(ctl[k].add) + len(ctl[k].cpy)
						rest, _, rerr := realApply(pc, old, ctl, k+1, offs[k])
						line.Resumes = append(line.Resumes, rerr == nil && pos <= len(outb) && bytes.Equal(rest, outb[pos:]))
					}
				}
				w.emit(line)
			}
		}
	}
	writeMarker(*marker, "")
	fmt.Printf("{\"lines\":%d}\n", w.n)
	return w.close()
}

func jsonInts(b []byte) string {
	s := "["
	for i, v := range b {
		if i > 0 {
			s += ","
		}
		s += fmt.Sprint(v)
	}
	return s + "]"
}

// ---------------------------------------------------------------- large pairs, digest facts

type bsdFact struct {
	AddLen  int64  `json:"addlen"`
	CopyLen int64  `json:"copylen"`
	Seek    int64  `json:"seek"`
	EOF     bool   `json:"eof"`
	AddSha  string `json:"addsha"`  // digest of old[off:off+addlen] + add (mod 256), off from the harness' own running offset
	CopySha string `json:"copysha"` // digest of the copy section
	NewAdd  string `json:"newadd"`  // digest of new[pos:pos+addlen]
	NewCopy string `json:"newcopy"` // digest of new[pos+addlen:pos+addlen+copylen]
	Off     int64  `json:"off"`     // the harness' running old offset before this control
	Pos     int64  `json:"pos"`     // the harness' running output position before this control
}

type bsdLarge struct {
	Case    int       `json:"case"`
	OldLen  int64     `json:"oldlen"`
	NewLen  int64     `json:"newlen"`
	Parts   int       `json:"parts"`
	Conc    int       `json:"conc"`
	Desc    string    `json:"desc"`
	DiffErr string    `json:"differr"`
	Ctl     []bsdFact `json:"ctl"`
	Offs    []int64   `json:"offs"`
	ApplyOK bool      `json:"applyok"`
	OutSha  string    `json:"outsha"`
	NewSha  string    `json:"newsha"`
	OutLen  int64     `json:"outlen"`
	Resumes []bsdRes  `json:"resumes"`
}

type bsdRes struct {
	K  int  `json:"k"`
	Ok bool `json:"ok"`
}

func genBsdPair(rng *rand.Rand, k int) (old, new []byte, desc string) {
	sz := []int{0, 1, 2, 5, 17, 100, 1000, 4096, 70000, 300000, 1 << 20, 3 << 20}[rng.Intn(12)]
	if k%9 == 8 {
		sz = 2<<20 + rng.Intn(2<<20)
	}
	mk := func(n int) []byte {
		switch rng.Intn(3) {
		case 0:
			return randBytes(rng, n)
		case 1: // periodic
			p := randBytes(rng, 1+rng.Intn(40))
			b := make([]byte, n)
			for i := range b {
				b[i] = p[i%len(p)]
			}
			return b
		default: // low entropy
			b := randBytes(rng, n)
			for i := range b {
				b[i] &= 3
			}
			return b
		}
	}
	old = mk(sz)
	switch c := rng.Intn(9); {
	case c == 0:
		new, desc = []byte{}, "new-empty"
	case c == 1:
		new, desc = mk(rng.Intn(sz+10)), "unrelated"
	case c == 2:
		new, desc = append([]byte{}, old...), "identical"
	case c == 3 && len(old) > 0:
		new, desc = append([]byte{}, old[:rng.Intn(len(old))]...), "shorter-prefix"
	case c == 4:
		new, desc = append(append([]byte{}, old...), mk(1+rng.Intn(sz+3))...), "longer-append"
	default:
		// edit script: overwrites, inserts, deletes, block moves
		new = append([]byte{}, old...)
		ne := 1 + rng.Intn(8)
		for e := 0; e < ne && len(new) > 0; e++ {
			at := rng.Intn(len(new))
			ln := 1 + rng.Intn(1+len(new)/10)
			switch rng.Intn(4) {
			case 0:
				for i := at; i < at+ln && i < len(new); i++ {
					new[i] ^= byte(1 + rng.Intn(255))
				}
			case 1:
				new = append(new[:at], append(mk(ln), new[at:]...)...)
			case 2:
				end := at + ln
				if end > len(new) {
					end = len(new)
				}
				new = append(new[:at], new[end:]...)
			default:
				end := at + ln
				if end > len(new) {
					end = len(new)
				}
				chunk := append([]byte{}, new[at:end]...)
				new = append(new[:at], new[end:]...)
				to := 0
				if len(new) > 0 {
					to = rng.Intn(len(new))
				}
				new = append(new[:to], append(chunk, new[to:]...)...)
			}
		}
		desc = fmt.Sprintf("edits:%d", ne)
	}
	if k%13 == 12 {
		old, desc = []byte{}, desc+"+old-empty"
	}
	return
}

func cmdC12Large(args []string) error {
	fs := flag.NewFlagSet("c12-large", flag.ExitOnError)
	n := fs.Int("n", 20, "cases")
	first := fs.Int("first", 0, "first case")
	marker := fs.String("marker", "", "file receiving the id of the case being executed")
	out := fs.String("out", "c12large.ndjson", "output")
	fs.Parse(args)
	w, err := newNDJSON(*out)
	if err != nil {
		return err
	}
	pc := bsdiff.NewPatchContext()
	for k := *first; k < *first+*n; k++ {
		rng := newRand(int64(12000 + k))
		old, new, desc := genBsdPair(rng, k)
		parts := rng.Intn(17)
		conc := rng.Intn(4) - 1
		writeMarker(*marker, fmt.Sprintf("{\"id\":%d,\"oldlen\":%d,\"newlen\":%d,\"parts\":%d,\"desc\":%q}", k, len(old), len(new), parts, desc))
		line := bsdLarge{Case: k, OldLen: int64(len(old)), NewLen: int64(len(new)), Parts: parts, Conc: conc, Desc: desc, NewSha: sha(new), Ctl: []bsdFact{}, Offs: []int64{}, Resumes: []bsdRes{}}
		var ctl []rawCtl
		var derr error
		if k%5 == 4 {
			// a RE-USED differ context: first a pair with a longer old file (head ++ tail), then old = head and a new
			// file made of content that sat in the tail of the earlier old file
			head, tail := randBytes(rng, 64+rng.Intn(60000)), randBytes(rng, 64+rng.Intn(60000))
			big := append(append([]byte{}, head...), tail...)
			mod := append([]byte{}, big...)
			mod[rng.Intn(len(mod))] ^= 0x40
			dc := &bsdiff.DiffContext{Partitions: parts, SuffixSortConcurrency: conc}
			if _, err := realBsdiffWith(dc, big, mod); err != nil {
				derr = err
			}
			a := rng.Intn(len(tail) / 2)
			old = head
			new = append(append([]byte{}, tail[a:]...), head[:rng.Intn(len(head))]...)
			desc = "reused-context:" + desc
			line.Desc, line.OldLen, line.NewLen, line.NewSha = desc, int64(len(old)), int64(len(new)), sha(new)
			writeMarker(*marker, fmt.Sprintf("{\"id\":%d,\"oldlen\":%d,\"newlen\":%d,\"parts\":%d,\"desc\":%q}", k, len(old), len(new), parts, desc))
			if derr == nil {
				ctl, derr = realBsdiffWith(dc, old, new)
			}
		} else {
			ctl, derr = realBsdiff(old, new, parts, conc)
		}
		if derr != nil {
			line.DiffErr = derr.Error()
		}
		off, pos := int64(0), int64(0)
		for _, c := range ctl {
			f := bsdFact{AddLen: int64(len(c.add)), CopyLen: int64(len(c.cpy)), Seek: c.seek, EOF: c.eof, Off: off, Pos: pos, CopySha: sha(c.cpy)}
			if !c.eof {
				if off >= 0 && off+f.AddLen <= int64(len(old)) {
					sum := make([]byte, len(c.add))
					for i := range sum {
						sum[i] = old[off+int64(i)] + c.add[i]
					}
					f.AddSha = sha(sum)
				}
				if pos+f.AddLen+f.CopyLen <= int64(len(new)) {
					f.NewAdd = sha(new[pos : pos+f.AddLen])
					f.NewCopy = sha(new[pos+f.AddLen : pos+f.AddLen+f.CopyLen])
				}
				off += f.AddLen + c.seek
				pos += f.AddLen + f.CopyLen
			}
			line.Ctl = append(line.Ctl, f)
		}
		outb, offs, aerr := realApply(pc, old, ctl, 0, 0)
		line.ApplyOK = aerr == nil
		line.OutSha, line.OutLen = sha(outb), int64(len(outb))
		if offs != nil {
			line.Offs = offs
		}
		if aerr == nil && len(offs) > 0 {
			ks := map[int]bool{0: true, len(offs) - 1: true}
			for i := 0; i < 4; i++ {
				ks[rng.Intn(len(offs))] = true
			}
			for kk := range ks {
				p := int64(0)
				for j := 0; j <= kk; j++ {
					p += int64(len(ctl[j].add) + len(ctl[j].cpy))
				}
				rest, _, rerr := realApply(pc, old, ctl, kk+1, offs[kk])
				line.Resumes = append(line.Resumes, bsdRes{K: kk + 1, Ok: rerr == nil && p <= int64(len(outb)) && bytes.Equal(rest, outb[p:])})
			}
		}
		w.emit(line)
		w.flush()
	}
	writeMarker(*marker, "")
	fmt.Printf("{\"lines\":%d}\n", w.n)
	return w.close()
}

var _ = io.EOF

func init() {
	register("c12-small", "enumerate small bsdiff pairs on the real differ/applier", cmdC12Small)
	register("c12-large", "random large bsdiff pairs, digest facts", cmdC12Large)
}
