package main

// C12 (read cache): model walks replayed on the real bsdiff/lrufile at model scale
// (chunk size and capacity are constructor parameters).

import (
	"bufio"
	"bytes"
	"encoding/json"
	"flag"
	"fmt"
	"io"
	"os"
	"strings"

	"github.com/itchio/wharf/bsdiff/lrufile"
)

type lruStep struct {
	Op     string `json:"op"`
	A      int    `json:"a"`
	Bytes  []int  `json:"bytes"`
	EOF    bool   `json:"eof"`
	Off    int64  `json:"off"`
	Hits   int64  `json:"hits"`
	Misses int64  `json:"misses"`
}

type lruEdge struct {
	File []int     `json:"file"`
	Hist []lruStep `json:"hist"`
}

type lruTrace struct {
	CS    int       `json:"cs"`
	NE    int       `json:"ne"`
	File  []int     `json:"file"`
	Steps []lruStep `json:"steps"`
	Model []lruStep `json:"model"`
}

// swapReader: a reader OBJECT whose content can be replaced underneath (what an io.ReadSeeker handed to Reset a
// second time may well be: a re-opened file behind the same wrapper)
type swapReader struct{ r *bytes.Reader }

func (s *swapReader) Read(p []byte) (int, error)                { return s.r.Read(p) }
func (s *swapReader) Seek(off int64, whence int) (int64, error) { return s.r.Seek(off, whence) }

func cmdC12Lru(args []string) error {
	fs := flag.NewFlagSet("c12-lru", flag.ExitOnError)
	edges := fs.String("edges", "", "TLC output containing EDGE lines")
	out := fs.String("out", "c12lru.ndjson", "trace output")
	cs := fs.Int("cs", 2, "chunk size")
	ne := fs.Int("ne", 2, "entries")
	fs.Parse(args)
	f, err := os.Open(*edges)
	if err != nil {
		return err
	}
	defer f.Close()
	w, err := newNDJSON(*out)
	if err != nil {
		return err
	}
	sc := bufio.NewScanner(f)
	sc.Buffer(make([]byte, 1<<22), 1<<22)
	for sc.Scan() {
		line := sc.Text()
		if !strings.HasPrefix(line, `<<"EDGE"`) {
			continue
		}
		q := line[strings.Index(line, `, "`)+2 : len(line)-2]
		var js string
		if err := json.Unmarshal([]byte(q), &js); err != nil {
			return fmt.Errorf("unquote: %v", err)
		}
		var e lruEdge
		if err := json.Unmarshal([]byte(js), &e); err != nil {
			return err
		}
		content := make([]byte, len(e.File))
		for i, v := range e.File {
			content[i] = byte(v)
		}
		lf, err := lrufile.New(int64(*cs), *ne)
		if err != nil {
			return err
		}
		rsObj := &swapReader{r: bytes.NewReader(content)}
		if err := lf.Reset(rsObj); err != nil {
			return err
		}
		tr := lruTrace{CS: *cs, NE: *ne, File: ints(content), Model: e.Hist, Steps: []lruStep{}}
		for k := range tr.Model {
			if tr.Model[k].Bytes == nil {
				tr.Model[k].Bytes = []int{}
			}
		}
		for _, st := range e.Hist {
			rs := lruStep{Op: st.Op, A: st.A, Bytes: []int{}}
			if st.Op == "reset" {
				// the cache is handed another file of the same length: through the very same reader object whose
				// content changed underneath (a == 0), or through a new one
				nc := make([]byte, len(st.Bytes))
				for i, v := range st.Bytes {
					nc[i] = byte(v)
				}
				if st.A == 0 {
					rsObj.r = bytes.NewReader(nc)
				} else {
					rsObj = &swapReader{r: bytes.NewReader(nc)}
				}
				err := lf.Reset(rsObj)
				rs.Bytes = ints(nc)
				rs.EOF = err != nil
			} else if st.Op == "read" {
				buf := make([]byte, st.A)
				var n int
				var err error
				func() {
					// (a panic inside the cache is behaviour of the code under test on this walk, not a reason to lose the shard)
					defer func() {
						if r := recover(); r != nil {
							err = fmt.Errorf("panic: %v", r)
						}
					}()
					n, err = lf.Read(buf)
				}()
				rs.Bytes = ints(buf[:n])
				rs.EOF = err == io.EOF
				if err != nil && err != io.EOF {
					rs.Op = "read-error:" + err.Error()
				}
			} else {
				_, err := lf.Seek(int64(st.A), io.SeekStart)
				rs.EOF = err != nil
			}
			off, _ := lf.Seek(0, io.SeekCurrent)
			rs.Off = off
			s := lf.Stats()
			rs.Hits, rs.Misses = s.Hits, s.Misses
			tr.Steps = append(tr.Steps, rs)
			if strings.HasPrefix(rs.Op, "read-error:") {
				break // the object is in no defined state any more
			}
		}
		w.emit(tr)
	}
	fmt.Printf("{\"lines\":%d}\n", w.n)
	return w.close()
}

func init() {
	register("c12-lru", "replay LruFile model walks on the real lrufile", cmdC12Lru)
}
