module verifharness

go 1.24.0

require (
	github.com/golang/protobuf v1.5.4
	github.com/itchio/arkive v0.0.0-20200618123031-1a30392a8cfe
	github.com/itchio/go-brotli v0.0.0-20190702114328-3f28d645a45c
	github.com/itchio/headway v0.0.0-20251229214354-da882c8b5dd4
	github.com/itchio/lake v0.0.0-20200305150023-cc4284ec2b2a
	github.com/itchio/savior v0.0.0-20200618124148-6034e878d75b
	github.com/itchio/wharf v0.0.0
	github.com/pkg/errors v0.9.1
	google.golang.org/protobuf v1.36.11
)

require (
	github.com/certifi/gocertifi v0.0.0-20210507211836-431795d63e8d // indirect
	github.com/cespare/xxhash/v2 v2.3.0 // indirect
	github.com/detailyang/go-fallocate v0.0.0-20180908115635-432fa640bd2e // indirect
	github.com/efarrer/iothrottler v0.0.3 // indirect
	github.com/getlantern/context v0.0.0-20220418194847-3d5e7a086201 // indirect
	github.com/getlantern/errors v1.0.4 // indirect
	github.com/getlantern/golog v0.0.0-20230503153817-8e72de7e0a65 // indirect
	github.com/getlantern/hex v0.0.0-20220104173244-ad7e4b9194dc // indirect
	github.com/getlantern/hidden v0.0.0-20220104173330-f221c5a24770 // indirect
	github.com/getlantern/idletiming v0.0.0-20231030193830-6767b09f86db // indirect
	github.com/getlantern/mtime v0.0.0-20200417132445-23682092d1f7 // indirect
	github.com/getlantern/netx v0.0.0-20251021221514-279deb2cfd40 // indirect
	github.com/getlantern/ops v0.0.0-20231025133620-f368ab734534 // indirect
	github.com/go-logr/logr v1.4.3 // indirect
	github.com/go-logr/stdr v1.2.2 // indirect
	github.com/go-ozzo/ozzo-validation v3.6.0+incompatible // indirect
	github.com/go-stack/stack v1.8.1 // indirect
	github.com/gogs/chardet v0.0.0-20211120154057-b7413eaefb8f // indirect
	github.com/hashicorp/golang-lru v1.0.2 // indirect
	github.com/itchio/dskompress v0.0.0-20190702113811-5e6f499be697 // indirect
	github.com/itchio/httpkit v0.0.0-20251231162950-9fb57e6ac916 // indirect
	github.com/itchio/kompress v0.0.0-20200301155538-5c2eecce9e51 // indirect
	github.com/itchio/ox v0.0.0-20200826161350-12c6ca18d236 // indirect
	github.com/itchio/screw v0.0.0-20200301160148-75fc2d65fb38 // indirect
	github.com/jgallagher/gosaca v0.0.0-20130226042358-754749770f08 // indirect
	github.com/klauspost/compress v1.18.3 // indirect
	github.com/mitchellh/copystructure v1.2.0 // indirect
	github.com/mitchellh/reflectwalk v1.0.2 // indirect
	github.com/oxtoacart/bpool v0.0.0-20190530202638-03653db5a59c // indirect
	go.opentelemetry.io/auto/sdk v1.2.1 // indirect
	go.opentelemetry.io/otel v1.39.0 // indirect
	go.opentelemetry.io/otel/metric v1.39.0 // indirect
	go.opentelemetry.io/otel/trace v1.39.0 // indirect
	go.uber.org/multierr v1.11.0 // indirect
	go.uber.org/zap v1.27.1 // indirect
	golang.org/x/net v0.49.0 // indirect
	golang.org/x/text v0.33.0 // indirect
)

replace github.com/itchio/wharf => /repo
