module verifharness

go 1.24.0

require github.com/itchio/wharf v0.0.0

require (
	github.com/itchio/headway v0.0.0-20251229214354-da882c8b5dd4 // indirect
	github.com/itchio/lake v0.0.0-20200305150023-cc4284ec2b2a // indirect
	github.com/pkg/errors v0.9.1 // indirect
)

replace github.com/itchio/wharf => /repo
