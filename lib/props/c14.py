"""C14 - an overlay turns the old file into the new file, whatever the write pattern.

MC   spec/OverlayStream.tla (bufio + overlayProcessor, scale-free over equality runs) exhaustively at W=4,T=1:
     every content relation, every partition into writes, every flush / crash-resume point.
TV   histories on ONE real overlay bowl (pwr/bowl/bowl_overlay.go entry writer: begun from scratch or from a saved
     checkpoint, written in part, saved, abandoned, begun again, finalized, committed) over content that agrees
     with the old file at a SHIFTED offset (dropped prefix, relocated padding, tiles): committed file = new.
TV   real overlay writer sessions at the real constants (boundary run lengths, write sizes 1..>W, flushes,
     crashes resumed from reported offsets with stale bytes), overlay decoded by an independent framing
     parser, real Patch + truncate. TLC evaluates OverlayProp on the real stream / checkpoints / result
     (verdict) and steps OverlayStream along the recorded acts (drift).
"""
import os
import shutil

import vlib

PROP = "C14"


def run(tier):
    run = vlib.Run(PROP, tier, "model_checking")
    run.assumptions = [
        "the old-file reader returns full reads except at EOF (true for *os.File / bytes.Reader, which the overlay bowl uses)",
        "SHA-256 digests stand for byte equality of FRESH payloads and of the patched result",
        "'D' runs are generated so that every byte differs from the old file (no accidental equal streaks)",
    ]
    binary = vlib.build_harness()
    d = vlib.scratch("c14-")
    try:
        cfgs = ["MC_OverlayStream_quick.cfg"] + (["MC_OverlayStream_t1.cfg", "MC_OverlayStream_t2.cfg"] if tier == "thorough" else [])
        states = trans = 0
        mc = []
        for cfg in cfgs:
            r = vlib.run_tlc("MC_OverlayStream", cfg, timeout=3300, heap="24g", coverage=(tier == "thorough" and cfg == cfgs[0]))
            if not vlib.require_clean(r, "MC " + cfg):
                raise vlib.Inconclusive("MC %s: %s violated in the model\n%s" % (cfg, r.violated, r.out[-3000:]))
            states += r.distinct
            trans += r.generated
            mc.append({"cfg": cfg, **r.summary()})
            vlib.log("[mc] %s: %d distinct, %d generated, %.1fs" % (cfg, r.distinct, r.generated, r.wall))
        run.coverage.update({"states": states, "transitions": trans, "mc_runs": mc})

        ncases = 320 if tier == "quick" else 6400
        per = (ncases + vlib.NCPU - 1) // vlib.NCPU
        jobs = []
        for k in range(vlib.NCPU):
            def job(k=k):
                tp = os.path.join(d, "ov-%d.ndjson" % k)
                vlib.run_driver(binary, ["c14", "-n", per, "-first", k * per, "-out", tp], timeout=3000)
                r = vlib.run_tlc("Trace_OverlayStream", "Trace_OverlayStream.cfg", data={"trace.ndjson": tp}, workers=2, timeout=3000, heap="4g")
                return tp, r
            jobs.append(job)
        total = acts = nops = ndrift = 0
        for tp, r in vlib.parallel(jobs, nproc=8):
            n = vlib.count_lines(tp)
            stats = vlib.parse_tagged(r.prints, "STAT")
            viols = vlib.parse_viol(r.prints)
            drift = vlib.parse_tagged(r.prints, "DRIFT")
            if r.error or (not r.ok and r.violated != "deadlock"):
                raise vlib.Inconclusive("TV overlay: TLC failed: %s\n%s" % (r.error or r.violated, r.out[-2500:]))
            if r.violated == "deadlock" or len(stats) != n:
                # the implementation-shaped layer could not follow a recorded act (e.g. a write it considers
                # impossible): that is drift of the model, the verdict on the real stream was still evaluated
                ndrift += max(1, n - len(stats))
                run.note("OverlayStream.tla could not follow %d recorded session(s) to the end (deadlock in the trace spec)" % max(1, n - len(stats)))
            total += n
            acts += sum(s[1] for s in stats)
            nops += sum(s[2] for s in stats)
            if drift:
                ndrift += len(drift)
                if ndrift == len(drift):
                    c = vlib.get_line(tp, drift[0][0])
                    run.note("spec drift: OverlayStream.tla predicts another op list than the real writer, e.g. case %d (%s) runs=%s acts=%s real ops=%s"
                             % (c["case"], c["desc"], c["runs"], [(a["op"], a["n"]) for a in c["acts"]][:12], [(o["t"], o["n"]) for o in c["ops"]][:12]))
            for ln, clauses in viols:
                c = vlib.get_line(tp, ln)
                small = {k: c[k] for k in ("case", "desc", "runs", "oldlen", "newlen", "done", "patchok", "outlen", "outsha", "newsha")}
                small["acts"] = c["acts"][:60]
                small["ops"] = [{k: o[k] for k in ("t", "n", "off")} for o in c["ops"][:60]]
                small["seed"] = run.seed
                run.violation({"clauses": clauses}, small,
                              "real overlay writer/patcher violates %s on case %d (%s): runs=%s" % (clauses, c["case"], c["desc"], c["runs"][:10]))
            if total == n:
                c = vlib.get_line(tp, 2)
                run.sample({"case": c["case"], "desc": c["desc"], "runs": c["runs"], "acts": c["acts"][:8], "ops": c["ops"][:6]})
        run.coverage["traces_validated_against_impl"] = total
        run.coverage["acts_stepped"] = acts
        run.coverage["real_ops_checked"] = nops
        run.coverage["spec_drift"] = ndrift
        vlib.log("[tv] %d real sessions (%d acts, %d ops) validated, drift %d" % (total, acts, nops, ndrift))

        # bowl level: histories on one real overlay bowl (begin / save / abandon / begin again / finalize / commit)
        import pairs
        nb = 192 if tier == "quick" else 6000
        btotal = begins = 0
        for tp, cnt, res in pairs.run_shards(binary, d, ["c14-bowl"], nb, "Trace_OverlayBowl", "Trace_OverlayBowl.cfg", "bowl", timeout=900 if tier == "quick" else 3300):
            if res is None:
                continue
            btotal += cnt
            begins += sum(x[1] for x in vlib.parse_tagged(res.prints, "STAT"))
            for ln, clauses in vlib.parse_viol(res.prints):
                c = vlib.get_line(tp, ln)
                c["seed"] = run.seed
                c["acts"] = c["acts"][:80]
                run.violation({"clauses": clauses, "level": "bowl"}, c,
                              "real overlay bowl violates %s on history %d (%s, old %d new %d bytes): %s %s"
                              % (clauses, c["case"], c["desc"], c["oldlen"], c["newlen"], [(a["op"], a["n"]) for a in c["acts"] if a["op"] != "write"][:12], c["err"][:160]))
        run.coverage["bowl_histories"] = btotal
        run.coverage["traces_validated_against_impl"] = total + btotal
        vlib.log("[tv] %d histories on the real overlay bowl (%d entry beginnings)" % (btotal, begins))
        return run.finish()
    finally:
        shutil.rmtree(d, ignore_errors=True)


def replay(path):
    import json
    print(json.dumps(json.load(open(path)), indent=1)[:4000])
    return 0
