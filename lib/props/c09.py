"""C09 - applying through the safekeeper never yields a silently wrong result.

MC   spec/Safekeeper.tla: the validate-then-read reader (verdict cache per block, comparison of the signed block
     size, end-of-file handling) with its two consumers (copy until EOF, block-range copy through a limit reader),
     for every (signed, actual) of one old file over {0,1} with 2-unit blocks: result = error or output = expected;
     undamaged => accepted.
TV   (a) the same cases at unit scale (1 unit = 32 KiB = the copy buffer) through the REAL safekeeper with the real
     consumers' code paths: verdict on the real outcome, drift against the model. (b) (patch, damage) pairs: plain
     and optimized patches of generated build pairs (incl. renamed files of exactly k*64 KiB and adjacent duplicates)
     applied with the fresh bowl while the old build - flipped (reused or unreused blocks, block edges, weak-hash
     twins), truncated (also exactly at block boundaries / to nothing), extended (inside the last block, past it),
     files deleted, empty files filled - is read through the safekeeper.
"""
import os
import shutil

import pairs
import vlib

PROP = "C09"


def run(tier):
    run = vlib.Run(PROP, tier, "model_checking")
    run.assumptions = [
        "scope is the fresh bowl (the anchor); the overlay bowl renames whole files without reading them through any pool",
        "SHA-256 digests stand for byte equality of produced files; hash collisions other than crafted weak-hash twins not modelled",
    ]
    binary = vlib.build_harness()
    d = vlib.scratch("c09-")
    try:
        r = vlib.run_tlc("Safekeeper", "MC_Safekeeper_quick.cfg", timeout=600 if tier == "quick" else 3300, heap="16g",
                         defines=({"MaxLen": "7"} if tier == "thorough" else None))
        if not vlib.require_clean(r, "MC Safekeeper"):
            raise vlib.Inconclusive("MC Safekeeper: %s violated in the model\n%s" % (r.violated, r.out[-3000:]))
        run.coverage.update({"states": r.distinct, "transitions": r.generated, "mc_runs": [{"cfg": "MC_Safekeeper_quick.cfg", **r.summary()}]})
        vlib.log("[mc] Safekeeper: %d distinct, %d generated, %.1fs" % (r.distinct, r.generated, r.wall))
        # sanity: without the check of an early end of file the model must admit a silently short result (a file
        # truncated on a block boundary read through a pool that reports EOF together with its last bytes)
        r0 = vlib.run_tlc("Safekeeper", "MC_Safekeeper_noeofcheck.cfg", timeout=600, heap="16g")
        if r0.error or r0.violated != "NeverSilentlyWrong":
            raise vlib.Inconclusive("MC_Safekeeper_noeofcheck should violate NeverSilentlyWrong, got %s %s" % (r0.violated, r0.error))

        stride = 4 if tier == "quick" else 1
        nsh = 12
        jobs = []
        for k in range(nsh):
            def job(k=k):
                tp = os.path.join(d, "unit-%d.ndjson" % k)
                vlib.run_driver(binary, ["c09-unit", "-stride", stride * nsh, "-phase", (k * stride + (run.seed % stride)) % (stride * nsh), "-out", tp], timeout=3300)
                n = vlib.count_lines(tp)
                res = vlib.run_tlc("Trace_Safekeeper", "Trace_Safekeeper.cfg", data={"trace.ndjson": tp}, workers=2, timeout=3300, heap="4g")
                if res.error or not res.ok:
                    raise vlib.Inconclusive("Trace_Safekeeper failed: %s\n%s" % (res.error or res.violated, res.out[-2000:]))
                return tp, n, res
            jobs.append(job)
        ucases = ndrift = 0
        for tp, n, res in vlib.parallel(jobs, nproc=12):
            ucases += n
            drift = vlib.parse_tagged(res.prints, "DRIFT")
            if drift:
                ndrift += len(drift)
                if ndrift == len(drift):
                    run.note("spec drift: Safekeeper.tla predicts another outcome than the real reader, e.g. %s" % vlib.get_line(tp, drift[0][0]))
            for ln, clauses in vlib.parse_viol(res.prints):
                c = vlib.get_line(tp, ln)
                ls, la = len(c["signed"]), len(c["actual"])
                run.violation({"clauses": clauses, "scale": "unit", "truncated": la < ls, "extended": la > ls, "undamaged": c["signed"] == c["actual"], "whole_file_copy": c["mode"][0] == -1}, c,
                              "real safekeeper violates %s: signed=%s actual=%s (units of 32 KiB) consumer=%s -> %s out=%s %s"
                              % (clauses, c["signed"], c["actual"], "copy-until-EOF" if c["mode"][0] == -1 else ("cache chunk at unit %d" % c["mode"][1]) if c["mode"][0] == -2 else "block range %s" % c["mode"], c["result"], c["out"], c["err"][:100]))
            if ucases == n:
                run.sample({"unit_case": vlib.get_line(tp, 5)})
        run.coverage["unit_cases"] = ucases
        run.coverage["spec_drift"] = ndrift
        vlib.log("[tv] %d (signed, actual, consumer) cases through the real safekeeper, drift %d" % (ucases, ndrift))

        n = 240 if tier == "quick" else 4800
        total = damaged = errors = 0
        for tp, cnt, res in pairs.run_shards(binary, d, ["c09-tree"], n, "Trace_SafeApply", "Trace_SafeApply.cfg", "tree", timeout=900 if tier == "quick" else 3300):
            if res is None:
                continue
            total += cnt
            for s in vlib.parse_tagged(res.prints, "STAT"):
                damaged += 1 if s[1] > 0 else 0
                errors += s[2]
            for ln, clauses in vlib.parse_viol(res.prints):
                c = vlib.get_line(tp, ln)
                run.violation({"clauses": clauses, "scale": "tree", "undamaged": not c["damage"], "optimized": c["optimized"]},
                              {"case": c["case"], "desc": c["desc"], "optimized": c["optimized"], "damage": c["damage"], "err": c["err"], "wrong": c["wrong"][:10], "seed": run.seed},
                              "apply through the safekeeper violates %s on case %d (%s, optimized=%s) damage=%s: err=%r wrong=%s" % (clauses, c["case"], c["desc"][:60], c["optimized"], c["damage"], c["err"][:120], c["wrong"][:3]))
            if total == cnt:
                c = vlib.get_line(tp, 2)
                run.sample({"case": c["case"], "desc": c["desc"], "damage": c["damage"], "err": c["err"][:100]})
        run.coverage["patch_damage_pairs"] = total
        run.coverage["damaged_old_builds"] = damaged
        run.coverage["applications_that_failed_with_an_error"] = errors
        run.coverage["traces_validated_against_impl"] = ucases + total
        vlib.log("[tv] %d (patch, damage) pairs: %d damaged, %d ended with an error" % (total, damaged, errors))
        return run.finish()
    finally:
        shutil.rmtree(d, ignore_errors=True)


def replay(path):
    import json
    print(json.dumps(json.load(open(path)), indent=1)[:4000])
    return 0
