"""C17 - partial application by whitelist produces exactly the selected files.

MC   spec/Patcher.tla with UseWhitelist: all patches of NF files built from 6 series shapes (whole-file op with or
     without the historical trailing empty DATA, empty, new, patched, bsdiff with targets incl. 2049) x every
     whitelist; end-marker recognition modelled as the code does it (protobuf field 1 of whatever message is read).
TV   generated build pairs (plus an old build with > 2049 files whose file at target index 2049 is a bsdiff
     target), plain and optimized patches, seeded compression; every subset of new-file indices for <= 5 files,
     seeded subsets above; real patcher with a recording bowl and a recording target pool. TLC checks: no error,
     touched = |W|, bowl asked only for W (and for all of W), old files read only as the whitelisted series
     allow, whitelisted outputs identical to the new build.
"""
import shutil

import pairs
import vlib

PROP = "C17"


def run(tier):
    run = vlib.Run(PROP, tier, "model_checking")
    run.assumptions = [
        "SHA-256 digests stand for byte equality of produced files",
        "non-whitelisted paths are not inspected (the fresh bowl pre-creates every file of the container)",
    ]
    binary = vlib.build_harness()
    d = vlib.scratch("c17-")
    try:
        cfgs = [("MC_Patcher_c17.cfg", {"SkipReadsBH": "TRUE"})]
        if tier == "thorough":
            cfgs.append(("MC_Patcher_c17.cfg", {"SkipReadsBH": "TRUE", "NF": "4", "Targets": "{0, 2049}"}))
        states = trans = 0
        mc = []
        for cfg, defs in cfgs:
            r = vlib.run_tlc("Patcher", cfg, timeout=800 if tier == "quick" else 3300, heap="24g", defines=defs)
            if not vlib.require_clean(r, "MC " + cfg):
                raise vlib.Inconclusive("MC %s: %s violated in the model\n%s" % (cfg, r.violated, r.out[-3000:]))
            states += r.distinct
            trans += r.generated
            mc.append({"cfg": cfg, "defines": defs, **r.summary()})
            vlib.log("[mc] %s %s: %d distinct, %d generated, %.1fs" % (cfg, defs, r.distinct, r.generated, r.wall))
        run.coverage.update({"states": states, "transitions": trans, "mc_runs": mc})
        n = 48 if tier == "quick" else 960
        total = subsets = opt = aliasing = 0
        for tp, cnt, r in pairs.run_shards(binary, d, ["c17"], n, "Trace_Whitelist", "Trace_Whitelist.cfg", "wl", timeout=900 if tier == "quick" else 3300):
            if r is None:
                continue
            total += cnt
            for s in vlib.parse_tagged(r.prints, "STAT"):
                subsets += s[1]
                opt += 1 if s[2] > 0 else 0
                aliasing += 1 if s[3] >= 2049 else 0
            for ln, clauses in vlib.parse_viol(r.prints):
                c = vlib.get_line(tp, ln)
                bad = [s for s in c["subsets"] if s["err"] or s["touched"] != len(s["wl"]) or s["out"] != s["want"]
                       or not set(s["writers"] + s["transposes"]) <= set(s["wl"])]
                series = []
                cur = None
                for m in c["msgs"]:
                    if m["k"] == "SH":
                        cur = m
                    if m["k"] == "BH":
                        series.append({"fi": cur["fi"], "tgt": m["tgt"]})
                skipped_2049 = any(s["tgt"] == 2049 and any(s["fi"] not in b["wl"] for b in bad) for s in series)
                small = {"case": c["case"], "desc": c["desc"], "algo": c["algo"], "q": c["q"], "optimized": c["optimized"], "bsdiff_series": series[:10],
                         "failing_subsets": [{k: s[k] for k in ("wl", "touched", "err", "writers", "transposes", "reads")} for s in bad[:6]], "seed": run.seed}
                for s in small["failing_subsets"]:
                    s["wl"] = s["wl"][:20]
                run.violation({"clauses": clauses, "skipped_series_targets_2049": skipped_2049}, small,
                              "whitelisted application violates %s on case %d (%s, optimized=%s): %s" % (clauses, c["case"], c["desc"], c["optimized"], [(s["wl"][:6], s["err"][:120], s["touched"]) for s in bad[:3]]))
            if total == cnt:
                c = vlib.get_line(tp, 1)
                run.sample({"case": c["case"], "desc": c["desc"], "optimized": c["optimized"], "subsets": [{k: s[k] for k in ("wl", "touched", "writers", "transposes", "reads")} for s in c["subsets"][:4]]})
        run.coverage["traces_validated_against_impl"] = total
        run.coverage["whitelists_applied"] = subsets
        run.coverage["patches_with_bsdiff_series"] = opt
        run.coverage["patches_with_target_index_2049"] = aliasing
        vlib.log("[tv] %d patches, %d whitelisted applications, %d with bsdiff series, %d with a series targeting index >= 2049" % (total, subsets, opt, aliasing))
        return run.finish()
    finally:
        shutil.rmtree(d, ignore_errors=True)


def replay(path):
    import json
    print(json.dumps(json.load(open(path)), indent=1)[:4000])
    return 0
