"""C13 - messages survive any compression setting; reader checkpoints resume exactly.

MC   spec/Wire.tla: reader offsets, three-state save protocol, byte-granular and block-boundary sources, pop
     between messages, resume of a new reader with discard of Offset - sourceOffset; exhaustive for short streams
     over every placement of block boundaries.
TV   real WriteContext/CompressWire -> ReadContext/DecompressWire round trips for message-size classes x
     {none, gzip, brotli} x qualities; WantSave per a seeded schedule, PopCheckpoint at every boundary, every
     popped checkpoint gob-round-tripped into a new reader. TLC evaluates the property on every session and steps
     Wire.tla along it with the source as logged environment (drift + the design invariants on real sessions).
"""
import os
import shutil

import vlib

PROP = "C13"


def run(tier):
    run = vlib.Run(PROP, tier, "model_checking")
    run.assumptions = [
        "payload equality is decided by SHA-256 digests in the harness (logged as the boolean fact 'ok' per message)",
        "the source checkpoint handed over during a read is inferred from PopCheckpoint, which is called at every boundary",
        "ZSTD has no registered compressor and is not a configuration a stream can be written with",
    ]
    binary = vlib.build_harness()
    d = vlib.scratch("c13-")
    try:
        cfgs = ["MC_Wire_quick.cfg"] + (["MC_Wire_t1.cfg"] if tier == "thorough" else [])
        states = trans = 0
        mc = []
        for cfg in cfgs:
            r = vlib.run_tlc("Wire", cfg, timeout=3300, heap="24g", coverage=(tier == "thorough" and cfg == cfgs[0]))
            if not vlib.require_clean(r, "MC " + cfg):
                raise vlib.Inconclusive("MC %s: %s violated in the model\n%s" % (cfg, r.violated, r.out[-3000:]))
            states += r.distinct
            trans += r.generated
            mc.append({"cfg": cfg, **r.summary()})
            vlib.log("[mc] %s: %d distinct, %d generated, %.1fs" % (cfg, r.distinct, r.generated, r.wall))
        run.coverage.update({"states": states, "transitions": trans, "mc_runs": mc})

        ncases = 75 if tier == "quick" else 1500
        nproc = vlib.NCPU
        per = (ncases + nproc - 1) // nproc
        jobs = []
        crashed = []
        for k in range(nproc):
            def job(k=k):
                tp = os.path.join(d, "wire-%d.ndjson" % k)
                p = vlib.run_driver(binary, ["c13", "-n", per, "-first", k * per, "-out", tp], timeout=3300, check=False)
                if p.returncode != 0:
                    crashed.append("driver c13 -first %d exited %d: %s" % (k * per, p.returncode, (p.stderr or "")[:400]))
                r = vlib.run_tlc("Trace_Wire", "Trace_Wire.cfg", data={"trace.ndjson": tp}, workers=2, timeout=3300, heap="4g")
                return tp, r
            jobs.append(job)
        sessions = resumed = events = ndrift = 0
        combos = set()
        for tp, r in vlib.parallel(jobs, nproc=8):
            if r.error or not r.ok:
                if r.violated == "SpecInvariants":
                    run.note("a design invariant of Wire.tla fails along a real session: %s" % r.out[-800:])
                else:
                    raise vlib.Inconclusive("TV wire: TLC failed: %s\n%s" % (r.error or r.violated, r.out[-2500:]))
            n = vlib.count_lines(tp)
            stats = vlib.parse_tagged(r.prints, "STAT")
            if len(stats) != n and r.ok:
                raise vlib.Inconclusive("TV wire: %d sessions recorded, %d stepped to the end" % (n, len(stats)))
            sessions += n
            resumed += sum(s[3] for s in stats)
            events += sum(s[1] for s in stats)
            drift = vlib.parse_tagged(r.prints, "DRIFT")
            if drift:
                ndrift += len(drift)
                if ndrift == len(drift):
                    c = vlib.get_line(tp, drift[0][0])
                    run.note("spec drift: Wire.tla cannot follow a real reader session, e.g. case %d %s-q%d start=%d events=%s" % (c["case"], c["algo"], c["q"], c["start"], c["events"][:10]))
            for row in vlib.read_ndjson(tp):
                combos.add("%s-q%d" % (row["algo"], row["q"]))
            for ln, clauses in vlib.parse_viol(r.prints):
                c = vlib.get_line(tp, ln)
                small = {k: c[k] for k in ("case", "algo", "q", "mlens", "start", "cpoff", "cpsrc", "desc", "bytes")}
                small["events"] = c["events"][:40]
                small["seed"] = run.seed
                at_end = c["start"] == len(c["mlens"]) and c["start"] > 0
                run.violation({"clauses": clauses, "resumed": c["start"] > 0, "checkpoint_after_last_message": at_end, "compressed": c["algo"] != "NONE"}, small,
                              "real wire reader violates %s: case %d (%s, %s-q%d), %s, messages %s"
                              % (clauses, c["case"], c["desc"], c["algo"], c["q"],
                                 ("new reader resumed from the checkpoint popped after %d messages" % c["start"]) if c["start"] else "first reader", c["mlens"][:12]))
            if sessions == n:
                c = vlib.get_line(tp, 1)
                run.sample({"case": c["case"], "algo": c["algo"], "q": c["q"], "mlens": c["mlens"][:10], "events": c["events"][:9]})
        if crashed and not run.violations:
            # the process running the real code died (e.g. fatal out-of-memory in the reader): no verdict
            raise vlib.Inconclusive("; ".join(crashed)[:1500])
        for c in crashed:
            run.note("driver died while executing the real reader (sessions recorded before that were validated): " + c[:300])
        run.coverage["traces_validated_against_impl"] = sessions
        run.coverage["resumed_sessions"] = resumed
        run.coverage["events_stepped"] = events
        run.coverage["compression_settings_seen"] = sorted(combos)
        run.coverage["spec_drift"] = ndrift
        vlib.log("[tv] %d real reader sessions (%d resumed from checkpoints), %d events, %d compression settings, drift %d"
                 % (sessions, resumed, events, len(combos), ndrift))
        return run.finish()
    finally:
        shutil.rmtree(d, ignore_errors=True)


def replay(path):
    import json
    print(json.dumps(json.load(open(path)), indent=1)[:4000])
    return 0
