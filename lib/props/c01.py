"""C01 - diff then apply reproduces the new build exactly.

MC   spec/PatchApply.tla: for every valid rsync op stream (anything the abstract layer accepts, not only what
     today's differ emits) over all small (olds,new), the patcher's per-file procedure + fresh bowl yields new.
TV   generated build pairs (size classes around block multiples, renames, duplications, aligned prefixes and
     suffixes, shared blocks, edits, inserts, deletes, swaps, weak-hash twins, > 4 MiB runs, empty files,
     symlinks, empty dirs) x compression settings: real WritePatch -> independent decoder + digest facts ->
     real patcher + fresh bowl -> snapshots. TLC evaluates framing, reconstruction and tree equality.
"""
import shutil

import pairs
import vlib

PROP = "C01"


def run(tier):
    run = vlib.Run(PROP, tier, "model_checking")
    run.assumptions = [
        "SHA-256 digests stand for byte equality (op payloads, file contents)",
        "file modes are recorded but not compared (the property speaks of content, kinds and link targets)",
        "ZSTD has no registered compressor: not a setting a patch can be written with",
    ]
    binary = vlib.build_harness()
    d = vlib.scratch("c01-")
    try:
        cfgs = ["MC_PatchApply_quick.cfg"] + (["MC_PatchApply_t1.cfg", "MC_PatchApply_t2.cfg"] if tier == "thorough" else [])
        states = trans = 0
        mc = []
        for cfg in cfgs:
            r = vlib.run_tlc("PatchApply", cfg, timeout=600 if tier == "quick" else 3300, heap="24g")
            if not vlib.require_clean(r, "MC " + cfg):
                raise vlib.Inconclusive("MC %s: %s violated in the model\n%s" % (cfg, r.violated, r.out[-3000:]))
            states += r.distinct
            trans += r.generated
            mc.append({"cfg": cfg, **r.summary()})
            vlib.log("[mc] %s: %d distinct, %d generated, %.1fs" % (cfg, r.distinct, r.generated, r.wall))
        run.coverage.update({"states": states, "transitions": trans, "mc_runs": mc})

        plans = [(["c01", "-ncomp", "2"], 64 if tier == "quick" else 2400, 0, "pairs")]
        if tier == "thorough":
            plans.append((["c01", "-ncomp", "0", "-big=false"], 32, 100000, "allcomp"))   # every registered algorithm x quality
        else:
            plans.append((["c01", "-ncomp", "0", "-big=false"], 2, 100000, "allcomp"))
        total = 0
        tags = {}
        combos = set()
        for args, n, first0, prefix in plans:
            for tp, cnt, r in pairs.run_shards(binary, d, args, n, "Trace_Apply", "Trace_Apply.cfg", prefix, first0=first0,
                                               timeout=900 if tier == "quick" else 3300):
                if r is None:
                    continue
                total += cnt
                for row in vlib.read_ndjson(tp):
                    combos.add("%s-q%d" % (row["algo"], row["q"]))
                    for t in row["desc"].split(","):
                        tags[t] = tags.get(t, 0) + 1
                for o in vlib.parse_tagged(r.prints, "OTHER")[:3]:
                    c = vlib.get_line(tp, o[0])
                    run.note("patch-level clause of another property fails on case %d (%s): %s" % (c["case"], c["desc"], o[1:]))
                for ln, clauses in vlib.parse_viol(r.prints):
                    c = vlib.get_line(tp, ln)
                    small = {k: c[k] for k in ("case", "desc", "algo", "q", "tsizes", "ssizes", "tpaths", "spaths", "differr", "decerr", "applyerr", "prepopulated")}
                    small["tree_diff"] = sorted(set(c["out"]) ^ set(c["new"]))[:20]
                    small["msgs"] = [{k: m[k] for k in ("k", "ty", "fi", "f", "i", "n", "len", "pos")} for m in c["msgs"][:60]]
                    small["seed"] = run.seed
                    run.violation({"clauses": clauses}, small,
                                  "diff+apply violates %s on pair %d (%s) with %s-q%d: %s %s" % (clauses, c["case"], c["desc"], c["algo"], c["q"], c["applyerr"][:200], small["tree_diff"][:6]))
                if total == cnt:
                    c = vlib.get_line(tp, 1)
                    run.sample({"case": c["case"], "desc": c["desc"], "algo": c["algo"], "q": c["q"], "ssizes": c["ssizes"], "msgs": c["msgs"][:4], "new": c["new"][:4]})
        run.coverage["traces_validated_against_impl"] = total
        run.coverage["relation_tags_seen"] = tags
        run.coverage["compression_settings_seen"] = sorted(combos)
        vlib.log("[tv] %d (pair, compression) applications validated, %d relation kinds, %d compression settings" % (total, len(tags), len(combos)))
        return run.finish()
    finally:
        shutil.rmtree(d, ignore_errors=True)


def replay(path):
    import json
    print(json.dumps(json.load(open(path)), indent=1)[:4000])
    return 0
