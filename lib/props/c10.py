"""C10 - malformed patch / signature / overlay streams yield an error, never a crash.

MC   spec/Malformed.tla: the readers as machines over WIRE-LEVEL messages (protobuf field -> value; a message is
     decoded as whatever type the reader expects next), one action per ReadMessage of patcher.Resume / skipFile /
     processRsync / processBsdiff, rediff analyzePatch + Optimize, ReadSignature + ComputeHashInfo, overlay Patch;
     every subscript taken with a value from the stream is an explicit precondition ending in "panic" when the
     code has no check (Checked = FALSE reproduces the five sites found in the original code - the check asserts
     that TLC still finds them, so NoPanic is not vacuous). Explored: all single (thorough: all double) mutations
     - every field to {-1, 0, 1, n-1, n, huge, the other kinds' codes}, drop, duplicate - of a plain and an
     optimized patch, a signature, an overlay stream, x every truncation point (clean EOF / inside a frame).
     Invariants: NoPanic, TypeOK; action property Progress (every step consumes a message, changes phase or ends).
RP   every input TLC explored (one EDGE line per terminal state) is serialised with the real wire.WriteContext
     (uncompressed and gzip/brotli) and run through the real readers under recover() and a watchdog.
TV   every execution - the model's inputs, seeded multi-mutations with extreme values (MaxInt64, MinInt64, 2^62..)
     over universes whose valid streams come from the real differ/optimizer/signer, and every byte truncation of
     the valid streams, and the applier RESUMED from gob round-tripped checkpoints on streams truncated at or behind
     the checkpoint's source offset - is one trace line; TLC runs the machine on exactly that message table:
       VIOL  the real reader panicked, hung or killed the process
       DRIFT the model predicts the other of error/completed (reported as a note; not a C10 violation)

Mutants (tools/mutcheck): revert_c10_* (each of the four bounds-check fixes), c10_skip_loop_ignores_eof.
"""
import json
import os
import shutil

import vlib

PROP = "C10"


def drive(run, binary, d, tag, args, total=None, timeout=1500):
    """Runs the c10 driver over executions [first, first+n); restarts it behind an execution that killed the
    process (the marker names it: a 'crash' line is synthesised); stops at an execution that hung (rc 9: the line
    is in the trace)."""
    outs = []
    marker = os.path.join(d, "marker-%s" % tag)
    first, n = (total if total else (0, -1))
    end = first + n if n >= 0 else None
    extra = os.path.join(d, "%s-crash.ndjson" % tag)
    restarts = 0
    while True:
        outp = os.path.join(d, "%s-%d.ndjson" % (tag, len(outs)))
        a = ["c10"] + list(args) + ["-first", first, "-n", (end - first) if end is not None else -1, "-marker", marker, "-out", outp]
        p = vlib.run_driver(binary, a, timeout=timeout, check=False)
        outs.append(outp)
        if p.returncode == 0:
            break
        try:
            m = json.loads(open(marker).read() or "null")
        except Exception:
            m = None
        if p.returncode in (3, 4) or not m:
            raise vlib.Inconclusive("c10 driver failed (rc=%d): %s" % (p.returncode, (p.stderr or "")[-800:]))
        if p.returncode == 9:
            # a hung execution is in the trace; the rest of this shard is not explored (one watchdog period per
            # hang would make the check itself crawl) - the verdict is a violation anyway
            vlib.log("[c10] shard %s: execution %s hung; shard stopped there" % (tag, m.get("id")))
            break
        else:
            stderr = p.stderr or ""
            i = max(stderr.find("panic:"), stderr.find("fatal error:"))
            m["outcome"] = "crash"
            m["err"] = (stderr[i:] if i >= 0 else stderr)[:300]
            site = ""
            for ln in (stderr[i:] if i >= 0 else "").splitlines():
                if ".go:" in ln and ("/repo/" in ln or "itchio/wharf" in ln) and "vdriver" not in ln:
                    site = ln.strip().split(" ")[0].replace(vlib.REPO, "").lstrip("/")
                    break
            m["site"] = site
            with open(extra, "a") as fh:
                fh.write(json.dumps(m) + "\n")
        restarts += 1
        if restarts > 60:
            raise vlib.Inconclusive("c10 driver restarted more than 60 times")
        first = m["id"] + 1
        if end is not None and first >= end:
            break
    if os.path.exists(extra):
        outs.append(extra)
    return outs


def validate(tp):
    n = vlib.count_lines(tp)
    if n == 0:
        return tp, 0, None
    r = vlib.run_tlc("Trace_Malformed", "Trace_Malformed.cfg", data={"trace.ndjson": tp}, workers=2, timeout=1500, heap="6g")
    if r.error or not r.ok:
        raise vlib.Inconclusive("Trace_Malformed failed on %s: %s\n%s" % (tp, r.error or r.violated, r.out[-2500:]))
    fin = set(x[0] for x in vlib.parse_tagged(r.prints, "FIN"))
    if len(fin) < n:
        raise vlib.Inconclusive("Trace_Malformed: the machine did not terminate on %d of %d lines of %s" % (n - len(fin), n, tp))
    return tp, n, r


def run(tier):
    run = vlib.Run(PROP, tier, "model_checking")
    run.assumptions = [
        "as the property says: the two containers of a stream are well-formed and no message declares a length beyond the stream",
        "a reader that has not returned after the watchdog period (60 s; a valid stream takes milliseconds) counts as hung",
        "values beyond 2^30 in magnitude are recorded as 'huge'; the model never multiplies them",
    ]
    binary = vlib.build_harness()
    d = vlib.scratch("c10-")
    try:
        # ---------------- MC
        states = trans = 0
        mc = []
        defs = {} if tier == "quick" else {"MaxMut": "2", "CutMut": "1"}
        r = vlib.run_tlc("MC_Malformed", "MC_Malformed_quick.cfg", timeout=600 if tier == "quick" else 3000, heap="16g", defines=defs,
                         coverage=(tier == "thorough" and False))
        if not vlib.require_clean(r, "MC Malformed"):
            raise vlib.Inconclusive("MC Malformed %s: %s violated in the model\n%s" % (defs, r.violated, r.out[-3000:]))
        states += r.distinct
        trans += r.generated
        mc.append({"cfg": "MC_Malformed_quick.cfg", "defines": defs, **r.summary()})
        vlib.log("[mc] Malformed %s: %d distinct, %d generated, %.1fs" % (defs, r.distinct, r.generated, r.wall))
        # the model of the code as found must reach its unchecked subscripts (NoPanic is not vacuous)
        r0 = vlib.run_tlc("MC_Malformed", "MC_Malformed_quick.cfg", timeout=600, heap="8g", defines={"Checked": "FALSE"})
        if r0.error or r0.violated != "NoPanic":
            raise vlib.Inconclusive("MC Malformed with Checked=FALSE should violate NoPanic, got %s %s" % (r0.violated, r0.error))
        mc.append({"cfg": "MC_Malformed_quick.cfg", "defines": {"Checked": "FALSE"}, "expected_violation": "NoPanic", **r0.summary()})
        run.coverage.update({"states": states, "transitions": trans, "mc_runs": mc})

        # ---------------- RP: the inputs TLC explored, on the real readers
        r = vlib.run_tlc("MC_Malformed", "MC_Malformed_edges.cfg", timeout=900, workers=1, heap="8g")
        if r.error or not r.ok:
            raise vlib.Inconclusive("edge generation failed: %s\n%s" % (r.error or r.violated, r.out[-2000:]))
        edges = [p for p in r.prints if p.startswith('<<"EDGE"')]
        if len(edges) < 3000:
            raise vlib.Inconclusive("only %d model inputs emitted" % len(edges))
        nsh = vlib.NCPU
        jobs = []
        for k in range(nsh):
            ep = os.path.join(d, "edges-%d.txt" % k)
            with open(ep, "w") as f:
                f.write("\n".join(edges[k::nsh]) + "\n")
            jobs.append(lambda ep=ep, k=k: [validate(tp) for tp in drive(run, binary, d, "rp%d" % k, ["-mode", "replay", "-cases", ep])])
        # ---------------- TV: generated multi-mutations, byte truncations
        ngen = 160 if tier == "quick" else 6000
        for k in range(nsh):
            jobs.append(lambda k=k: [validate(tp) for tp in drive(run, binary, d, "gen%d" % k, ["-mode", "gen", "-cases-n", ngen, "-salt", k, "-universes", 2 if tier == "quick" else 4])])
        targs = ["-mode", "trunc", "-universes", 1 if tier == "quick" else 6] + (["-dense"] if tier == "thorough" else [])
        p = vlib.run_driver(binary, ["c10"] + targs + ["-n", 0, "-out", os.path.join(d, "count.ndjson")], timeout=600)
        total = int([ln for ln in p.stdout.splitlines() if ln.startswith("TOTAL ")][-1].split()[1])
        per = (total + nsh - 1) // nsh
        for k in range(nsh):
            jobs.append(lambda k=k: [validate(tp) for tp in drive(run, binary, d, "tr%d" % k, targs, total=(k * per, min(per, total - k * per)))])

        # ---------------- TV: the applier resumed from a checkpoint on a stream truncated in the meantime
        jobs.append(lambda: [validate(tp) for tp in drive(run, binary, d, "resume", ["-mode", "resume", "-universes", 3 if tier == "quick" else 8])])

        counts = {}
        nlines = 0
        drift = {}
        groups = {}
        sample_done = False
        for res in vlib.parallel(jobs, nproc=vlib.NCPU):
            for tp, n, r in res:
                if not n:
                    continue
                nlines += n
                for ln in vlib.read_ndjson(tp):
                    key = "%s/%s/%s" % (ln["src"], ln["cons"], ln["outcome"])
                    counts[key] = counts.get(key, 0) + 1
                for x in vlib.parse_tagged(r.prints, "OTHER"):
                    c = vlib.get_line(tp, x[0])
                    raise vlib.Inconclusive("the model (Checked) reaches an unchecked subscript on a recorded input: %s %s" % (x, json.dumps(c)[:600]))
                for x in vlib.parse_tagged(r.prints, "DRIFT"):
                    c = vlib.get_line(tp, x[0])
                    k = (c["cons"], x[1], c["outcome"], x[2])
                    drift.setdefault(k, []).append(c)
                seen = set()
                for ln, clauses in vlib.parse_viol(r.prints):
                    if ln in seen:
                        continue
                    seen.add(ln)
                    c = vlib.get_line(tp, ln)
                    g = (c["cons"], c["outcome"], c["site"])
                    groups.setdefault(g, []).append(c)
                if not sample_done:
                    c = vlib.get_line(tp, 1)
                    run.sample({k: c[k] for k in ("src", "cons", "variant", "framing", "base", "cutk", "how", "outcome", "err", "desc")})
                    sample_done = True
        for g, cs in sorted(groups.items()):
            c = min(cs, key=lambda c: len(c["msgs"]))
            small = {k: c[k] for k in c if k not in ("pred",)}
            small["seed"] = run.seed
            small["occurrences"] = len(cs)
            run.violation({"cons": g[0], "outcome": g[1], "site": g[2]}, small,
                          "real %s reader: %s at %s on a malformed stream (%d executions; e.g. %s %s, base %s, cut %s/%s, framing %s): %s"
                          % (g[0], g[1], g[2] or "?", len(cs), c["src"], c["desc"] or "model input", c["base"], c["cutk"], c["how"], c["framing"], c["err"][:200]))
        if drift:
            k, cs = sorted(drift.items(), key=lambda kv: -len(kv[1]))[0]
            run.note("spec drift: Malformed.tla predicts %s where the real %s reader gives %s (%s) on %d executions in %d classes, e.g. %s"
                     % (k[1], k[0], k[2], k[3], sum(len(v) for v in drift.values()), len(drift), json.dumps({x: cs[0][x] for x in ("desc", "base", "cutk", "how", "framing", "err")})[:500]))
        run.coverage["model_inputs_replayed"] = len(edges)
        run.coverage["traces_validated_against_impl"] = nlines
        run.coverage["executions_by_source_reader_outcome"] = dict(sorted(counts.items()))
        run.coverage["spec_drift"] = sum(len(v) for v in drift.values())
        vlib.log("[rp+tv] %d model inputs, %d executions of the real readers validated, drift %d" % (len(edges), nlines, run.coverage["spec_drift"]))
        if nlines < 10000:
            raise vlib.Inconclusive("only %d executions recorded" % nlines)
        return run.finish()
    finally:
        shutil.rmtree(d, ignore_errors=True)


def replay(path):
    """Re-executes the recorded stream on the current tree."""
    rp = json.load(open(path))
    case = rp["case"]
    binary = vlib.build_harness()
    d = vlib.scratch("c10r-")
    try:
        os.environ["VERIF_SEED"] = str(case.get("seed", 1))
        uni = case.get("uni", "model")
        nuni = 0 if uni == "model" else 8
        args = ["c10", "-mode", "one", "-line", path, "-universes", nuni, "-out", os.path.join(d, "one.ndjson")]
        if case.get("src") == "gen":
            pass
        p = vlib.run_driver(binary, args, timeout=300, check=False)
        bad = p.returncode != 0
        for ln in vlib.read_ndjson(os.path.join(d, "one.ndjson")):
            print("%s %s %s: %s %s %s" % (ln["cons"], ln["variant"], ln["framing"], ln["outcome"], ln["site"], ln["err"][:200]))
            if ln["outcome"] not in ("error", "done"):
                bad = True
        if p.returncode != 0:
            print((p.stderr or "")[-1500:])
        return 1 if bad else 0
    finally:
        shutil.rmtree(d, ignore_errors=True)
