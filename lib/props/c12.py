"""C12 - a bsdiff series applied to the old file yields the new file.

MC   spec/LruFile.tla (chunked LRU read cache), spec/BsdiffPipe.tla (dispatcher/worker/collector pipeline of
     the scanner: forwarding in block order, no wedge, completion under fairness).
RP   one witness walk per transition of LruFile replayed on the real lrufile.New(chunk, entries).
TV   the real bsdiff.Do on every small (old,new) x partitions and on random large pairs (periodic / high
     entropy / edits / empty / shorter than the partition count), the real applier with the old offset
     logged after every control and resumption from saved offsets; TLC decides with the abstract automaton
     spec/BsdiffCtl.tla (verbatim bytes at small scale, digest facts at large scale).
A crash of the real differ (it panics inside goroutines, which cannot be recovered in-process) kills the
driver: the orchestrator names the case from a marker file, reports it, and restarts after it.
"""
import json
import os
import shutil

import vlib

PROP = "C12"
TO = 900


def drive_with_restarts(run, binary, base_args, marker, out_prefix, max_restarts, what):
    """Runs a marker-writing driver; after a crash records the crashing case and restarts behind it.
    Returns the list of trace files written (one per process life)."""
    outs = []
    first = None
    crashes = 0
    while True:
        outp = "%s-%d.ndjson" % (out_prefix, len(outs))
        args = list(base_args) + ["-marker", marker, "-out", outp]
        if first is not None:
            args += ["-first", first]
        p = vlib.run_driver(binary, args, timeout=TO, check=False)
        outs.append(outp)
        if p.returncode == 0:
            return outs, crashes
        try:
            m = json.loads(open(marker).read() or "null")
        except Exception:
            m = None
        if not m:
            raise vlib.Inconclusive("%s driver died without naming a case: rc=%d %s" % (what, p.returncode, (p.stderr or "")[:800]))
        crashes += 1
        stderr = p.stderr or ""
        panic = stderr[stderr.find("panic:"):][:300] if "panic:" in stderr else stderr[:300]
        shape = {"crash": True, "old_empty": (m.get("old") == [] or m.get("oldlen") == 0),
                 "new_shorter_than_partitions": bool(("new" in m and len(m["new"]) < max(1, m["parts"])) or ("newlen" in m and m["newlen"] < max(1, m["parts"]))),
                 "site": "gosaca" if "gosaca" in stderr else ("divide" if "divide by zero" in stderr else "other")}
        run.violation(shape, {"case": m, "panic": panic, "kind": what},
                      "real bsdiff.DiffContext.Do crashed the process (%s) on %s" % (panic.splitlines()[0] if panic else "rc=%d" % p.returncode, m))
        if crashes > max_restarts:
            raise vlib.Inconclusive("%s: more than %d crashes of the real differ, giving up enumerating" % (what, max_restarts))
        first = m["id"] + 1


def run(tier):
    global TO
    TO = 600 if tier == "quick" else 3300
    run = vlib.Run(PROP, tier, "model_checking")
    run.assumptions = [
        "SHA-256 digests stand for byte equality in the large-pair facts",
        "the suffix sorter (gosaca) and golang-lru are dependencies; their behaviour enters through the real executions only",
    ]
    binary = vlib.build_harness()
    d = vlib.scratch("c12-")
    try:
        states = trans = 0
        mc = []
        mcs = [("LruFile", "MC_LruFile_quick.cfg"), ("BsdiffPipe", "MC_BsdiffPipe_quick.cfg")]
        if tier == "thorough":
            mcs += [("LruFile", "MC_LruFile_t1.cfg"), ("BsdiffPipe", "MC_BsdiffPipe_t1.cfg")]
        for mod, cfg in mcs:
            r = vlib.run_tlc(mod, cfg, timeout=TO, heap="16g")
            if not vlib.require_clean(r, "MC " + cfg):
                raise vlib.Inconclusive("MC %s: %s violated in the model\n%s" % (cfg, r.violated, r.out[-3000:]))
            states += r.distinct
            trans += r.generated
            mc.append({"cfg": cfg, **r.summary()})
            vlib.log("[mc] %s: %d distinct, %d generated, %.1fs" % (cfg, r.distinct, r.generated, r.wall))
        run.coverage.update({"states": states, "transitions": trans, "mc_runs": mc})

        # ---------------- RP: cache walks
        total = 0
        # (edges: one witness walk per transition of the model's state graph; walks: EVERY walk of 5 steps at a tiny
        #  geometry, because a defect of the real cache has states the model does not have)
        edge_cfgs = [("MC_LruFile_edges.cfg", 2, 2), ("MC_LruFile_walks.cfg", 1, 2), ("MC_LruFile_reset.cfg", 1, 2)] + ([("MC_LruFile_edges2.cfg", 1, 3), ("MC_LruFile_walks2.cfg", 1, 3)] if tier == "thorough" else [])
        for cfg, cs, ne in edge_cfgs:
            r = vlib.run_tlc("LruFile", cfg, timeout=TO, workers=1, heap="8g")
            if r.error or not r.ok:
                raise vlib.Inconclusive("edge generation failed: %s\n%s" % (r.error or r.violated, r.out[-2000:]))
            ep = os.path.join(d, "lru-%s.txt" % cfg)
            open(ep, "w").write("\n".join(p for p in r.prints if p.startswith('<<"EDGE"')) + "\n")
            tp = os.path.join(d, "lru-%s.ndjson" % cfg)
            vlib.run_driver(binary, ["c12-lru", "-edges", ep, "-out", tp, "-cs", cs, "-ne", ne], timeout=TO)
            n = vlib.count_lines(tp)
            res, viols = vlib.validate_trace("Trace_LruFile", "Trace_LruFile.cfg", tp, n, "TV lru", timeout=TO)
            drift = vlib.parse_tagged(res.prints, "DRIFT")
            total += n
            run.coverage["lru_%s_cs%d_ne%d" % ("all_walks" if "walks" in cfg else "all_walks_with_resets" if "reset" in cfg else "witness_walks", cs, ne)] = n
            run.coverage["spec_drift"] = run.coverage.get("spec_drift", 0) + len(drift)
            if drift:
                run.note("spec drift: LruFile.tla predicts other results/counters than the real cache, e.g. %s" % json.dumps(vlib.get_line(tp, drift[0][0]))[:500])
            for ln, clauses in viols:
                c = vlib.get_line(tp, ln)
                run.violation({"component": "lrufile", "clauses": clauses}, c,
                              "real lrufile(chunk=%d, entries=%d) violates %s on file %s, steps %s" % (cs, ne, clauses, c["file"], [(s["op"], s["a"], s["bytes"], s["eof"]) for s in c["steps"]]))
            vlib.log("[rp] %s: %d cache walks replayed, drift %d" % (cfg, n, len(drift)))

        # ---------------- TV: small pairs, verbatim
        if tier == "quick":
            small_sets = [["-alpha", "3", "-maxlen", "3", "-parts", "0,1,2,3,5"], ["-alpha", "2", "-maxlen", "5", "-parts", "0,2,4"]]
        else:
            small_sets = [["-alpha", "3", "-maxlen", "4", "-parts", "0,1,2,3,5,16"], ["-alpha", "2", "-maxlen", "7", "-parts", "0,2,3,7"]]
        nsmall = 0
        ndrift = 0
        for si, sargs in enumerate(small_sets):
            jobs = []
            stride = 8
            for ph in range(stride):
                def job(ph=ph, sargs=sargs, si=si):
                    return drive_with_restarts(run, binary, ["c12-small"] + sargs + ["-stride", stride, "-phase", ph],
                                               os.path.join(d, "marker-s%d-%d" % (si, ph)), os.path.join(d, "small-%d-%d" % (si, ph)), 400, "small")
                jobs.append(job)
            for outs, crashes in vlib.parallel(jobs, nproc=8):
                for tp in outs:
                    n = vlib.count_lines(tp)
                    if n == 0:
                        continue
                    res, viols = vlib.validate_trace("Trace_Bsdiff", "Trace_Bsdiff.cfg", tp, n, "TV bsdiff small", timeout=TO)
                    nsmall += n
                    ndrift += len(vlib.parse_tagged(res.prints, "DRIFT"))
                    for ln, clauses in viols:
                        c = vlib.get_line(tp, ln)
                        run.violation({"component": "bsdiff", "clauses": clauses, "scale": "small"}, c,
                                      "real bsdiff violates %s for old=%s new=%s partitions=%d: controls %s" % (clauses, c["old"], c["new"], c["parts"], c["ctl"]))
                    if nsmall == n:
                        run.sample({"small_pair": vlib.get_line(tp, min(n, 40))})
        run.coverage["small_pairs"] = nsmall
        vlib.log("[tv] %d small (old,new,partitions) triples validated" % nsmall)

        # ---------------- TV: large pairs, facts
        nlarge = 48 if tier == "quick" else 640
        per = (nlarge + 7) // 8
        jobs = []
        for k in range(8):
            def job(k=k):
                return drive_large(run, binary, d, k, per)
            jobs.append(job)
        nl = 0
        nctl = 0
        for outs in vlib.parallel(jobs, nproc=8):
            for tp in outs:
                n = vlib.count_lines(tp)
                if n == 0:
                    continue
                res, viols = vlib.validate_trace("Trace_BsdiffFacts", "Trace_BsdiffFacts.cfg", tp, n, "TV bsdiff large", timeout=TO)
                nl += n
                nctl += sum(s[1] for s in vlib.parse_tagged(res.prints, "STAT"))
                ndrift += len(vlib.parse_tagged(res.prints, "DRIFT"))
                for ln, clauses in viols:
                    c = vlib.get_line(tp, ln)
                    small = {k: c[k] for k in ("case", "oldlen", "newlen", "parts", "conc", "desc", "differr", "applyok", "outlen", "resumes")}
                    small["ctl"] = [{k: x[k] for k in ("addlen", "copylen", "seek", "eof", "off", "pos")} for x in c["ctl"][:30]]
                    small["seed"] = run.seed
                    run.violation({"component": "bsdiff", "clauses": clauses, "scale": "large"}, small,
                                  "real bsdiff violates %s on large case %d (%s, old %d bytes, new %d bytes, partitions %d)" % (clauses, c["case"], c["desc"], c["oldlen"], c["newlen"], c["parts"]))
                if nl == n:
                    c = vlib.get_line(tp, 1)
                    run.sample({"large_pair": {k: c[k] for k in ("case", "oldlen", "newlen", "parts", "desc")}, "ctl": c["ctl"][:3]})
        run.coverage["large_pairs"] = nl
        run.coverage["large_controls_checked"] = nctl
        run.coverage["spec_drift"] = run.coverage.get("spec_drift", 0) + ndrift
        run.coverage["traces_validated_against_impl"] = total + nsmall + nl
        if ndrift:
            run.note("spec drift: the real applier's old-offset trajectory differs from BsdiffCtl's on %d series" % ndrift)
        vlib.log("[tv] %d large pairs (%d controls) validated, applier drift %d" % (nl, nctl, ndrift))
        return run.finish()
    finally:
        shutil.rmtree(d, ignore_errors=True)


def drive_large(run, binary, d, k, per):
    outs = []
    first, end = k * per, (k + 1) * per
    marker = os.path.join(d, "marker-l%d" % k)
    crashes = 0
    while first < end:
        outp = os.path.join(d, "large-%d-%d.ndjson" % (k, len(outs)))
        p = vlib.run_driver(binary, ["c12-large", "-n", end - first, "-first", first, "-marker", marker, "-out", outp], timeout=TO, check=False)
        outs.append(outp)
        if p.returncode == 0:
            break
        try:
            m = json.loads(open(marker).read() or "null")
        except Exception:
            m = None
        if not m:
            raise vlib.Inconclusive("large driver died without naming a case: rc=%d %s" % (p.returncode, (p.stderr or "")[:800]))
        stderr = p.stderr or ""
        panic = stderr[stderr.find("panic:"):][:300] if "panic:" in stderr else stderr[:300]
        shape = {"crash": True, "old_empty": m.get("oldlen") == 0, "new_shorter_than_partitions": m.get("newlen", 0) < max(1, m.get("parts", 0)),
                 "site": "gosaca" if "gosaca" in stderr else ("divide" if "divide by zero" in stderr else "other")}
        run.violation(shape, {"case": m, "panic": panic, "kind": "large", "seed": run.seed},
                      "real bsdiff.DiffContext.Do crashed the process (%s) on %s" % (panic.splitlines()[0] if panic else "rc=%d" % p.returncode, m))
        crashes += 1
        if crashes > 50:
            raise vlib.Inconclusive("large: more than 50 crashes of the real differ")
        first = m["id"] + 1
    return outs


def replay(path):
    print(json.dumps(json.load(open(path)), indent=1)[:4000])
    return 0
