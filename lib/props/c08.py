"""C08 - data already present in the old build is not sent again.

MC   spec/MCFresh.tla (extends the literal transcription WsyncDiff.tla) under idealised entropy (every old byte a
     distinct symbol, every introduced byte a fresh symbol): ALL edit scripts of up to K edits (overwrite /
     insert / delete at every offset) on a file of several blocks; invariants: fresh <= introduced + (2k+2)*BS,
     fresh + reused = |new|, identical => no data byte.
TV   real WritePatch on builds of high-entropy content related by logged edit scripts, renames, duplications;
     patch decoded independently; TLC checks the per-file bound, zero fresh bytes for content-equal files,
     and that the differ's counters equal the sums over the patch and add up to the size of the new build.
"""
import shutil

import pairs
import vlib

PROP = "C08"


def run(tier):
    run = vlib.Run(PROP, tier, "model_checking")
    run.assumptions = [
        "the bound is claimed for high-entropy content only (seeded random bytes), as the property states",
        "drift between WsyncDiff.tla and the real differ is measured by ./check C11 (zero drift there carries the model result to the code)",
    ]
    binary = vlib.build_harness()
    d = vlib.scratch("c08-")
    try:
        cfgs = ["MC_Fresh_quick.cfg"] + (["MC_Fresh_t1.cfg"] if tier == "thorough" else [])
        states = trans = 0
        mc = []
        for cfg in cfgs:
            r = vlib.run_tlc("MCFresh", cfg, timeout=800 if tier == "quick" else 3300, heap="24g")
            if not vlib.require_clean(r, "MC " + cfg):
                raise vlib.Inconclusive("MC %s: %s violated in the model\n%s" % (cfg, r.violated, r.out[-3000:]))
            states += r.distinct
            trans += r.generated
            mc.append({"cfg": cfg, **r.summary()})
            vlib.log("[mc] %s: %d distinct, %d generated, %.1fs" % (cfg, r.distinct, r.generated, r.wall))
        run.coverage.update({"states": states, "transitions": trans, "mc_runs": mc})
        n = 160 if tier == "quick" else 3200
        total = files = edited = 0
        minslack = None
        for tp, cnt, r in pairs.run_shards(binary, d, ["c08"], n, "Trace_Fresh", "Trace_Fresh.cfg", "fresh", timeout=900 if tier == "quick" else 3300):
            if r is None:
                continue
            total += cnt
            for s in vlib.parse_tagged(r.prints, "STAT"):
                files += s[1]
                edited += s[2]
            for row in vlib.read_ndjson(tp):
                for f in row["files"]:
                    if f["k"] > 0:
                        sl = f["introduced"] + (2 * f["k"] + 2) * 65536 - f["fresh"]
                        minslack = sl if minslack is None else min(minslack, sl)
            for ln, clauses in vlib.parse_viol(r.prints):
                c = vlib.get_line(tp, ln)
                bad = [f for f in c["files"] if f["fresh"] > f["introduced"] + (2 * f["k"] + 2) * 65536 or (f["k"] == 0 and f["from"] and f["fresh"]) or f["fresh"] + f["reused"] != f["size"]]
                run.violation({"clauses": clauses}, {"case": c["case"], "desc": c["desc"], "seed": run.seed, "offending_files": bad[:6],
                                                     "counters": {k: c[k] for k in ("fresh", "reused", "total", "databytes", "rangebytes")}},
                              "real differ violates %s on case %d (%s): %s" % (clauses, c["case"], c["desc"], [(f["path"], f["from"], f["k"], f["introduced"], f["fresh"], f["script"][:80]) for f in bad[:3]]))
            if total == cnt:
                c = vlib.get_line(tp, 1)
                run.sample({"case": c["case"], "desc": c["desc"], "files": c["files"][:3]})
        run.coverage["traces_validated_against_impl"] = total
        run.coverage["new_files_checked"] = files
        run.coverage["edited_files_checked"] = edited
        run.coverage["min_slack_to_bound_bytes"] = minslack
        vlib.log("[tv] %d pairs, %d new files (%d edited), smallest slack to the bound %s bytes" % (total, files, edited, minslack))
        return run.finish()
    finally:
        shutil.rmtree(d, ignore_errors=True)


def replay(path):
    import json
    print(json.dumps(json.load(open(path)), indent=1)[:4000])
    return 0
