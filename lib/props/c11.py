"""C11 - rsync operations always reconstruct the source and stay within the old files.

MC   spec/WsyncDiff.tla (literal transcription of wsync.ComputeDiff), exhaustive over small inputs with a
     scaled-down data-op limit so that splitting and buffer wrap-around happen at every phase.
TV   the real wsync.Context is run on the same small input space (block size is a parameter of the real
     code) and on large random inputs; TLC evaluates the abstract layer (OpStream / Trace_OpFacts) on the ops
     the real code emitted - that is the verdict.
DRIFT the implementation-shaped layer is stepped along a seeded sample of the recorded inputs and must
     predict the real op list exactly (otherwise NOTE: the MC no longer speaks for the code).
"""
import os
import random
import shutil

import vlib

PROP = "C11"

ENUMS = {
    # name: (driver args, quick?)
    "A1": (["-bs", "1,2,3", "-alpha", "2", "-nold", "1", "-maxold", "5", "-maxnew", "6"], True),
    "A3": (["-bs", "2,3", "-alpha", "3", "-nold", "1", "-maxold", "3", "-maxnew", "5", "-prefs", "1"], True),
    "B4": (["-bs", "4", "-alpha", "2", "-nold", "1", "-maxold", "5", "-maxnew", "7", "-prefs", "1"], True),
    "D2": (["-bs", "1,2", "-alpha", "2", "-nold", "2", "-maxold", "3", "-maxnew", "5"], True),
    "E3": (["-bs", "1,2", "-alpha", "2", "-nold", "3", "-maxold", "2", "-maxnew", "4"], True),
    # thorough: the bounds named in the property's quantifier
    "TA": (["-bs", "1,2,3,4", "-alpha", "2", "-nold", "1", "-maxold", "7", "-maxnew", "9"], False),
    "TA3": (["-bs", "1,2,3,4", "-alpha", "3", "-nold", "1", "-maxold", "4", "-maxnew", "6"], False),
    "TD2": (["-bs", "1,2,3,4", "-alpha", "2", "-nold", "2", "-maxold", "4", "-maxnew", "7"], False),
    "TE3": (["-bs", "1,2,3", "-alpha", "2", "-nold", "3", "-maxold", "2", "-maxnew", "6"], False),
}

MCS = {
    "quick": [("MC_WsyncDiff_quick.cfg", 600)],
    "thorough": [("MC_WsyncDiff_quick.cfg", 600), ("MC_WsyncDiff_t1.cfg", 3000), ("MC_WsyncDiff_t2.cfg", 3000), ("MC_WsyncDiff_t3.cfg", 3000)],
}


def shape_of(case, clauses, large):
    sh = {"clauses": clauses, "scale": "large" if large else "small"}
    if "DataLimit" in clauses and large:
        ops = case["ops"]
        bad = [k for k, o in enumerate(ops) if o["t"] == "data" and o["len"] > case["max"]]
        last_data = max(k for k, o in enumerate(ops) if o["t"] == "data")
        sh["only_final_data_op"] = bad == [last_data]
        sh["excess_lt_2bs"] = all(ops[k]["len"] - case["max"] < 2 * case["bs"] for k in bad)
    return sh


def run(tier):
    run = vlib.Run(PROP, tier, "model_checking")
    run.assumptions = [
        "strong hash (MD5) collisions do not occur: the specification equates strong-hash equality with content equality",
        "exhaustive only within the stated bounds; large inputs are sampled from VERIF_SEED",
        "SHA-256 digests stand for byte equality in the large-input facts",
    ]
    binary = vlib.build_harness()
    d = vlib.scratch("c11-")
    try:
        # ---------------- MC of the implementation-shaped layer
        states = trans = 0
        mc_runs = []
        for cfg, to in MCS[tier]:
            r = vlib.run_tlc("MC_WsyncDiff", cfg, timeout=to, heap="24g" if tier == "thorough" else "8g",
                             coverage=(tier == "thorough" and cfg.endswith("quick.cfg")))
            if not vlib.require_clean(r, "MC " + cfg):
                # the model violates an invariant: a model-level counterexample is not a verdict on the code
                raise vlib.Inconclusive("MC %s: %s violated in the model (the model no longer mirrors a correct differ?)\n%s"
                                        % (cfg, r.violated, r.out[-3000:]))
            states += r.distinct
            trans += r.generated
            mc_runs.append({"cfg": cfg, **r.summary()})
            vlib.log("[mc] %s: %d distinct states, %d generated, %.1fs" % (cfg, r.distinct, r.generated, r.wall))
        run.coverage["states"] = states
        run.coverage["transitions"] = trans
        run.coverage["mc_runs"] = mc_runs

        # ---------------- real code: enumerate the small space
        names = [n for n, (_, q) in ENUMS.items() if q or tier == "thorough"]

        def enum_job(n):
            def job():
                p = os.path.join(d, n + ".ndjson")
                vlib.run_driver(binary, ["c11-enum"] + ENUMS[n][0] + ["-out", p], timeout=3000)
                return p
            return job
        paths = dict(zip(names, vlib.parallel([enum_job(n) for n in names])))

        # shard big files so that each TLC process holds a bounded number of records
        shards = []
        for n in names:
            cnt = vlib.count_lines(paths[n])
            k = max(1, min(vlib.NCPU, cnt // 150000))
            if k == 1:
                shards.append((n, paths[n], cnt, None))
            else:
                sp, maps = vlib.shard_lines(paths[n], k, d, prefix=n + "-")
                for pth, mp in zip(sp, maps):
                    shards.append((n, pth, len(mp), mp))
        total = sum(s[2] for s in shards)
        vlib.log("[tv] %d executions of the real differ recorded in %d shard(s)" % (total, len(shards)))

        def tv_job(sh):
            def job():
                return vlib.validate_trace("Trace_OpStream", "Trace_OpStream.cfg", sh[1], sh[2], "TV " + sh[0],
                                           workers=1, timeout=3000, heap="5g")
            return job
        results = vlib.parallel([tv_job(s) for s in shards], nproc=8 if tier == "thorough" else 6)
        nviol = 0
        for sh, (r, viols) in zip(shards, results):
            for (ln, clauses) in viols:
                case = vlib.get_line(sh[1], ln)
                nviol += 1
                if nviol <= 5:
                    run.violation(shape_of(case, clauses, False), {"kind": "enum", "input": {k: case[k] for k in ("bs", "olds", "src", "pref")}, "real_ops": case["ops"]},
                                  "real wsync.ComputeDiff emitted ops violating %s for bs=%s olds=%s src=%s pref=%s" % (clauses, case["bs"], case["olds"], case["src"], case["pref"]))
                else:
                    run.violations.append((shape_of(case, clauses, False), None))
        run.coverage["traces_validated_against_impl"] = total
        run.coverage["enumerations"] = {n: " ".join(ENUMS[n][0]) for n in names}
        for n in names[:2]:
            run.sample({"enum": n, "line": vlib.get_line(paths[n], 1 + random.Random(run.seed).randrange(100))})

        # ---------------- drift: the transcription must predict the real ops (seeded sample)
        rng = random.Random(run.seed)
        nsample = 4000 if tier == "quick" else 40000
        dpath = os.path.join(d, "drift.ndjson")
        with open(dpath, "w") as out:
            per = max(1, nsample // len(names))
            kept = 0
            for n in names:
                cnt = vlib.count_lines(paths[n])
                pick = set(rng.sample(range(cnt), min(per, cnt)))
                with open(paths[n]) as f:
                    for i, line in enumerate(f):
                        if i in pick:
                            out.write(line)
                            kept += 1
        r = vlib.run_tlc("Trace_WsyncDrift", "Trace_WsyncDrift.cfg", data={"trace.ndjson": dpath}, timeout=3000, heap="8g")
        if r.error or not r.ok:
            if r.violated in ("ModelOK", "deadlock"):
                run.note("drift run: %s on the model side (%s)" % (r.violated, r.out[-600:]))
            else:
                raise vlib.Inconclusive("drift run failed: %s\n%s" % (r.error or r.violated, r.out[-2000:]))
        drift = vlib.parse_tagged(r.prints, "DRIFT")
        run.coverage["drift_inputs_stepped"] = kept
        run.coverage["drift_states"] = r.distinct
        run.coverage["spec_drift"] = len(drift)
        if drift:
            ex = vlib.get_line(dpath, drift[0][0])
            run.note("spec drift: WsyncDiff.tla predicts a different op list than the real code on %d of %d sampled inputs, e.g. %s"
                     % (len(drift), kept, {k: ex[k] for k in ("bs", "olds", "src", "pref", "ops")}))
        vlib.log("[drift] %d inputs stepped (%d states), drift on %d" % (kept, r.distinct, len(drift)))

        # ---------------- real code: large inputs, digest facts
        nlarge = 24 if tier == "quick" else 400
        per_proc = max(1, (nlarge + vlib.NCPU - 1) // vlib.NCPU)

        def large_job(k):
            def job():
                p = os.path.join(d, "large%02d.ndjson" % k)
                # distinct cases per process: the salt is carried through VERIF_SEED arithmetic in the driver
                vlib.run_driver(binary, ["c11-large", "-n", per_proc, "-first", k * per_proc, "-out", p], timeout=3000)
                return p
            return job
        nproc = (nlarge + per_proc - 1) // per_proc
        lpaths = vlib.parallel([large_job(k) for k in range(nproc)])
        lall = os.path.join(d, "large.ndjson")
        with open(lall, "w") as out:
            for p in lpaths:
                out.write(open(p).read())
        lcnt = vlib.count_lines(lall)
        r, viols = vlib.validate_trace("Trace_OpFacts", "Trace_OpFacts.cfg", lall, lcnt, "TV large", workers=1, timeout=3000)
        stats = vlib.parse_tagged(r.prints, "STAT")
        run.coverage["large_runs"] = lcnt
        run.coverage["large_runs_with_split_data_ops"] = sum(1 for s in stats if s[2] > 0)
        run.coverage["large_ops_checked"] = sum(s[1] for s in stats)
        run.coverage["traces_validated_against_impl"] += lcnt
        for (ln, clauses) in viols:
            case = vlib.get_line(lall, ln)
            big = [o["len"] for o in case["ops"] if o["t"] == "data" and o["len"] > case["max"]]
            run.violation(shape_of(case, clauses, True),
                          {"kind": "large", "case": case["case"], "seed": run.seed, "bs": case["bs"], "oldlens": case["oldlens"], "srclen": case["srclen"],
                           "pref": case["pref"], "desc": case["desc"], "oversized_data_ops": big,
                           "ops": [{k: o[k] for k in ("t", "len", "pos", "f", "i", "n")} for o in case["ops"][:40]]},
                          "real wsync.ComputeDiff violates %s on large case %d (bs=%d, %d bytes: %s)%s"
                          % (clauses, case["case"], case["bs"], case["srclen"], case["desc"][:120],
                             (" data op sizes %s > %d" % (big, case["max"])) if big else ""))
        c0 = vlib.get_line(lall, 1)
        run.sample({"large_case": {k: c0[k] for k in ("case", "bs", "oldlens", "srclen", "pref", "desc")}, "ops": c0["ops"][:4]})
        run.coverage["checker_cmd"] = "tlc MC_WsyncDiff / Trace_OpStream / Trace_WsyncDrift / Trace_OpFacts"
        return run.finish()
    finally:
        shutil.rmtree(d, ignore_errors=True)


def replay(path):
    import json
    obj = json.load(open(path))
    print(json.dumps(obj, indent=1)[:4000])
    print("replay: re-run ./check C11 with VERIF_SEED=%s (cases are derived from the seed)" % obj.get("case", {}).get("seed", "?"))
    return 0
