"""C15 - diffing is deterministic and free of data races.

MC   spec/DiffPipeline.tla: reader task (multiread: MultiWriter over two io.Pipes fed by an upstream that returns
     arbitrarily short reads), diff and sign consumers, task group - for EVERY chunking of a short stream and every
     interleaving each consumer receives the whole stream in order (its output is a function of the bytes only), no
     wedge, the group returns only after all three tasks, completion under fairness. spec/Rediff.tla with the tally
     visited in any order: the chosen bsdiff target is a function of the input (ChoiceIsFunctionOfInput).
     spec/BsdiffPipe.tla (C12) covers the scanner's worker / dispatcher / collector ordering.
TV   each build pair (incl. pairs with a tie between differently named old files) is diffed R times under GOMAXPROCS
     1, 2, 3, 4, 8, 16 with source readers returning seeded short reads and yielding at seeded points, and its patch
     optimized R times with fixed parameters: all patch / signature / optimized digests must be equal.
RACE the same driver built with -race: reports whose stacks contain a wharf frame are violations of the race clause.
"""
import os
import re
import shutil

import pairs
import vlib

PROP = "C15"


def run(tier):
    run = vlib.Run(PROP, tier, "model_checking")
    run.assumptions = [
        "the race-freedom clause is decided by the Go race detector on the recorded executions (TLA+ has no notion of a memory access); the specification contributes the schedules' structure only",
        "a race is attributed to wharf only if one of the two stacks has a github.com/itchio/wharf frame",
        "schedules of the real goroutines are sampled (GOMAXPROCS, yields, read slicing); all interleavings only in the models",
    ]
    binary = vlib.build_harness()
    d = vlib.scratch("c15-")
    try:
        states = trans = 0
        mc = []
        for mod, cfg, defs in (("DiffPipeline", "MC_DiffPipeline_quick.cfg", {"N": "8"} if tier == "thorough" else {}),
                               ("Rediff", "MC_Rediff_det.cfg", {}), ("BsdiffPipe", "MC_BsdiffPipe_quick.cfg", {})):
            r = vlib.run_tlc(mod, cfg, timeout=600 if tier == "quick" else 3300, heap="16g", defines=defs or None)
            if not vlib.require_clean(r, "MC " + cfg):
                raise vlib.Inconclusive("MC %s: %s violated in the model\n%s" % (cfg, r.violated, r.out[-3000:]))
            states += r.distinct
            trans += r.generated
            mc.append({"cfg": cfg, **r.summary()})
            vlib.log("[mc] %s: %d distinct, %d generated, %.1fs" % (cfg, r.distinct, r.generated, r.wall))
        run.coverage.update({"states": states, "transitions": trans, "mc_runs": mc})
        n = 24 if tier == "quick" else 300
        runs = "8" if tier == "quick" else "24"
        total = reps = 0
        for tp, cnt, res in pairs.run_shards(binary, d, ["c15", "-runs", runs], n, "Trace_Determinism", "Trace_Determinism.cfg", "det", nshards=12,
                                             timeout=900 if tier == "quick" else 3400):
            if res is None:
                continue
            total += cnt
            reps += sum(s[1] for s in vlib.parse_tagged(res.prints, "STAT"))
            for ln, clauses in vlib.parse_viol(res.prints):
                c = vlib.get_line(tp, ln)
                small = {k: c[k] for k in ("case", "desc", "algo", "q", "runs", "procs", "optparams", "differrs", "opterrs")}
                small["distinct_patch_digests"] = sorted(set(c["patchshas"]))
                small["distinct_signature_digests"] = sorted(set(c["sigshas"]))
                small["distinct_optimized_digests"] = sorted(set(c["optshas"]))
                small["optimizer_mappings"] = sorted(set(c["optmaps"]))
                small["seed"] = run.seed
                run.violation({"clauses": clauses, "tie_pair": c["desc"].startswith("tie")}, small,
                              "repeated runs differ (%s) on pair %d (%s): patch digests %d, signature digests %d, optimized digests %d, mappings %s"
                              % (clauses, c["case"], c["desc"][:40], len(set(c["patchshas"])), len(set(c["sigshas"])), len(set(c["optshas"])), sorted(set(c["optmaps"]))))
            if total == cnt:
                c = vlib.get_line(tp, 1)
                run.sample({k: c[k] for k in ("case", "desc", "algo", "runs", "procs", "optparams")})
        run.coverage["pairs"] = total
        run.coverage["repeated_diffs_and_optimizations"] = 2 * reps
        vlib.log("[tv] %d pairs, %d repeated diffs + %d repeated optimizations" % (total, reps, reps))

        rb = vlib.build_harness(race=True)
        tp = os.path.join(d, "race.ndjson")
        p = vlib.run_driver(rb, ["c15", "-n", 4 if tier == "quick" else 24, "-runs", 3, "-first", 2000, "-out", tp], timeout=3000, check=False,
                            env={"GORACE": "halt_on_error=0 history_size=2"})
        reports = re.findall(r"WARNING: DATA RACE(.*?)={10,}", p.stderr or "", flags=re.S)
        mine = [r for r in reports if "github.com/itchio/wharf" in r or "/repo/" in r]
        run.coverage["race_detector_pairs"] = vlib.count_lines(tp) if os.path.exists(tp) else 0
        run.coverage["race_reports_with_wharf_frames"] = len(mine)
        run.coverage["race_reports_elsewhere"] = len(reports) - len(mine)
        if p.returncode not in (0, 66) and not mine:
            raise vlib.Inconclusive("race-enabled driver failed: rc=%d %s" % (p.returncode, (p.stderr or "")[-600:]))
        for r in mine[:3]:
            site = re.findall(r"((?:/repo|wharf)/[\w/]+\.go:\d+)", r)
            run.violation({"clauses": ["NoDataRace"], "site": site[0] if site else ""}, {"report": r[:2500]},
                          "unsynchronized concurrent access reported by the race detector at %s" % (site[:3],))
        run.coverage["traces_validated_against_impl"] = total
        vlib.log("[race] %d report(s) with wharf frames, %d elsewhere" % (len(mine), len(reports) - len(mine)))
        return run.finish()
    finally:
        shutil.rmtree(d, ignore_errors=True)


def replay(path):
    import json
    print(json.dumps(json.load(open(path)), indent=1)[:4000])
    return 0
