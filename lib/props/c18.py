"""C18 - writing through a validating pool checks every block regardless of write sizes.

MC   spec/Drip.tla (drip.Writer + validate closure, error and wound mode), exhaustive at unit scale against
     the abstract layer spec/DripProp.tla.
RP   one witness walk per transition of the model's state graph is executed on the REAL pwr.ValidatingPool
     (1 unit = 64KiB/BS bytes) - on its own writer, through a pool bowl's entry writer, and (the walk's data
     copied whole) through the pool bowl's Transpose; the observed outcome of every step is recorded.
TV   TLC evaluates DripProp after every recorded step of the real pool (verdict) and compares with the model's
     prediction (drift); byte-precise random slicings are validated the same way through digest facts.
"""
import os
import shutil

import vlib

PROP = "C18"


def run(tier):
    run = vlib.Run(PROP, tier, "model_checking")
    run.assumptions = [
        "SHA-256 digests stand for byte equality in the byte-scale facts; MD5/rolling-hash collisions are not modelled",
        "unit-scale walks: 1 unit = 64KiB/BS bytes of seeded random data per symbol (the real block size is a constant)",
    ]
    binary = vlib.build_harness()
    d = vlib.scratch("c18-")
    try:
        # ---------------- MC
        cfgs = ["MC_Drip_quick.cfg"] + (["MC_Drip_t1.cfg", "MC_Drip_t2.cfg", "MC_Drip_t3.cfg"] if tier == "thorough" else [])
        states = trans = 0
        mc = []
        for cfg in cfgs:
            r = vlib.run_tlc("MC_Drip", cfg, timeout=3000, heap="16g", coverage=(tier == "thorough" and cfg == cfgs[0]))
            if not vlib.require_clean(r, "MC " + cfg):
                raise vlib.Inconclusive("MC %s: %s violated in the model\n%s" % (cfg, r.violated, r.out[-3000:]))
            states += r.distinct
            trans += r.generated
            mc.append({"cfg": cfg, **r.summary()})
            vlib.log("[mc] %s: %d distinct, %d generated, %.1fs" % (cfg, r.distinct, r.generated, r.wall))
        run.coverage.update({"states": states, "transitions": trans, "mc_runs": mc})

        # ---------------- RP: one witness per model transition, executed on the real pool
        total = 0
        edge_cfgs = [("MC_Drip_edges.cfg", 2)] + ([("MC_Drip_edges4.cfg", 4)] if tier == "thorough" else [])
        for cfg, bsu in edge_cfgs:
            r = vlib.run_tlc("Drip", cfg, timeout=3000, workers=1, heap="8g")
            if r.error or not r.ok:
                raise vlib.Inconclusive("edge generation failed: %s\n%s" % (r.error or r.violated, r.out[-2000:]))
            edges = [p for p in r.prints if p.startswith('<<"EDGE"')]
            nsh = min(vlib.NCPU, max(1, len(edges) // 1500))
            jobs = []
            for k in range(nsh):
                ep = os.path.join(d, "edges-%s-%d.txt" % (bsu, k))
                with open(ep, "w") as f:
                    f.write("\n".join(edges[k::nsh]) + "\n")
                # the walk on the validating pool's own writer, through a pool bowl's entry writer (the patcher's way
                # of writing into a pool), and its data copied whole by the pool bowl's Transpose
                for via in ("pool", "bowl-writer", "bowl-transpose"):
                    def job(ep=ep, k=k, via=via):
                        tp = os.path.join(d, "walk-%s-%s-%d.ndjson" % (bsu, via, k))
                        vlib.run_driver(binary, ["c18-replay", "-edges", ep, "-out", tp, "-bs", bsu, "-via", via], timeout=3000)
                        n = vlib.count_lines(tp)
                        res, viols = vlib.validate_trace("Trace_Drip", "Trace_Drip.cfg", tp, n, "TV walks", timeout=3000)
                        return tp, n, res, viols
                    jobs.append(job)
            drift_total = 0
            for tp, n, res, viols in vlib.parallel(jobs, nproc=8):
                total += n
                drift = vlib.parse_tagged(res.prints, "DRIFT")
                drift_total += len(drift)
                if drift and drift_total == len(drift):
                    ex = vlib.get_line(tp, drift[0][0])
                    run.note("spec drift: Drip.tla predicts other step results than the real pool, e.g. %s" % json_short(ex))
                for ln, clauses in viols:
                    case = vlib.get_line(tp, ln)
                    run.violation({"clauses": clauses, "mode": case["mode"], "scale": "unit", "via": case["via"]}, case,
                                  "real ValidatingPool (%s) violates %s on walk mode=%s signed=%s data=%s steps=%s"
                                  % (case["via"], clauses, case["mode"], case["signed"], case["data"], [(s["op"], s["n"], s["res"], len(s["inner"])) for s in case["steps"]]))
                if total == n:
                    run.sample({"walk": vlib.get_line(tp, 1)})
            run.coverage["walks_bs%d" % bsu] = len(edges)
            run.coverage["spec_drift"] = run.coverage.get("spec_drift", 0) + drift_total
            vlib.log("[rp] %s: %d model transitions replayed on the real pool, drift %d" % (cfg, len(edges), drift_total))

        # ---------------- TV: wound mode behind AggregateWounds over an inner pool whose Close may fail
        stride = 8 if tier == "quick" else 1
        cjobs = []
        for k in range(min(stride, 8) if stride > 1 else 8):
            def cjob(k=k):
                tp = os.path.join(d, "close-%d.ndjson" % k)
                if stride > 1:
                    a = ["c18-close", "-stride", stride * 8, "-phase", (k * stride + run.seed) % (stride * 8), "-out", tp]
                else:
                    a = ["c18-close", "-stride", 8, "-phase", k, "-out", tp]
                vlib.run_driver(binary, a, timeout=3000)
                n = vlib.count_lines(tp)
                res, viols = vlib.validate_trace("Trace_DripClose", "Trace_DripClose.cfg", tp, n, "TV close", timeout=3000)
                return tp, n, res, viols
            cjobs.append(cjob)
        nclose = 0
        for tp, n, res, viols in vlib.parallel(cjobs, nproc=8):
            nclose += n
            for ln, clauses in viols[:4]:
                case = vlib.get_line(tp, ln)
                run.violation({"clauses": clauses, "mode": "wound", "scale": "unit", "via": "aggregated-over-failing-close"}, case,
                              "real ValidatingPool (wound mode behind AggregateWounds, inner Close %s) violates %s: signed %d units, written %d units (%s), good blocks %s, markers %s"
                              % ("fails" if case["innerclosefails"] else "succeeds", clauses, case["sglen"], case["p"], case["slicing"], case["good"], [(m["k"], m["s"], m["e"]) for m in case["w"]]))
        run.coverage["aggregated_close_cases"] = nclose
        vlib.log("[tv] %d wound-mode cases behind the aggregating filter (inner Close succeeding / failing)" % nclose)

        # ---------------- TV: byte-precise slicings
        nbytes = 400 if tier == "quick" else 8000
        per = (nbytes + vlib.NCPU - 1) // vlib.NCPU
        jobs = []
        for k in range(vlib.NCPU):
            def job(k=k):
                tp = os.path.join(d, "bytes-%d.ndjson" % k)
                vlib.run_driver(binary, ["c18-bytes", "-n", per, "-first", k * per, "-out", tp], timeout=3000)
                n = vlib.count_lines(tp)
                res, viols = vlib.validate_trace("Trace_DripBytes", "Trace_DripBytes.cfg", tp, n, "TV bytes", timeout=3000)
                return tp, n, res, viols
            jobs.append(job)
        steps = 0
        nb = 0
        for tp, n, res, viols in vlib.parallel(jobs, nproc=8):
            nb += n
            steps += sum(s[1] for s in vlib.parse_tagged(res.prints, "STAT"))
            for ln, clauses in viols:
                case = vlib.get_line(tp, ln)
                small = {k: case[k] for k in ("case", "mode", "sglen", "datalen", "desc")}
                small["steps_tail"] = case["steps"][-6:]
                small["w"] = case["w"][:8]
                small["seed"] = run.seed
                run.violation({"clauses": clauses, "mode": case["mode"], "scale": "bytes"}, small,
                              "real ValidatingPool violates %s on byte-precise case %d (%s, signed %d bytes, data %d bytes, mode %s)"
                              % (clauses, case["case"], case["desc"], case["sglen"], case["datalen"], case["mode"]))
            if nb == n:
                c = vlib.get_line(tp, 1)
                run.sample({"byte_case": {k: c[k] for k in ("case", "mode", "sglen", "datalen", "desc")}, "steps": c["steps"][:3]})
        run.coverage["byte_cases"] = nb
        run.coverage["byte_steps_checked"] = steps
        run.coverage["traces_validated_against_impl"] = total + nb
        vlib.log("[tv] %d byte-precise cases (%d steps) validated" % (nb, steps))
        return run.finish()
    finally:
        shutil.rmtree(d, ignore_errors=True)


def json_short(o):
    import json
    return json.dumps(o)[:600]


def replay(path):
    import json
    print(json.dumps(json.load(open(path)), indent=1)[:4000])
    return 0
