"""C07 - optimizing a patch never changes what it produces.

MC   spec/Rediff.tla: analyzePatch's choice of a bsdiff target (reuse tally visited in any order, same-path tie
     rule, same-path fallback only for a non-empty old file, size limits) and the rewrite grammar of Optimize.
     (What a bsdiff series yields is decided by spec/BsdiffCtl.tla in C12; the patcher's handling of both series
     kinds by spec/Patcher.tla in C03/C17.)
TV   the real optimizer on patches of generated build pairs (incl. new files of 0..16 bytes, files smaller than
     the partition count, empty/tiny old files, content mapped to a differently named old file) under seeded
     partitions 0..16, suffix-sort concurrency, ForceMapAll, size limits, output compression; the optimized patch
     is decoded independently (bsdiff controls checked with the control automaton's step equations and digest
     facts) and applied by the real patcher fresh and in place; TLC compares with what the original patch yields.
"""
import shutil

import pairs
import vlib

PROP = "C07"


def run(tier):
    run = vlib.Run(PROP, tier, "model_checking")
    run.assumptions = [
        "SHA-256 digests stand for byte equality",
        "a crash of the optimizer inside a goroutine kills the driver: it is reported from the marker file",
    ]
    binary = vlib.build_harness()
    d = vlib.scratch("c07-")
    try:
        states = trans = 0
        mc = []
        variants = [{}, {"ForceMapAll": "TRUE", "SizeLimit": "1"}] + ([{"NT": "4"}] if tier == "thorough" else [])
        for defs in variants:
            r = vlib.run_tlc("Rediff", "MC_Rediff_quick.cfg", timeout=600 if tier == "quick" else 3300, heap="16g", defines=defs)
            if not vlib.require_clean(r, "MC Rediff"):
                raise vlib.Inconclusive("MC Rediff %s: %s violated in the model\n%s" % (defs, r.violated, r.out[-3000:]))
            states += r.distinct
            trans += r.generated
            mc.append({"cfg": "MC_Rediff_quick.cfg", "defines": defs, **r.summary()})
            vlib.log("[mc] Rediff %s: %d distinct, %d generated, %.1fs" % (defs, r.distinct, r.generated, r.wall))
        run.coverage.update({"states": states, "transitions": trans, "mc_runs": mc})

        n = 96 if tier == "quick" else 2400
        nsh = 12
        per = (n + nsh - 1) // nsh
        jobs = []
        for k in range(nsh):
            def job(k=k):
                outs = pairs.drive_marked(run, binary, d, ["c07"], k * per, per, "opt%d" % k, "optimizer",
                                          lambda m, stderr: {"params": m.get("params", "")[:40]}, timeout=900 if tier == "quick" else 3300)
                res = []
                for tp in outs:
                    cnt = vlib.count_lines(tp)
                    if cnt == 0:
                        continue
                    r = vlib.run_tlc("Trace_Rediff", "Trace_Rediff.cfg", data={"trace.ndjson": tp}, workers=1, timeout=900, heap="4g")
                    if r.error or not r.ok:
                        raise vlib.Inconclusive("Trace_Rediff failed: %s\n%s" % (r.error or r.violated, r.out[-2000:]))
                    res.append((tp, cnt, r))
                return res
            jobs.append(job)
        total = nbsd = nctl = 0
        parts = set()
        for res in vlib.parallel(jobs, nproc=12):
            for tp, cnt, r in res:
                total += cnt
                for s in vlib.parse_tagged(r.prints, "STAT"):
                    nbsd += s[1]
                    nctl += s[2]
                    parts.add(s[3])
                for ln, clauses in vlib.parse_viol(r.prints):
                    c = vlib.get_line(tp, ln)
                    small = {k: c[k] for k in ("case", "desc", "params", "algo", "q", "outalgo", "outq", "opterr", "decerr", "fresherr", "overerr", "plainerr", "mapped", "tpaths", "spaths", "tsizes", "ssizes")}
                    small["fresh_diff"] = sorted(set(c["freshout"]) ^ set(c["plainout"]))[:10]
                    small["inplace_diff"] = sorted(set(c["overout"]) ^ set(c["plainout"]))[:10]
                    small["seed"] = run.seed
                    run.violation({"clauses": clauses}, small,
                                  "optimizer violates %s on case %d (%s; %s): %s %s %s" % (clauses, c["case"], c["desc"][:60], c["params"], c["opterr"][:150], c["fresherr"][:150], c["overerr"][:150]))
                if total == cnt:
                    c = vlib.get_line(tp, 1)
                    run.sample({"case": c["case"], "desc": c["desc"], "params": c["params"], "mapped": c["mapped"], "msgs": c["msgs"][:5]})
        run.coverage["traces_validated_against_impl"] = total
        run.coverage["bsdiff_series"] = nbsd
        run.coverage["controls_checked"] = nctl
        run.coverage["partition_settings_seen"] = sorted(parts)
        vlib.log("[tv] %d optimizer runs validated: %d bsdiff series, %d controls, partitions %s" % (total, nbsd, nctl, sorted(parts)))
        return run.finish()
    finally:
        shutil.rmtree(d, ignore_errors=True)


def replay(path):
    import json
    print(json.dumps(json.load(open(path)), indent=1)[:4000])
    return 0
