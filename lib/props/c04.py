"""C04 - a build validates against its own signature, however that was produced.

MC   spec/Signature.tla: the signer's scanner (buffer of exactly one block, splitfunc) fed by a reader returning
     arbitrarily short reads - emitted block lengths are [BS]^k ++ tail, one empty block for an empty file - and the
     read-back arithmetic (hash slots, short sizes, per-file groups) inverts it, for all file sizes 0..10 units.
TV   generated builds (size sweep around block multiples, many small files, empty files, tiny files, symlinks,
     empty dirs, generated trees) x every compression setting of the signature stream x source pools with short
     reads: diff-time signature (behind multiread) read back by the real ReadSignature, compared block by block
     with the real stand-alone signer and an independent recomputation (for files <= 16 bytes TLC evaluates the
     rolling checksum itself); ComputeHashInfo; validation of a pristine copy (wounds writer, fail-fast).
"""
import shutil

import pairs
import vlib

PROP = "C04"


def run(tier):
    run = vlib.Run(PROP, tier, "model_checking")
    run.assumptions = ["the independent recomputation uses crypto/md5 and its own rolling-checksum code; equality of strong hashes is byte equality of MD5 digests"]
    binary = vlib.build_harness()
    d = vlib.scratch("c04-")
    try:
        cfgs = ["MC_Signature_quick.cfg"] + (["MC_Signature_t1.cfg"] if tier == "thorough" else [])
        states = trans = 0
        mc = []
        for cfg in cfgs:
            r = vlib.run_tlc("Signature", cfg, timeout=600 if tier == "quick" else 3300, heap="16g")
            if not vlib.require_clean(r, "MC " + cfg):
                raise vlib.Inconclusive("MC %s: %s violated in the model\n%s" % (cfg, r.violated, r.out[-3000:]))
            states += r.distinct
            trans += r.generated
            mc.append({"cfg": cfg, **r.summary()})
            vlib.log("[mc] %s: %d distinct, %d generated, %.1fs" % (cfg, r.distinct, r.generated, r.wall))
        run.coverage.update({"states": states, "transitions": trans, "mc_runs": mc})
        n = 100 if tier == "quick" else 2000
        total = files = hashes = 0
        combos = set()
        for tp, cnt, r in pairs.run_shards(binary, d, ["c04"], n, "Trace_Signature", "Trace_Signature.cfg", "sig", timeout=900 if tier == "quick" else 3300):
            if r is None:
                continue
            total += cnt
            for s in vlib.parse_tagged(r.prints, "STAT"):
                files += s[1]
                hashes += s[2]
            for row in vlib.read_ndjson(tp):
                combos.add("%s-q%d" % (row["algo"], row["q"]))
            for ln, clauses in vlib.parse_viol(r.prints):
                c = vlib.get_line(tp, ln)
                bad = [f for f in c["files"] if not (f["eqrd"] and f["eqro"]) or f["nread"] != f["ndirect"] or f["nread"] != f["nown"]]
                small = {k: c[k] for k in ("case", "desc", "algo", "q", "shortreads", "nhashesread", "nhashesdirect", "containereq", "readerr", "differr", "hashinfoerr", "wounds", "validateerr", "failfasterr", "failfastdirecterr")}
                small["offending_files"] = bad[:6]
                small["sizes"] = [f["size"] for f in c["files"]][:40]
                small["seed"] = run.seed
                run.violation({"clauses": clauses}, small, "signature/validation violates %s on case %d (%s, %s-q%d, short reads %d): %s %s"
                              % (clauses, c["case"], c["desc"][:50], c["algo"], c["q"], c["shortreads"], [(f["path"], f["size"], f["nread"], f["ndirect"], f["nown"]) for f in bad[:3]],
                                 (c["readerr"] or c["hashinfoerr"] or c["failfasterr"] or c["validateerr"])[:150]))
            if total == cnt:
                c = vlib.get_line(tp, 1)
                run.sample({"case": c["case"], "desc": c["desc"], "algo": c["algo"], "q": c["q"], "files": c["files"][:3]})
        run.coverage["traces_validated_against_impl"] = total
        run.coverage["files_checked"] = files
        run.coverage["hashes_checked"] = hashes
        run.coverage["compression_settings_seen"] = sorted(combos)
        vlib.log("[tv] %d builds, %d files, %d hashes, %d compression settings" % (total, files, hashes, len(combos)))
        return run.finish()
    finally:
        shutil.rmtree(d, ignore_errors=True)


def replay(path):
    import json
    print(json.dumps(json.load(open(path)), indent=1)[:4000])
    return 0
