"""C19 - archive then extract gives the same tree for any concurrency and resume point.

MC   spec/ZipExtract.tla: worker pool with rendezvous dispatch, resume register, crash at any step and restart
     with the surviving destination folder and resume file; 2..3 workers, 3..4 entries, 1..2 crashes: after the
     final run every entry is complete.
TV   real CompressZip / ExtractZip (workers 1, 2, 3, 4, 8, 16, -1) and CompressTar / ExtractTar on trees with
     nested and empty dirs, empty files, symlinks and many small files: tree equality and entry counts; resumable
     extractions killed at a chosen instant (copy of the destination folder and of the resume file taken from
     inside OnEntryDone while the other workers keep running; reads of a large first entry are slowed down so that
     later entries complete first) and restarted with the surviving resume file. A driver built with -race
     repeats a subset: race reports with archiver frames are reported.
"""
import os
import re
import shutil

import pairs
import vlib

PROP = "C19"


def run(tier):
    run = vlib.Run(PROP, tier, "model_checking")
    run.assumptions = [
        "a kill is modelled by (resume file read first, then a copy of the destination folder) - at least as complete as the folder at the instant of the read",
        "tar has no concurrency and no resume; only its round trip is checked",
    ]
    binary = vlib.build_harness()
    d = vlib.scratch("c19-")
    try:
        states = trans = 0
        mc = []
        variants = [{}] + ([{"NW": "3", "NE": "4", "MaxCrashes": "2"}] if tier == "thorough" else [{"NW": "3", "NE": "3", "MaxCrashes": "1"}])
        for defs in variants:
            r = vlib.run_tlc("ZipExtract", "MC_ZipExtract_quick.cfg", timeout=600 if tier == "quick" else 3300, heap="16g", defines=defs)
            if not vlib.require_clean(r, "MC ZipExtract"):
                raise vlib.Inconclusive("MC ZipExtract %s: %s violated in the model\n%s" % (defs, r.violated, r.out[-3000:]))
            states += r.distinct
            trans += r.generated
            mc.append({"cfg": "MC_ZipExtract_quick.cfg", "defines": defs, **r.summary()})
            vlib.log("[mc] ZipExtract %s: %d distinct, %d generated, %.1fs" % (defs, r.distinct, r.generated, r.wall))
        run.coverage.update({"states": states, "transitions": trans, "mc_runs": mc})
        n = 96 if tier == "quick" else 1600
        total = resumes = holes = 0
        workers = set()
        for tp, cnt, res in pairs.run_shards(binary, d, ["c19"], n, "Trace_Archive", "Trace_Archive.cfg", "arch", nshards=12, timeout=900 if tier == "quick" else 3300):
            if res is None:
                continue
            total += cnt
            for s in vlib.parse_tagged(res.prints, "STAT"):
                workers.add(s[1])
            for row in vlib.read_ndjson(tp):
                if row["kind"] == "zip-resume":
                    resumes += 1
                    if row["partial"]:
                        holes += 1
            for ln, clauses in vlib.parse_viol(res.prints):
                c = vlib.get_line(tp, ln)
                small = {k: c[k] for k in c if k not in ("want", "out")}
                small["tree_diff"] = sorted(set(c["out"]) ^ set(c["want"]))[:10]
                small["seed"] = run.seed
                run.violation({"clauses": clauses, "kind": c["kind"], "workers_gt_1": c["workers"] not in (1,)}, small,
                              "archive round trip violates %s: %s case %d (%s) workers=%d %s"
                              % (clauses, c["kind"], c["case"], c["desc"][:40], c["workers"],
                                 ("crash inside OnEntryDone #%d, resume file '%s', incomplete then: %s; after restart: %s" % (c["crashat"], c["resumeval"], c["partial"][:3], small["tree_diff"][:3])) if c["kind"] == "zip-resume"
                                 else ("counts %d/%d/%d want %d/%d/%d %s" % (c["dirs"], c["files"], c["syms"], c["wantdirs"], c["wantfiles"], c["wantsyms"], c["err"][:100]))))
            if total == cnt:
                c = vlib.get_line(tp, 1)
                run.sample({k: c[k] for k in ("case", "kind", "desc", "workers", "dirs", "files", "syms")})
        run.coverage["round_trips_and_restarts"] = total
        run.coverage["interrupted_extractions"] = resumes
        run.coverage["interruptions_with_incomplete_entries_on_disk"] = holes
        run.coverage["worker_counts_seen"] = sorted(workers)
        vlib.log("[tv] %d extractions (%d interrupted + restarted, %d of them with incomplete entries at the kill), workers %s" % (total, resumes, holes, sorted(workers)))

        # race detector on a subset
        rb = vlib.build_harness(race=True)
        tp = os.path.join(d, "race.ndjson")
        p = vlib.run_driver(rb, ["c19", "-n", 8 if tier == "quick" else 64, "-first", 1000, "-out", tp], timeout=1800, check=False,
                            env={"GORACE": "halt_on_error=0 history_size=2"})
        races = re.findall(r"WARNING: DATA RACE(.*?)={10,}", p.stderr or "", flags=re.S)
        arch = [r for r in races if "wharf/archiver" in r]
        run.coverage["race_detector_extractions"] = vlib.count_lines(tp) if os.path.exists(tp) else 0
        run.coverage["race_reports_in_archiver"] = len(arch)
        if p.returncode not in (0, 66) and not arch:
            raise vlib.Inconclusive("race-enabled driver failed: rc=%d %s" % (p.returncode, (p.stderr or "")[-600:]))
        if arch:
            site = re.findall(r"(/archiver/\w+\.go:\d+)", arch[0])
            run.violation({"clauses": ["CountsEqualEntries"], "race": True, "site": site[0] if site else ""}, {"report": arch[0][:2500]},
                          "unsynchronized concurrent access in the zip extraction workers (race detector): %s" % (site[:3],))
        run.coverage["traces_validated_against_impl"] = total
        vlib.log("[race] %d race report(s) with archiver frames" % len(arch))
        return run.finish()
    finally:
        shutil.rmtree(d, ignore_errors=True)


def replay(path):
    import json
    print(json.dumps(json.load(open(path)), indent=1)[:4000])
    return 0
