"""C03 - interrupted patch application resumes from any checkpoint to the same result.

MC   spec/Patcher.tla: patch stream state machine with the save protocol (WantSave / source checkpoint / Save),
     stop, crash with writes after the checkpoint wholly or partly on disk, resume into a new patcher from any
     checkpoint of the lineage; all patches of NF files from 6 series shapes, <= 2 resumes. (The reader/source
     gap and the overlay stream sessions are model-checked in C13 / C14.)
TV   matrix {fresh, overlay} x {plain, optimized} x {none, gzip, brotli}: an always-save uninterrupted run logs
     every checkpoint (gob-encoded at Save); TLC checks each against the independently decoded message table
     (message boundary inside a series at a loop top, writer offset = bytes of ops applied, bsdiff old offset,
     target index, overlay read offset), predicts the checkpoint boundaries for the byte-granular source (drift)
     and checks "eventually given checkpoints". Resume tests: real run stopped at checkpoint k+lag, unsynced
     suffixes lost, brand-new patcher + bowl resume from gob-decoded checkpoint k, chains; committed tree = new.
"""
import shutil

import pairs
import vlib

PROP = "C03"


def run(tier):
    run = vlib.Run(PROP, tier, "model_checking")
    run.assumptions = [
        "crash model: data written before a checkpoint is durable (the writers fsync at Save); every file written after it keeps an arbitrary prefix at least as long as what the checkpoint vouches for",
        "crashes during Commit are not resumable by design and outside the quantifier",
        "chains resume from checkpoints of the current lineage",
        "decompressor checkpoints exist only at compressor block boundaries: 'eventually given checkpoints' is checked for uncompressed patches",
    ]
    binary = vlib.build_harness()
    d = vlib.scratch("c03-")
    try:
        cfgs = ["MC_Patcher_c03.cfg"] + (["MC_Patcher_c03_t1.cfg"] if tier == "thorough" else [])
        states = trans = 0
        mc = []
        for cfg in cfgs:
            r = vlib.run_tlc("Patcher", cfg, timeout=800 if tier == "quick" else 3300, heap="24g")
            if not vlib.require_clean(r, "MC " + cfg):
                raise vlib.Inconclusive("MC %s: %s violated in the model\n%s" % (cfg, r.violated, r.out[-3000:]))
            states += r.distinct
            trans += r.generated
            mc.append({"cfg": cfg, **r.summary()})
            vlib.log("[mc] %s: %d distinct, %d generated, %.1fs" % (cfg, r.distinct, r.generated, r.wall))
        run.coverage.update({"states": states, "transitions": trans, "mc_runs": mc})
        if tier == "quick":
            plans = [(["c03", "-tests", "8"], 72, 0, "res")]
        else:
            plans = [(["c03", "-tests", "12"], 960, 0, "res"), (["c03", "-tests", "0"], 96, 500000, "full")]
        total = cps = tests = ndrift = 0
        matrix = {}
        for args, n, first0, prefix in plans:
            for tp, cnt, r in pairs.run_shards(binary, d, args, n, "Trace_Resume", "Trace_Resume.cfg", prefix, first0=first0,
                                               timeout=900 if tier == "quick" else 3300):
                if r is None:
                    continue
                total += cnt
                for s in vlib.parse_tagged(r.prints, "STAT"):
                    cps += s[1]
                    tests += s[2]
                for row in vlib.read_ndjson(tp):
                    key = "%s/%s/%s" % (row["bowl"], "optimized" if row["optimized"] else "plain", row["algo"])
                    m = matrix.setdefault(key, [0, 0])
                    m[0] += len(row["cps"])
                    m[1] += len(row["tests"])
                drift = vlib.parse_tagged(r.prints, "DRIFT")
                if drift:
                    ndrift += len(drift)
                    if ndrift == len(drift):
                        c = vlib.get_line(tp, drift[0][0])
                        run.note("spec drift: the save-protocol prediction differs from the real checkpoint boundaries on case %d (%s): real %s" % (c["case"], c["desc"], [x["moff"] for x in c["cps"]][:12]))
                for o in vlib.parse_tagged(r.prints, "OTHER")[:2]:
                    c = vlib.get_line(tp, o[0])
                    run.note("clause of another property fails on case %d: %s" % (c["case"], o[1:]))
                for ln, clauses in vlib.parse_viol(r.prints):
                    c = vlib.get_line(tp, ln)
                    bad = [t for t in c["tests"] if t["err"] or set(t["out"]) != set(c["new"])]
                    small = {k: c[k] for k in ("case", "desc", "algo", "q", "optimized", "bowl", "referr", "spaths", "ssizes")}
                    small["checkpoints"] = c["cps"][:40]
                    small["msgs"] = [{k: m[k] for k in ("k", "ty", "fi", "f", "i", "n", "len", "pos", "off", "add", "seek", "tgt", "start", "end")} for m in c["msgs"][:80]]
                    small["failing_tests"] = [{"k": t["k"], "lag": t["lag"], "trunc": t["trunc"], "chain": t["chain"], "err": t["err"][:300],
                                               "tree_diff": sorted(set(t["out"]) ^ set(c["new"]))[:10]} for t in bad[:6]]
                    small["seed"] = run.seed
                    run.violation({"clauses": clauses, "bowl": c["bowl"], "optimized": c["optimized"], "compressed": c["algo"] != "NONE"}, small,
                                  "resume violates %s on case %d (%s, %s, %s-q%d, %s): %s" % (clauses, c["case"], c["bowl"], "optimized" if c["optimized"] else "plain", c["algo"], c["q"], c["desc"][:60],
                                                                                             [(t["k"], t["lag"], t["trunc"][:2], t["chain"], t["err"][:100]) for t in bad[:3]]))
                if total == cnt:
                    c = vlib.get_line(tp, 1)
                    run.sample({"case": c["case"], "bowl": c["bowl"], "optimized": c["optimized"], "algo": c["algo"], "checkpoints": c["cps"][:3],
                                "tests": [{k: t[k] for k in ("k", "lag", "trunc", "chain", "err")} for t in c["tests"][:3]]})
        run.coverage["traces_validated_against_impl"] = total
        run.coverage["checkpoints_checked"] = cps
        run.coverage["resume_tests"] = tests
        run.coverage["matrix_checkpoints_and_resumes"] = matrix
        run.coverage["spec_drift"] = ndrift
        vlib.log("[tv] %d cases, %d checkpoints checked, %d resume tests over %d matrix cells, drift %d" % (total, cps, tests, len(matrix), ndrift))
        return run.finish()
    finally:
        shutil.rmtree(d, ignore_errors=True)


def replay(path):
    import json
    print(json.dumps(json.load(open(path)), indent=1)[:4000])
    return 0
