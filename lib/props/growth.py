"""growth - specification coverage beyond the 19 listed properties (not registered in MANIFEST.json: there is no
property to raise a VIOLATION for; findings here are printed as OBSERVATION lines and recorded in DESIGN.md 14).

genie   spec/Genie.tla: pwr/genie's analyzeFile transcribed (compositions of big blocks from an op series) against
        the abstract contract GenieProp. MC: all series of <= 3 ops over two old files; the contract holds for series
        that never touch the short last block of an old file (MC_Genie_quick) and FAILS for those that do
        (MC_Genie_short: expected counterexample). TV: the real Genie on real patches of generated build pairs
        (Trace_Genie): contract (OBSERVATION) and exact agreement with the transcription (drift).
"""
import os
import shutil

import vlib


def run(tier):
    binary = vlib.build_harness()
    d = vlib.scratch("growth-")
    rc = 0
    try:
        r = vlib.run_tlc("MC_Genie", "MC_Genie_quick.cfg", timeout=900, heap="8g")
        if r.error or not r.ok:
            raise vlib.Inconclusive("MC_Genie_quick: %s %s" % (r.violated, r.error))
        vlib.log("[mc] Genie (series on full blocks): %d distinct states, contract holds" % r.distinct)
        r = vlib.run_tlc("MC_Genie", "MC_Genie_short.cfg", timeout=900, heap="8g")
        if r.error or r.violated != "PropertyHolds":
            raise vlib.Inconclusive("MC_Genie_short should violate PropertyHolds, got %s %s" % (r.violated, r.error))
        vlib.log("[mc] Genie (series touching a short last block): counterexample as expected, e.g. %s" % (r.trace[-1].get("ops") if r.trace else "?"))
        n = 48 if tier == "quick" else 600
        tp = os.path.join(d, "genie.ndjson")
        vlib.run_driver(binary, ["genie", "-n", n, "-out", tp], timeout=3000)
        cnt = vlib.count_lines(tp)
        r = vlib.run_tlc("Trace_Genie", "Trace_Genie.cfg", data={"trace.ndjson": tp}, workers=8, timeout=3000, heap="8g")
        if r.error or not r.ok or r.distinct < cnt:
            raise vlib.Inconclusive("Trace_Genie failed: %s\n%s" % (r.error or r.violated, r.out[-2000:]))
        obs = vlib.parse_tagged(r.prints, "OBS")
        drift = vlib.parse_tagged(r.prints, "DRIFT")
        vlib.log("[tv] genie: %d (pair, big block size, new file) lines from the real Genie; %d break GenieProp; drift %d" % (cnt, len(obs), len(drift)))
        if obs:
            c = vlib.get_line(tp, obs[0][0])
            print("OBSERVATION genie: %d of %d files: compositions are not what the op series says (%s), e.g. %s"
                  % (len(obs), cnt, obs[0][1], {k: c[k] for k in ("path", "bb", "olds", "size", "series", "comps")}), flush=True)
        if drift:
            c = vlib.get_line(tp, drift[0][0])
            print("NOTE: spec drift: Genie.tla's transcription of analyzeFile predicts other compositions than the real Genie on %d lines, e.g. %s"
                  % (len(drift), {k: c[k] for k in ("path", "bb", "size", "series", "comps")}), flush=True)
        print("RESULT growth %s: done (observations are not violations of a listed property)" % tier, flush=True)
        return rc
    finally:
        shutil.rmtree(d, ignore_errors=True)


def replay(path):
    return 0
