"""growth - specification coverage beyond the 19 listed properties (not registered in MANIFEST.json: there is no
property to raise a VIOLATION for; findings here are printed as OBSERVATION lines and recorded in DESIGN.md 14).

genie   spec/Genie.tla: pwr/genie's analyzeFile transcribed (compositions of big blocks from an op series) against
        the abstract contract GenieProp. MC: all series of <= 3 ops over two old files; the contract holds for series
        that never touch the short last block of an old file (MC_Genie_quick) and FAILS for those that do
        (MC_Genie_short: expected counterexample). TV: the real Genie on real patches of generated build pairs
        (Trace_Genie): contract (OBSERVATION) and exact agreement with the transcription (drift).

diffleak spec/DiffPipelineFault.tla: the per-file pipeline of WritePatch (DiffPipeline.tla, C15) with a failing task.
        MC: the caller always gets an answer, nil only after all three tasks returned with the whole stream consumed,
        an upstream read error reaches every task (MC_DiffPipelineFault_ok); tasks CAN be left behind for good when a
        consumer fails before the reader task is through (MC_DiffPipelineFault_leak: expected counterexample).
        TV: the real WritePatch with injected faults (Trace_DiffLeak): goroutines left behind (OBSERVATION), the
        model's invariants on the real runs (anything else: ODD).

healprogress spec/HealProgress.tla: the progress accounting of the archive healer (totalHealthy / totalHealing /
        totalHealed / totalCorrupted and the fraction handed to Consumer.Progress, documented "in the [0,1]
        interval") over the event series one damaged file produces (healthy blocks, merged wounds, the worker's own
        size wound that may overtake up to two events still travelling through the per-writer goroutines).
        MC: the fraction stays in [0,1], never goes back and ends at exactly 1 for every damage except a file that
        GREW and whose signed size is a multiple of the block size (MC_HealProgress_ok); with those it reaches 2
        (MC_HealProgress_long: expected counterexample) and on a build of empty files it is 0/0
        (MC_HealProgress_empty: expected counterexample). TV: the real Validate + heal on small builds with one
        damage per file (Trace_HealProgress): contract (OBSERVATION), totals against the model's (drift).
"""
import os
import shutil

import vlib


def run(tier):
    binary = vlib.build_harness()
    d = vlib.scratch("growth-")
    rc = 0
    try:
        r = vlib.run_tlc("MC_Genie", "MC_Genie_quick.cfg", timeout=900, heap="8g")
        if r.error or not r.ok:
            raise vlib.Inconclusive("MC_Genie_quick: %s %s" % (r.violated, r.error))
        vlib.log("[mc] Genie (series on full blocks): %d distinct states, contract holds" % r.distinct)
        r = vlib.run_tlc("MC_Genie", "MC_Genie_short.cfg", timeout=900, heap="8g")
        if r.error or r.violated != "PropertyHolds":
            raise vlib.Inconclusive("MC_Genie_short should violate PropertyHolds, got %s %s" % (r.violated, r.error))
        vlib.log("[mc] Genie (series touching a short last block): counterexample as expected, e.g. %s" % (r.trace[-1].get("ops") if r.trace else "?"))
        n = 48 if tier == "quick" else 600
        tp = os.path.join(d, "genie.ndjson")
        vlib.run_driver(binary, ["genie", "-n", n, "-out", tp], timeout=3000)
        cnt = vlib.count_lines(tp)
        r = vlib.run_tlc("Trace_Genie", "Trace_Genie.cfg", data={"trace.ndjson": tp}, workers=8, timeout=3000, heap="8g")
        if r.error or not r.ok or r.distinct < cnt:
            raise vlib.Inconclusive("Trace_Genie failed: %s\n%s" % (r.error or r.violated, r.out[-2000:]))
        obs = vlib.parse_tagged(r.prints, "OBS")
        drift = vlib.parse_tagged(r.prints, "DRIFT")
        vlib.log("[tv] genie: %d (pair, big block size, new file) lines from the real Genie; %d break GenieProp; drift %d" % (cnt, len(obs), len(drift)))
        if obs:
            c = vlib.get_line(tp, obs[0][0])
            print("OBSERVATION genie: %d of %d files: compositions are not what the op series says (%s), e.g. %s"
                  % (len(obs), cnt, obs[0][1], {k: c[k] for k in ("path", "bb", "olds", "size", "series", "comps")}), flush=True)
        if drift:
            c = vlib.get_line(tp, drift[0][0])
            print("NOTE: spec drift: Genie.tla's transcription of analyzeFile predicts other compositions than the real Genie on %d lines, e.g. %s"
                  % (len(drift), {k: c[k] for k in ("path", "bb", "size", "series", "comps")}), flush=True)
        # ---------------- the diff pipeline with a failing task
        r = vlib.run_tlc("DiffPipelineFault", "MC_DiffPipelineFault_ok.cfg", timeout=900, heap="8g")
        if r.error or not r.ok:
            raise vlib.Inconclusive("MC_DiffPipelineFault_ok: %s %s" % (r.violated, r.error))
        vlib.log("[mc] DiffPipelineFault: %d distinct states; Returns, NilMeansAllDone, ErrOnlyIfFault, UpstreamErrorIsClean hold" % r.distinct)
        r = vlib.run_tlc("DiffPipelineFault", "MC_DiffPipelineFault_leak.cfg", timeout=900, heap="8g")
        if r.error or r.violated != "NeverStuck":
            raise vlib.Inconclusive("MC_DiffPipelineFault_leak should violate NeverStuck, got %s %s" % (r.violated, r.error))
        vlib.log("[mc] DiffPipelineFault: tasks left behind after a consumer failed - counterexample as expected (%d steps)" % len(r.trace or []))
        n = 60 if tier == "quick" else 400
        tp = os.path.join(d, "diffleak.ndjson")
        vlib.run_driver(binary, ["diffleak", "-n", n, "-out", tp], timeout=3000)
        cnt = vlib.count_lines(tp)
        r = vlib.run_tlc("Trace_DiffLeak", "Trace_DiffLeak.cfg", data={"trace.ndjson": tp}, workers=4, timeout=3000, heap="4g")
        if r.error or not r.ok or r.distinct < cnt:
            raise vlib.Inconclusive("Trace_DiffLeak failed: %s\n%s" % (r.error or r.violated, r.out[-2000:]))
        obs = vlib.parse_tagged(r.prints, "OBS")
        odd = vlib.parse_tagged(r.prints, "ODD")
        rows = list(vlib.read_ndjson(tp))
        fired = sum(1 for c in rows if c["fired"] and c["fault"] in ("patch", "sig", "transient"))
        vlib.log("[tv] diffleak: %d real WritePatch runs (%d with a consumer fault that fired); tasks left behind in %d; contrary to the model: %d" % (cnt, fired, len(obs), len(odd)))
        if obs:
            c = vlib.get_line(tp, obs[0][0])
            print("OBSERVATION diffleak: %d of %d WritePatch runs whose patch or signature writer failed left goroutines behind after returning the error, e.g. %s"
                  % (len(obs), fired, {k: c[k] for k in ("fault", "at", "algo", "err", "left", "where")}), flush=True)
        if odd:
            c = vlib.get_line(tp, odd[0][0])
            print("NOTE: spec drift: DiffPipelineFault.tla says this cannot happen (%s): %s" % (odd[0][1], c), flush=True)
        # ---------------- progress accounting of the archive healer
        r = vlib.run_tlc("HealProgress", "MC_HealProgress_ok.cfg", timeout=900, heap="8g")
        if r.error or not r.ok:
            raise vlib.Inconclusive("MC_HealProgress_ok: %s %s" % (r.violated, r.error))
        vlib.log("[mc] HealProgress (every damage but grown files of block-aligned size): %d distinct states; ProgressBounded, FinalExact, NeverBackwards hold" % r.distinct)
        r = vlib.run_tlc("HealProgress", "MC_HealProgress_long.cfg", timeout=900, heap="8g")
        if r.error or r.violated != "ProgressBounded":
            raise vlib.Inconclusive("MC_HealProgress_long should violate ProgressBounded, got %s %s" % (r.violated, r.error))
        vlib.log("[mc] HealProgress (grown files): fraction above 1 - counterexample as expected (%d steps)" % len(r.trace or []))
        r = vlib.run_tlc("HealProgress", "MC_HealProgress_empty.cfg", timeout=900, heap="8g")
        if r.error or r.violated != "ProgressDefined":
            raise vlib.Inconclusive("MC_HealProgress_empty should violate ProgressDefined, got %s %s" % (r.violated, r.error))
        vlib.log("[mc] HealProgress (builds of empty files): 0/0 reported - counterexample as expected (%d steps)" % len(r.trace or []))
        n = 200 if tier == "quick" else 3000
        tp = os.path.join(d, "healprogress.ndjson")
        vlib.run_driver(binary, ["healprogress", "-n", n, "-out", tp], timeout=3000)
        cnt = vlib.count_lines(tp)
        r = vlib.run_tlc("Trace_HealProgress", "Trace_HealProgress.cfg", data={"trace.ndjson": tp}, workers=8, timeout=3000, heap="8g")
        if r.error or not r.ok or r.distinct < cnt:
            raise vlib.Inconclusive("Trace_HealProgress failed: %s\n%s" % (r.error or r.violated, r.out[-2000:]))
        obs = vlib.parse_tagged(r.prints, "OBS")
        drift = vlib.parse_tagged(r.prints, "DRIFT")
        unusable = vlib.parse_tagged(r.prints, "UNUSABLE")
        vlib.log("[tv] healprogress: %d real heals (%d did not end in a valid build and say nothing); fraction outside [0,1] / not a number / not ending at 1 in %d; drift %d"
                 % (cnt, len(unusable), len(obs), len(drift)))
        kinds = {}
        for o in obs:
            kinds.setdefault(str(o[1]), o[0])
        for kd, ln in sorted(kinds.items()):
            c = vlib.get_line(tp, ln)
            print("OBSERVATION healprogress: %d of %d heals report a progress fraction that breaks the [0,1] contract (%s), e.g. %s"
                  % (sum(1 for o in obs if str(o[1]) == kd), cnt, kd, {k: c[k] for k in ("sizes", "disks", "total", "healed", "corrupted", "finalnum", "maxnum", "nan")}), flush=True)
        sobs = vlib.parse_tagged(r.prints, "SCANOBS")
        sdrift = vlib.parse_tagged(r.prints, "SCANDRIFT")
        vlib.log("[tv] healprogress: the same %d damaged builds validated without a healer first: scan fraction above 1 / going back / not a number in %d; drift %d" % (cnt, len(sobs), len(sdrift)))
        if sobs:
            pick = [o for o in sobs if "ScanAboveOne" in str(o[1])] or sobs
            c = vlib.get_line(tp, pick[0][0])
            print("OBSERVATION scanprogress: %d of %d validations without a healer report a scan fraction that leaves [0,1], goes back or is not a number (%d above 1: every file that GREW is counted with its surplus first), e.g. %s"
                  % (len(sobs), cnt, len([o for o in sobs if "ScanAboveOne" in str(o[1])]), {k: c[k] for k in ("sizes", "disks", "total", "scanfinalnum", "scanmaxnum", "scanbackwards", "scannan")}), flush=True)
        if sdrift:
            c = vlib.get_line(tp, sdrift[0][0])
            print("NOTE: spec drift: HealProgress.tla's ScanFinal / ScanExcess predict another scan fraction than the real validator on %d lines, e.g. %s"
                  % (len(sdrift), {k: c[k] for k in ("sizes", "disks", "total", "scanfinalnum", "scanmaxnum")}), flush=True)
        if drift:
            c = vlib.get_line(tp, drift[0][0])
            print("NOTE: spec drift: HealProgress.tla predicts other totals than the real healer on %d lines, e.g. %s expected (healed, corrupted, final) %s"
                  % (len(drift), {k: c[k] for k in ("sizes", "disks", "total", "healed", "corrupted", "finalnum")}, drift[0][1:]), flush=True)
        print("RESULT growth %s: done (observations are not violations of a listed property)" % tier, flush=True)
        return rc
    finally:
        shutil.rmtree(d, ignore_errors=True)


def replay(path):
    return 0
