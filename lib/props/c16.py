"""C16 - validation always terminates and a clean verdict is never caused by interruption.

MC   spec/HealerCancel.tla: ArchiveHealer.Do and its heal goroutine under cancellation at any moment: Do returns.
MC   spec/Validator.tla: the goroutine protocol of ValidatorContext.Validate (main, worker, consumer goroutine,
     channels fileIndices / workerErrs(1) / consumerErrs(1) / cancelled / wounds(K), environment Cancel), one action
     per channel operation; swept over the product of its parameters in ONE run (0..3 files x every damage pattern,
     dir wounds, channel capacity 1..2 with more wounds than capacity, consumers guardian / printer / failing after n,
     cancellation allowed or not): no deadlock, <>returned and <>[]all goroutines done under weak fairness, a nil
     return of fail-fast validation implies nothing was damaged.
TV   the REAL Validate with hooks (-tags verif): (a) outcome level - damage patterns (incl. > 1024 wounds, damage only
     in the last file), consumers (fail-fast, wounds writer, printer, failing writer, archive healer), cancellation instants chosen
     through the hooks (before start, when main is about to dispatch file i, when the worker finished file i, after
     the last dispatch, when the worker is about to validate file i, while the healer handles the wound of the last
     damaged file, asynchronous), seeded jitter, GOMAXPROCS 1..16: returns within the deadline, no goroutine
     left, nil only if the directory matched; (b) conformance - per-goroutine logs of free runs are checked against
     Validator.tla (each role's log in program order, any interleaving, silent unlogged actions).
"""
import os
import shutil

import pairs
import vlib

PROP = "C16"


def run(tier):
    run = vlib.Run(PROP, tier, "model_checking")
    run.assumptions = [
        "termination on the real code is observed with a 10 s deadline per run (a run that does not return is reported, the driver restarts)",
        "goroutine leaks are observed through runtime.NumGoroutine against a per-run baseline (2 s settle time)",
        "per-file wounds of a streamed file are abstracted to one marker in the model (counts matter to consumers only through 'first wound')",
    ]
    binary = vlib.build_harness()
    d = vlib.scratch("c16-")
    try:
        cfgs = ["MC_Validator_quick.cfg"] + (["MC_Validator_t1.cfg"] if tier == "thorough" else [])
        states = trans = 0
        mc = []
        for cfg in cfgs:
            r = vlib.run_tlc("MC_Validator", cfg, timeout=800 if tier == "quick" else 3400, heap="24g")
            if not vlib.require_clean(r, "MC " + cfg):
                raise vlib.Inconclusive("MC %s: %s violated in the model\n%s" % (cfg, r.violated, r.out[-3000:]))
            states += r.distinct
            trans += r.generated
            mc.append({"cfg": cfg, **r.summary()})
            vlib.log("[mc] %s: %d distinct, %d generated, %.1fs (safety + liveness under weak fairness)" % (cfg, r.distinct, r.generated, r.wall))
        # the healing consumer's own protocol (Do + heal goroutine) under cancellation
        for nw in ((2, 3) if tier == "quick" else (2, 3, 5, 8)):
            r = vlib.run_tlc("HealerCancel", "MC_HealerCancel.cfg", timeout=600, heap="4g", defines={"NW": str(nw)})
            if not vlib.require_clean(r, "MC HealerCancel"):
                raise vlib.Inconclusive("MC HealerCancel NW=%d: %s violated in the model\n%s" % (nw, r.violated, r.out[-2000:]))
            states += r.distinct
            trans += r.generated
            mc.append({"cfg": "MC_HealerCancel.cfg", "defines": {"NW": nw}, **r.summary()})
        r0 = vlib.run_tlc("HealerCancel", "MC_HealerCancel.cfg", timeout=600, heap="4g", defines={"Repaired": "FALSE"})
        if r0.error or r0.violated != "NoWedge":
            raise vlib.Inconclusive("MC HealerCancel with Repaired=FALSE should wedge, got %s %s" % (r0.violated, r0.error))
        mc.append({"cfg": "MC_HealerCancel.cfg", "defines": {"Repaired": "FALSE"}, "expected_violation": "NoWedge", **r0.summary()})
        vlib.log("[mc] HealerCancel: Do always returns (and wedges in the model of the code as found)")
        run.coverage.update({"states": states, "transitions": trans, "mc_runs": mc})

        # (a) outcomes
        n = 360 if tier == "quick" else 6000
        nsh = 12
        per = (n + nsh - 1) // nsh
        jobs = []
        for k in range(nsh):
            def job(k=k):
                outs = []
                first, end = k * per, (k + 1) * per
                stuck = []
                while first < end:
                    tp = os.path.join(d, "out-%d-%d.ndjson" % (k, len(outs)))
                    p = vlib.run_driver(binary, ["c16", "-n", end - first, "-first", first, "-out", tp], timeout=3400, check=False)
                    outs.append(tp)
                    if p.returncode == 0:
                        break
                    if p.returncode == 7:      # a run did not return: the driver exits to get rid of the stuck goroutines
                        rows = vlib.read_ndjson(tp)
                        first = rows[-1]["case"] + 1
                        continue
                    crash = pairs.real_crash(p.stderr or "")
                    if crash is not None:
                        # the code under test killed the process (a panic in one of Validate's goroutines): behaviour of
                        # the real code on the case after the last one recorded; carry on behind it
                        rows = vlib.read_ndjson(tp)
                        at = (rows[-1]["case"] + 1) if rows else first
                        run.violation({"crash": True, "site": crash["site"]},
                                      {"case": at, "panic": crash["panic"], "stack": crash["stack"], "seed": run.seed},
                                      "the real code crashed the process (%s at %s) while Validate ran case %d" % (crash["panic"][:160], crash["site"], at))
                        first = at + 1
                        continue
                    raise vlib.Inconclusive("c16 driver failed: rc=%d %s" % (p.returncode, (p.stderr or "")[:600]))
                return outs
            jobs.append(job)
        total = cancelled = big = 0
        for outs in vlib.parallel(jobs, nproc=12):
            for tp in outs:
                cnt = vlib.count_lines(tp)
                if cnt == 0:
                    continue
                r = vlib.run_tlc("Trace_ValOutcome", "Trace_ValOutcome.cfg", data={"trace.ndjson": tp}, workers=1, timeout=900, heap="4g")
                if r.error or not r.ok:
                    raise vlib.Inconclusive("Trace_ValOutcome failed: %s\n%s" % (r.error or r.violated, r.out[-2000:]))
                total += cnt
                for s in vlib.parse_tagged(r.prints, "STAT"):
                    cancelled += s[2]
                    big += 1 if s[1] > 1024 else 0
                for ln, clauses in vlib.parse_viol(r.prints):
                    c = vlib.get_line(tp, ln)
                    small = {k: c[k] for k in c if k not in ("logs", "kinds")}
                    small["kinds"] = c["kinds"][:12]
                    small["seed"] = run.seed
                    run.violation({"clauses": clauses, "consumer": c["consumer"], "cancelled": c["cancelled"]}, small,
                                  "real Validate violates %s: %d files %s..., consumer %s, cancel %s, GOMAXPROCS %d -> returned=%s ret=%s leak=%d"
                                  % (clauses, c["nfiles"], c["kinds"][:5], c["consumer"], c["cancel"], c["procs"], c["returned"], c["ret"], c["leak"]))
                if total == cnt:
                    c = vlib.get_line(tp, 1)
                    run.sample({k: c[k] for k in c if k not in ("logs",)})
        run.coverage["outcome_runs"] = total
        run.coverage["runs_with_cancellation"] = cancelled
        run.coverage["runs_with_more_wounds_than_channel_capacity"] = big
        vlib.log("[tv] %d real runs (%d cancelled, %d with > 1024 files)" % (total, cancelled, big))

        # (b) conformance with the protocol model
        n2 = 240 if tier == "quick" else 4000
        accepted = rejected = 0
        for tp, cnt, r in pairs.run_shards(binary, d, ["c16", "-small"], n2, "Trace_Val", "Trace_Val.cfg", "conf", nshards=12, tlc_workers=2,
                                           timeout=900 if tier == "quick" else 3400):
            if r is None:
                continue
            acc = set(x[0] for x in vlib.parse_tagged(r.prints, "ACC"))
            rows = vlib.read_ndjson(tp)
            for i, c in enumerate(rows, 1):
                if i in acc:
                    accepted += 1
                else:
                    rejected += 1
                    if rejected <= 3:
                        run.note("spec drift: Validator.tla has no interleaving that explains the per-goroutine logs of case %d (%s, kinds %s, cancel %s, ret %s): %s"
                                 % (c["case"], c["consumer"], c["kinds"], c["cancel"], c["ret"], {k: [(e["p"], e["a"]) for e in v] for k, v in c["logs"].items()}))
            if accepted + rejected == cnt:
                c = rows[0]
                run.sample({"conformance_case": {k: c[k] for k in ("case", "kinds", "consumer", "cancel", "ret")}, "logs": {k: [(e["p"], e["a"]) for e in v][:6] for k, v in c["logs"].items()}})
        run.coverage["conformance_runs_accepted"] = accepted
        run.coverage["spec_drift"] = rejected
        run.coverage["traces_validated_against_impl"] = total + accepted + rejected
        vlib.log("[tv] conformance: %d runs accepted by Validator.tla, %d rejected" % (accepted, rejected))
        return run.finish()
    finally:
        shutil.rmtree(d, ignore_errors=True)


def replay(path):
    import json
    print(json.dumps(json.load(open(path)), indent=1)[:4000])
    return 0
