"""C02 - in-place apply equals fresh apply and leaves the old build intact until commit.

MC   spec/BowlOverlay.tla: the commit sub-phases of the overlay bowl over an abstract POSIX file system; work lists
     derived from (old,new) as differ + patcher derive them; every order in which the transposition map loops and
     the unstable ghost sort may run. Universe: top-level names + one directory with a child, contents c1/c2/empty,
     symlink. Invariant (no path changes kind): committed => fs = new, never fails.
TV   (a) pairs of the SAME universe, materialised and run through the real differ -> patcher -> overlay bowl,
     several commits per pair: TLC runs the commit model on each pair and every real outcome must be one of the
     model's terminal states (conformance) and must be the new build (verdict); the old build must be untouched
     right before Commit. Thorough tier: the whole universe (62 500 pairs). (b) real-scale generated scenarios.
Known findings: pairs in which a path changes kind (file<->dir<->symlink) - see known_findings.json.
"""
import collections
import re
import shutil

import pairs
import vlib

PROP = "C02"
NPAIRS = 62500
NOKIND = 17328


def transitions(row):
    """The kind changes of a universe pair, fine enough to tell failing inputs apart: for a directory, whether it has
    an entry below it (old side: before, new side: after) - 'dir(full)>file' fails on the unchanged tree, 'dir(empty)>file'
    on its own does not; the path is part of the token because the commit phases treat 'd' (which may hold 'd/x') and
    the plain entries differently."""
    s = set()
    for p in ("a", "b", "d", "d/x"):
        o, n = row["old"][p]["k"], row["new"][p]["k"]
        if o != "none" and n != "none" and o != n:
            if p == "d":
                if o == "dir":
                    o += "(full)" if row["old"]["d/x"]["k"] != "none" else "(empty)"
                if n == "dir":
                    n += "(full)" if row["new"]["d/x"]["k"] != "none" else "(empty)"
            s.add(o + ">" + n)
    return "+".join(sorted(s))


def run(tier):
    run = vlib.Run(PROP, tier, "model_checking")
    run.assumptions = [
        "POSIX semantics of this sandbox's file system; case-insensitive file systems (fixExistingCase) are not exercised",
        "map iteration orders of the real code are covered by repeated commits, all orders by the model",
        "SHA-256 digests stand for byte equality",
    ]
    binary = vlib.build_harness()
    d = vlib.scratch("c02-")
    try:
        cfgs = ["MC_BowlOverlay_quick.cfg"] + (["MC_BowlOverlay_t1.cfg"] if tier == "thorough" else [])
        states = trans = 0
        mc = []
        for cfg in cfgs:
            r = vlib.run_tlc("BowlOverlay", cfg, timeout=800 if tier == "quick" else 3400, heap="28g")
            if not vlib.require_clean(r, "MC " + cfg):
                raise vlib.Inconclusive("MC %s: %s violated in the model\n%s" % (cfg, r.violated, r.out[-3000:]))
            states += r.distinct
            trans += r.generated
            mc.append({"cfg": cfg, **r.summary()})
            vlib.log("[mc] %s: %d distinct, %d generated, %.1fs" % (cfg, r.distinct, r.generated, r.wall))
        run.coverage.update({"states": states, "transitions": trans, "mc_runs": mc})

        # ---------------- (a) model universe pairs on the real code
        # quick: ALL pairs in which no path changes kind (17 328) + a seeded sample of the kind-change pairs;
        # thorough: the whole universe
        if tier == "quick":
            plans = [(["c02", "-mode", "model", "-subset", "nokind", "-sample=false", "-reps", "4"], NOKIND, "nokind"),
                     # (every 75th kind-change pair: a FIXED subset, so that the number of failing pairs per class can be
                     #  compared with what the known findings list for it)
                     (["c02", "-mode", "model", "-subset", "kind", "-sample=false", "-stride", "75", "-reps", "4"], 603, "kind")]
        else:
            plans = [(["c02", "-mode", "model", "-sample=false", "-reps", "4"], NPAIRS, "model")]
        total = outcomes = explained = kc = multi = 0
        unexplained_nokind = 0
        classes = collections.Counter()
        examples = {}
        shard_results = []
        for args, n, prefix in plans:
            shard_results += pairs.run_shards(binary, d, args, n, "Trace_Overlay", "Trace_Overlay.cfg", prefix, tlc_workers=2,
                                              timeout=900 if tier == "quick" else 3400)
        for tp, cnt, r in shard_results:
            if r is None:
                continue
            total += cnt
            fins = collections.defaultdict(set)
            for f in vlib.parse_tagged(r.prints, "FIN"):
                for k in re.findall(r"\d+", str(f[1])):
                    fins[f[0]].add(int(k))
            viol = dict(vlib.parse_viol(r.prints))
            rows = vlib.read_ndjson(tp)
            for i, row in enumerate(rows, 1):
                if row["kindchange"]:
                    kc += 1
                if len(row["outcomes"]) > 1:
                    multi += 1
                for k, o in enumerate(row["outcomes"], 1):
                    outcomes += 1
                    if k in fins[i]:
                        explained += 1
                    elif not row["kindchange"]:
                        unexplained_nokind += 1
                        if unexplained_nokind <= 3:
                            run.note("spec drift: BowlOverlay.tla has no terminal state equal to a real outcome of %s: old=%s new=%s real=%s" % (row["desc"], row["old"], row["new"], o))
                if i in viol:
                    clauses = viol[i]
                    bad = [o for o in row["outcomes"] if o["failed"] or o["final"] != row["new"] or o["extra"]]
                    mode = "error" if any(o["failed"] for o in bad) else "silent"
                    tr = transitions(row)
                    shape = {"clauses": clauses, "kind_change": bool(row["kindchange"]), "transitions": tr, "mode": mode if bad else "n/a"}
                    classes[(tr, mode)] += 1
                    if row["kindchange"]:
                        examples.setdefault("%s|%s" % (tr, mode), "%s old=%s new=%s -> %s" % (row["desc"], compact(row["old"]), compact(row["new"]), [(compact(o["final"]), o["err"][:90]) for o in bad[:1]]))
                    run.violation(shape, {"pair": row["desc"], "old": row["old"], "new": row["new"], "outcomes": row["outcomes"], "precommit_untouched": row["precommit_untouched"]},
                                  "in-place apply violates %s on %s old=%s new=%s: %s" % (clauses, row["desc"], compact(row["old"]), compact(row["new"]),
                                                                                         [(compact(o["final"]), o["extra"], o["err"][:80]) for o in bad[:2]]))
            if total == cnt:
                run.sample({"pair": rows[0]["desc"], "old": compact(rows[0]["old"]), "new": compact(rows[0]["new"]), "outcomes": [compact(o["final"]) for o in rows[0]["outcomes"]]})
        # a known finding is a set of INPUTS, not a licence for its whole class: over the exhaustive universe the number of
        # failing pairs per kind-change class is a fixed quantity (up to a handful of pairs whose outcome depends on map
        # order); more failing pairs than the finding lists is a different violation of the same property
        if True:
            key = "universe_pairs_failing_for_these_transitions" if tier == "thorough" else "quick_subset_pairs_failing"
            listed = {f["shape"]["transitions"]: f.get(key, 0) for f in vlib.load_findings().get("open", []) if f.get("property") == PROP and f.get("shape", {}).get("kind_change")}
            per_tr = collections.Counter()
            for (tr, mode), v in classes.items():
                per_tr[tr] += v
            for tr, v in sorted(per_tr.items()):
                # (tolerance: outcomes of some pairs depend on Go's map order - over four commits per pair a pair that fails
                #  under one order in six is counted in one run and not in the next; measured spread 4057..4066 for the largest
                #  class. 2 % / 10 % of the listed count, at least 5 / 2 pairs)
                if listed.get(tr) is None:
                    continue    # not a class of a known finding: every failing pair of it was reported above
                tol = max(5, listed[tr] // 50) if tier == "thorough" else max(2, listed[tr] // 10)
                if v > listed[tr] + tol:
                    run.violation({"kind_change": True, "failing_pairs_beyond_the_known_finding": tr},
                                  {"transitions": tr, "failing_pairs": v, "listed": listed[tr], "example": examples.get(tr + "|error") or examples.get(tr + "|silent")},
                                  "in-place apply fails on %d pairs of the %s whose kind changes are '%s'; the known finding lists %d" % (v, "model universe" if tier == "thorough" else "fixed quick subset of it", tr, listed[tr]))
        run.coverage["failing_kind_change_classes"] = {"%s|%s" % k: v for k, v in classes.items()}
        run.coverage["failing_kind_change_examples"] = examples
        run.coverage["model_pairs_on_real_code"] = total
        run.coverage["exhaustive"] = (tier == "thorough")
        run.coverage["exhaustive_over_pairs_without_kind_change"] = True
        run.coverage["pairs_with_kind_change"] = kc
        run.coverage["pairs_with_more_than_one_real_outcome"] = multi
        run.coverage["real_outcomes"] = outcomes
        run.coverage["real_outcomes_explained_by_model"] = explained
        run.coverage["spec_drift"] = unexplained_nokind
        run.coverage["failing_classes"] = {"%s/%s" % k: v for k, v in classes.items()}
        vlib.log("[tv] %d universe pairs on the real code (%d with a kind change), %d outcomes, %d explained by the model, drift on non-kind-change pairs %d"
                 % (total, kc, outcomes, explained, unexplained_nokind))

        # ---------------- (b) real-scale scenarios
        n2 = 64 if tier == "quick" else 1600
        reps = "6" if tier == "quick" else "12"
        total2 = commits = 0
        for tp, cnt, r in pairs.run_shards(binary, d, ["c02", "-mode", "scen", "-reps", reps], n2, "Trace_OverlayScen", "Trace_OverlayScen.cfg", "scen",
                                           timeout=900 if tier == "quick" else 3400):
            if r is None:
                continue
            total2 += cnt
            commits += sum(s[1] for s in vlib.parse_tagged(r.prints, "STAT"))
            for ln, clauses in vlib.parse_viol(r.prints):
                c = vlib.get_line(tp, ln)
                diffs = [sorted(set(o) ^ set(c["newlist"]))[:8] for o in c["outlists"] if set(o) != set(c["newlist"])]
                run.violation({"clauses": clauses, "kind_change": False, "scale": "real"},
                              {"case": c["case"], "desc": c["desc"], "errs": [e for e in c["errs"] if e][:4], "tree_diffs": diffs[:3], "precommit_untouched": c["precommit_untouched"], "seed": run.seed},
                              "in-place apply violates %s on scenario %d (%s): %s %s" % (clauses, c["case"], c["desc"], [e[:120] for e in c["errs"] if e][:2], diffs[:1]))
        run.coverage["scenarios"] = total2
        run.coverage["scenario_commits"] = commits
        run.coverage["traces_validated_against_impl"] = total + total2
        vlib.log("[tv] %d real-scale scenarios, %d commits" % (total2, commits))
        return run.finish()
    finally:
        shutil.rmtree(d, ignore_errors=True)


def compact(b):
    out = {}
    for p, e in b.items():
        if e["k"] == "file":
            out[p] = e["c"]
        elif e["k"] == "sym":
            out[p] = "->" + e["t"]
        elif e["k"] == "dir":
            out[p] = "dir"
    return out


def replay(path):
    import json
    print(json.dumps(json.load(open(path)), indent=1)[:4000])
    return 0
