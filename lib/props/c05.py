"""C05 - validation reports every deviation from the signed build and locates it.

MC   spec/FileWounds.tla: the wounds the validator emits for one file (per-block verdicts of the validating pool in
     wound mode, AggregateWounds, the size-mismatch wound, flush at close) for every (signed, actual) over {0,1}
     with blocks of 2 units: every differing offset below the signed length is covered, length mismatches and any
     deviation are reported, ranges are well-formed, no false wound.
TV   (a) the same kind of (signed, actual) pairs at unit scale (1 unit = 32 KiB) through the REAL Validate (wounds
     file + fail-fast): verdict on the real wounds, drift against the model's wounds. (b) generated builds with
     damage sequences (flips at block edges, truncation incl. exactly at block boundaries, extension within / across
     / beyond blocks, emptied, deleted, content where an empty file is expected, kind swaps, retargeted symlinks,
     combinations, damage only in the last file, runs of > 64 consecutive damaged blocks in a file larger than the
     aggregator's 4 MiB limit); ground truth by comparison with the signed build.
RP   every sequence of per-block wounds of up to 6 (thorough: 8) blocks x every aggregate limit through the REAL
     AggregateWounds: every input wound covered, markers relayed in order; drift against FileWounds.tla's Agg.
"""
import os
import shutil

import pairs
import vlib

PROP = "C05"


def run(tier):
    run = vlib.Run(PROP, tier, "model_checking")
    run.assumptions = [
        "ground truth of a damaged tree = byte comparison with the signed tree (harness)",
        "hash collisions are not modelled (a block differing from the signed block has a different hash)",
        "kind swaps that hide whole subtrees (a parent directory replaced by a file) belong to C06's quantifier",
    ]
    binary = vlib.build_harness()
    d = vlib.scratch("c05-")
    try:
        r = vlib.run_tlc("FileWounds", "MC_FileWounds_quick.cfg", timeout=600 if tier == "quick" else 3300, heap="16g",
                         defines=({"MaxLen": "6"} if tier == "thorough" else None))
        if not vlib.require_clean(r, "MC FileWounds"):
            raise vlib.Inconclusive("MC FileWounds: %s violated in the model\n%s" % (r.violated, r.out[-3000:]))
        run.coverage.update({"states": r.distinct, "transitions": r.generated, "mc_runs": [{"cfg": "MC_FileWounds_quick.cfg", **r.summary()}]})
        vlib.log("[mc] FileWounds: %d distinct, %d generated, %.1fs" % (r.distinct, r.generated, r.wall))

        # (a) unit-scale pairs: 63 signed x 511 actual = 32193 pairs; quick takes every 8th (seed-shifted phase)
        stride = 8 if tier == "quick" else 1
        nsh = 12
        jobs = []
        for k in range(nsh):
            def job(k=k):
                tp = os.path.join(d, "unit-%d.ndjson" % k)
                vlib.run_driver(binary, ["c05-unit", "-stride", stride * nsh, "-phase", (k * stride + (run.seed % stride)) % (stride * nsh), "-out", tp], timeout=3300)
                n = vlib.count_lines(tp)
                res = vlib.run_tlc("Trace_FileWounds", "Trace_FileWounds.cfg", data={"trace.ndjson": tp}, workers=2, timeout=3300, heap="4g")
                if res.error or not res.ok:
                    raise vlib.Inconclusive("Trace_FileWounds failed: %s\n%s" % (res.error or res.violated, res.out[-2000:]))
                return tp, n, res
            jobs.append(job)
        upairs = ndrift = 0
        for tp, n, res in vlib.parallel(jobs, nproc=12):
            upairs += n
            drift = vlib.parse_tagged(res.prints, "DRIFT")
            if drift:
                ndrift += len(drift)
                if ndrift == len(drift):
                    run.note("spec drift: FileWounds.tla predicts other wounds than the real validator, e.g. %s" % vlib.get_line(tp, drift[0][0]))
            for ln, clauses in vlib.parse_viol(res.prints):
                c = vlib.get_line(tp, ln)
                longer = len(c["actual"]) > len(c["signed"])
                inverted = any(w["start"] > w["end"] for w in c["wounds"])
                run.violation({"clauses": clauses, "scale": "unit", "actual_longer_than_signed": longer, "inverted_range": inverted}, c,
                              "real Validate violates %s for one file signed=%s actual=%s (units of 32 KiB): wounds %s failfast=%s %s"
                              % (clauses, c["signed"], c["actual"], [(w["start"], w["end"]) for w in c["wounds"]], c["failfast"], c["err"][:100]))
            if upairs == n:
                run.sample({"unit_pair": vlib.get_line(tp, 3)})
        run.coverage["unit_pairs"] = upairs
        run.coverage["spec_drift"] = ndrift
        vlib.log("[tv] %d (signed, actual) pairs through the real validator, drift %d" % (upairs, ndrift))

        # (a') the aggregator alone, model -> code: every wound sequence of up to N blocks x every aggregate limit
        tp = os.path.join(d, "agg.ndjson")
        vlib.run_driver(binary, ["c05-agg", "-blocks", 6 if tier == "quick" else 8, "-out", tp], timeout=900)
        nagg = vlib.count_lines(tp)
        res = vlib.run_tlc("Trace_Agg", "Trace_Agg.cfg", data={"trace.ndjson": tp}, workers=4, timeout=1800, heap="8g")
        if res.error or not res.ok or res.distinct < nagg:
            raise vlib.Inconclusive("Trace_Agg failed: %s\n%s" % (res.error or res.violated, res.out[-2000:]))
        adrift = vlib.parse_tagged(res.prints, "DRIFT")
        if adrift:
            run.note("spec drift: the real AggregateWounds relays other wounds than FileWounds.tla's Agg on %d of %d sequences, e.g. %s" % (len(adrift), nagg, vlib.get_line(tp, adrift[0][0])))
        for ln, clauses in vlib.parse_viol(res.prints)[:5]:
            c = vlib.get_line(tp, ln)
            run.violation({"clauses": clauses, "scale": "aggregator"}, c,
                          "real AggregateWounds (limit %d) violates %s: in %s -> out %s" % (c["maxw"], clauses, [(w["kind"], w["start"], w["end"]) for w in c["inw"]], [(w["kind"], w["start"], w["end"]) for w in c["outw"]]))
        run.coverage["aggregator_sequences"] = nagg
        run.coverage["spec_drift"] = ndrift + len(adrift)
        vlib.log("[rp] %d wound sequences x limits through the real AggregateWounds, drift %d" % (nagg, len(adrift)))

        # (b) tree-level damage
        n = 240 if tier == "quick" else 5000
        total = wounds = 0
        kinds = {}
        for tp, cnt, res in pairs.run_shards(binary, d, ["c05-tree"], n, "Trace_Validator", "Trace_Validator.cfg", "tree", timeout=900 if tier == "quick" else 3300):
            if res is None:
                continue
            total += cnt
            wounds += sum(s[1] for s in vlib.parse_tagged(res.prints, "STAT"))
            for row in vlib.read_ndjson(tp):
                for dm in row["damage"]:
                    kinds[dm.split(":")[0]] = kinds.get(dm.split(":")[0], 0) + 1
            for ln, clauses in vlib.parse_viol(res.prints):
                c = vlib.get_line(tp, ln)
                bad = [f for f in c["files"] if f["ondisk"] != "file" or f["actual"] != f["signed"] or f["diffs"]]
                small = {"case": c["case"], "desc": c["desc"], "damage": c["damage"], "wounds": c["wounds"][:30], "failfast": c["failfast"], "err": c["err"][:300],
                         "damaged_files": bad[:8], "dirs": [x for x in c["dirs"] if x["ondisk"] != "dir"][:5], "syms": [x for x in c["syms"] if x["ondisk"] != "symlink:" + x["dest"]][:5], "seed": run.seed}
                run.violation({"clauses": clauses, "scale": "tree", "inverted_range": any(w["start"] > w["end"] for w in c["wounds"])}, small,
                              "real Validate violates %s on case %d after damage %s: wounds %s failfast=%s %s" % (clauses, c["case"], c["damage"], [(w["kind"], w["index"], w["start"], w["end"]) for w in c["wounds"][:6]], c["failfast"], c["err"][:120]))
        run.coverage["damaged_trees"] = total
        run.coverage["real_wounds_checked"] = wounds
        run.coverage["damage_kinds_applied"] = kinds
        run.coverage["traces_validated_against_impl"] = upairs + total + nagg
        vlib.log("[tv] %d damaged trees, %d wounds, damage kinds %s" % (total, wounds, sorted(kinds)))
        return run.finish()
    finally:
        shutil.rmtree(d, ignore_errors=True)


def replay(path):
    import json
    print(json.dumps(json.load(open(path)), indent=1)[:4000])
    return 0
