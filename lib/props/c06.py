"""C06 - healing from an archive restores any damaged directory to the signed build.

MC   spec/Heal.tla: validator pass (dirs -> symlinks -> files), FIFO wound channel, the healer's wound loop and its
     heal goroutine, all interleaved, over an abstract POSIX tree (ENOENT / ENOTDIR resolution, MkdirAll / RemoveAll
     semantics); tree x/, x/y/, x/y/f, x/g, symlink l; EVERY well-formed damaged disk (468, incl. 42 with a directory
     replaced by a symlink that resolves to a look-alike directory): Validate returns nil and
     the disk equals the signed build in every interleaving.
TV   the real Validate with an archive healer under seeded scheduling jitter (hooks in validator and healer) and
     GOMAXPROCS 1..16: (a) the model's tree with all 468 disks materialised; (b) generated builds (nested dirs,
     symlinks, empty files) with damage sequences as in C05 plus kind swaps that hide whole subtrees (directory ->
     file / symlink, file -> non-empty directory), missing and empty directories, and already valid directories
     (inode / mtime / size / mode of every entry must be unchanged).
"""
import os
import shutil

import pairs
import vlib

PROP = "C06"
NDISKS = 468   # harness/cmd/vdriver/c06.go modelDisks(); Heal.tla Init enumerates the same set


def run(tier):
    run = vlib.Run(PROP, tier, "model_checking")
    run.assumptions = [
        "the archive is a zip of the signed build written by the harness (archive/zip); zippool / eos are dependencies",
        "interleavings of the real goroutines are sampled through seeded jitter at the hooks; all interleavings only in the model",
        "a dangling symlink as an ancestor is ENOTDIR in the model (the real code sees ENOENT): conformance is on outcomes; a symlink that resolves to a look-alike directory is followed (kind 'symdir')",
    ]
    binary = vlib.build_harness()
    d = vlib.scratch("c06-")
    try:
        r = vlib.run_tlc("MC_Heal", "MC_Heal_quick.cfg", timeout=600 if tier == "quick" else 3300, heap="16g")
        if not vlib.require_clean(r, "MC Heal"):
            raise vlib.Inconclusive("MC Heal: %s violated in the model\n%s" % (r.violated, r.out[-3000:]))
        mc = [{"cfg": "MC_Heal_quick.cfg", **r.summary()}]
        # the model of the validator as found (it looks THROUGH a symlink that replaced a directory) must lose a subtree
        r0 = vlib.run_tlc("MC_Heal", "MC_Heal_quick.cfg", timeout=600, heap="8g", defines={"Repaired2": "FALSE"})
        if r0.error or r0.violated != "HealsEverything":
            raise vlib.Inconclusive("MC Heal with Repaired2=FALSE should violate HealsEverything, got %s %s" % (r0.violated, r0.error))
        mc.append({"cfg": "MC_Heal_quick.cfg", "defines": {"Repaired2": "FALSE"}, "expected_violation": "HealsEverything", **r0.summary()})
        run.coverage.update({"states": r.distinct, "transitions": r.generated, "mc_runs": mc})
        vlib.log("[mc] Heal: %d distinct, %d generated, %.1fs" % (r.distinct, r.generated, r.wall))
        reps = 1 if tier == "quick" else 6            # thorough: every disk under several schedules (seed offsets)
        plans = [(["c06", "-mode", "model"], NDISKS, 0, "model")]
        plans.append((["c06", "-mode", "tree"], 140 if tier == "quick" else 2800, 0, "tree"))
        total = swaps = 0
        for rep in range(reps):
            for args, n, first0, prefix in plans:
                if rep > 0 and prefix == "tree":
                    continue
                env_seed = run.seed + rep * 1000
                os.environ["VERIF_SEED"] = str(env_seed)
                try:
                    results = pairs.run_shards(binary, d, args, n, "Trace_Heal", "Trace_Heal.cfg", "%s%d" % (prefix, rep), first0=first0, nshards=14,
                                               timeout=900 if tier == "quick" else 3300)
                finally:
                    os.environ["VERIF_SEED"] = str(run.seed)
                for tp, cnt, res in results:
                    if res is None:
                        continue
                    total += cnt
                    swaps += sum(s[2] for s in vlib.parse_tagged(res.prints, "STAT"))
                    for ln, clauses in vlib.parse_viol(res.prints):
                        c = vlib.get_line(tp, ln)
                        small = {k: c[k] for k in ("case", "mode", "desc", "damage", "disk", "procs", "returned", "err", "aftererr", "valid", "dirswap", "leak")}
                        small["diff"] = c["diff"][:10]
                        small["changed"] = c["changed"][:10]
                        small["seed"] = env_seed
                        run.violation({"clauses": clauses, "dirswap": c["dirswap"], "valid": c["valid"]}, small,
                                      "heal violates %s on %s case %d (%s) damage=%s: err=%r diff=%s after=%r changed=%s"
                                      % (clauses, c["mode"], c["case"], c["desc"][:40], c["damage"][:4], c["err"][:120], c["diff"][:3], c["aftererr"][:80], c["changed"][:3]))
                    if total == cnt:
                        c = vlib.get_line(tp, 3)
                        run.sample({k: c[k] for k in ("case", "mode", "desc", "damage", "err", "diff")})
        run.coverage["heal_runs"] = total
        run.coverage["runs_with_a_non_directory_where_a_directory_is_expected"] = swaps
        run.coverage["model_disks_materialised"] = NDISKS
        run.coverage["traces_validated_against_impl"] = total
        vlib.log("[tv] %d real heals (%d with a non-directory hiding a subtree)" % (total, swaps))
        return run.finish()
    finally:
        shutil.rmtree(d, ignore_errors=True)


def replay(path):
    import json
    print(json.dumps(json.load(open(path)), indent=1)[:4000])
    return 0
