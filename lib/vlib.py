"""Common machinery for the wharf verification checks.

Everything a per-property module (lib/props/cNN.py) needs:
  * building the Go conformance harness against the repository's working tree
  * running TLC in a scratch directory (never inside /verif or /repo)
  * parsing TLC output (states, transitions, violations, coverage)
  * evidence files, replay files, known findings, verdict/exit policy
"""
import json
import os
import re
import shutil
import subprocess
import sys
import tempfile
import time

ROOT = os.path.dirname(os.path.dirname(os.path.abspath(__file__)))
SPEC = os.path.join(ROOT, "spec")
HARNESS = os.path.join(ROOT, "harness")
BUILD = os.path.join(ROOT, ".build")
EVIDENCE = os.environ.get("VERIF_EVIDENCE_DIR") or os.path.join(ROOT, "evidence")
REPLAYS = os.environ.get("VERIF_REPLAY_DIR") or os.path.join(ROOT, "replays")
REPO = os.environ.get("VERIF_REPO", "/repo")
TLA_CP = "/opt/veriftools/tla/tla2tools.jar:/opt/veriftools/tla/CommunityModules-deps.jar"
NCPU = os.cpu_count() or 4

EXIT_OK, EXIT_VIOLATION, EXIT_INCONCLUSIVE = 0, 1, 2


class Inconclusive(Exception):
    """The check could not reach a verdict (build failure, tool timeout, ...): exit 2."""


# ---------------------------------------------------------------- misc helpers

def log(*a):
    print(*a, flush=True)


def seed():
    try:
        return int(os.environ.get("VERIF_SEED", "1"))
    except ValueError:
        return 1


def scratch(prefix="verif-"):
    base = os.environ.get("VERIF_TMP") or tempfile.gettempdir()
    return tempfile.mkdtemp(prefix=prefix, dir=base)


def goenv():
    e = dict(os.environ)
    e["GOFLAGS"] = "-mod=mod"
    e["GOPROXY"] = "off"
    e.pop("GOTOOLCHAIN", None)   # auto: /repo/go.mod needs the cached go1.24 toolchain
    e.pop("GOSUMDB", None)
    return e


# ---------------------------------------------------------------- harness build

def _modfile():
    """Generate .build/go.mod + go.sum pointing at REPO (so a scratch worktree can be checked too)."""
    os.makedirs(BUILD, exist_ok=True)
    tag = re.sub(r"[^A-Za-z0-9]", "_", REPO)
    mod = os.path.join(BUILD, "go_%s.mod" % tag)
    src = open(os.path.join(HARNESS, "go.mod")).read()
    src = src.replace("=> /repo", "=> " + REPO)
    # carry over the repository's own requirements so that nothing has to be resolved
    req = []
    inreq = False
    for line in open(os.path.join(REPO, "go.mod")):
        s = line.strip()
        if s.startswith("require ("):
            inreq = True
            continue
        if inreq and s == ")":
            inreq = False
            continue
        if inreq and s:
            req.append("\t" + s.split("//")[0].strip())
    if req and "// repo-requirements" not in src:
        src += "\n// repo-requirements\nrequire (\n" + "\n".join(sorted(set(req))) + "\n)\n"
    with open(mod, "w") as f:
        f.write(src)
    with open(mod + ".tree", "w") as f:
        f.write(REPO)          # (lets _bindir sweep the modfiles of scratch trees that are gone)
    sums = open(os.path.join(REPO, "go.sum")).read()
    extra = os.path.join(HARNESS, "go.sum.extra")
    if os.path.exists(extra):
        sums += open(extra).read()
    with open(mod[:-4] + ".sum", "w") as f:
        f.write(sums)
    return mod


_BINDIR = None


def _bindir():
    """Per-process output directory for the driver binaries: checks running at the same time against different
    trees (VERIF_REPO) must never execute each other's build. Removed at exit; leftovers of dead processes are
    swept."""
    global _BINDIR
    if _BINDIR is None:
        os.makedirs(BUILD, exist_ok=True)
        for d in os.listdir(BUILD):
            m = re.match(r"bin-(\d+)$", d)
            if m and not os.path.exists("/proc/%s" % m.group(1)):
                shutil.rmtree(os.path.join(BUILD, d), ignore_errors=True)
        for d in os.listdir(BUILD):
            if d.startswith("go__tmp_") and d.endswith(".mod"):
                tf = os.path.join(BUILD, d + ".tree")
                tree = open(tf).read().strip() if os.path.exists(tf) else None
                if tree is None or not os.path.isdir(tree):
                    for x in (d, d + ".tree", d[:-4] + ".sum"):
                        try:
                            os.unlink(os.path.join(BUILD, x))
                        except OSError:
                            pass
        _BINDIR = os.path.join(BUILD, "bin-%d" % os.getpid())
        os.makedirs(_BINDIR, exist_ok=True)
        import atexit
        atexit.register(shutil.rmtree, _BINDIR, True)
    return _BINDIR


def build_harness(race=False, tags="verif"):
    """go build the vdriver against REPO's current working tree. Returns the binary path."""
    if os.environ.get("VERIF_COVER_BINARY") and not race and tags == "verif":
        # tools/covreport: a coverage-instrumented driver built inside a scratch worktree of the repository (Go only
        # instruments packages of the main module), to see which code the real-code sides of the checks execute
        return os.environ["VERIF_COVER_BINARY"]
    mod = _modfile()
    out = os.path.join(_bindir(), "vdriver" + ("-race" if race else "") + ("" if tags == "verif" else "-" + (tags or "notag")))
    cmd = ["go", "build", "-modfile=" + mod, "-o", out]
    if tags:
        cmd += ["-tags", tags]
    if race:
        cmd += ["-race"]
    cmd += ["./cmd/vdriver"]
    t0 = time.time()
    p = subprocess.run(cmd, cwd=HARNESS, env=goenv(), stdout=subprocess.PIPE, stderr=subprocess.STDOUT, text=True)
    if p.returncode != 0:
        raise Inconclusive("harness build failed (repo=%s):\n%s" % (REPO, p.stdout[-4000:]))
    log("[build] vdriver%s built from %s in %.1fs" % (" (race)" if race else "", REPO, time.time() - t0))
    return out


_FAST_TMP = None


def fast_tmp():
    """A RAM-backed scratch root for the drivers' directory trees (metadata-heavy work is ~20x faster there);
    falls back to the default temp dir. Removed at exit."""
    global _FAST_TMP
    if _FAST_TMP is None:
        _FAST_TMP = ""
        if not os.environ.get("VERIF_TMP") and os.path.isdir("/dev/shm") and os.access("/dev/shm", os.W_OK):
            try:
                _FAST_TMP = tempfile.mkdtemp(prefix="verif-", dir="/dev/shm")
                import atexit
                atexit.register(shutil.rmtree, _FAST_TMP, True)
            except OSError:
                _FAST_TMP = ""
    return _FAST_TMP


def run_driver(binary, args, timeout=3600, env=None, stdout_path=None, check=True, cwd=None):
    """Run the Go driver. Returns CompletedProcess; raises Inconclusive on timeouts / crashes if check."""
    e = dict(os.environ)
    e["VERIF_SEED"] = str(seed())
    e["VERIF_REPO_PATH"] = REPO
    if os.environ.get("VERIF_COVERDIR"):
        e["GOCOVERDIR"] = os.environ["VERIF_COVERDIR"]
    if fast_tmp():
        e["TMPDIR"] = fast_tmp()
    if env:
        e.update(env)
    so = open(stdout_path, "w") if stdout_path else subprocess.PIPE
    try:
        p = subprocess.run([binary] + [str(a) for a in args], env=e, stdout=so, stderr=subprocess.PIPE,
                           text=True, timeout=timeout, cwd=cwd)
    except subprocess.TimeoutExpired:
        raise Inconclusive("driver %s timed out after %ss" % (" ".join(map(str, args[:3])), timeout))
    finally:
        if stdout_path:
            so.close()
    if check and p.returncode != 0:
        raise Inconclusive("driver %s exited %d:\n%s" % (" ".join(map(str, args[:3])), p.returncode, (p.stderr or "")[-4000:]))
    return p


# ---------------------------------------------------------------- TLC

class TLCResult:
    def __init__(self):
        self.rc = None
        self.out = ""
        self.generated = 0
        self.distinct = 0
        self.depth = 0
        self.ok = False            # finished, no error
        self.violated = None       # name of violated invariant / property, or "deadlock", "assert", ...
        self.error = None          # tool error text (parse/eval error)
        self.trace = []            # counterexample states (list of dict var->text)
        self.coverage = {}         # action -> count (with -coverage)
        self.prints = []           # lines printed by PrintT (raw)
        self.wall = 0.0
        self.timed_out = False

    def summary(self):
        return {"generated": self.generated, "distinct": self.distinct, "depth": self.depth,
                "violated": self.violated, "wall_s": round(self.wall, 2)}


_STATE_RE = re.compile(r"^State (\d+): ?(.*)$")


def parse_tlc(out, res):
    m = None
    for m in re.finditer(r"(\d+) states generated, (\d+) distinct states found", out):
        pass
    if m:
        res.generated, res.distinct = int(m.group(1)), int(m.group(2))
    m = re.search(r"The depth of the complete state graph search is (\d+)", out)
    if m:
        res.depth = int(m.group(1))
    m = re.search(r"Invariant (\S+) is violated", out)
    if m:
        res.violated = m.group(1)
    if not res.violated:
        m = re.search(r"Action property (\S+) is violated", out)
        if m:
            res.violated = m.group(1)
    if not res.violated and "Temporal properties were violated" in out:
        res.violated = "temporal"
    if not res.violated and "Deadlock reached" in out:
        res.violated = "deadlock"
    if not res.violated:
        m = re.search(r"The postcondition (\S+)? ?(?:is|was) violated|Postcondition (\S+) violated|POSTCONDITION", out)
        if m and ("violated" in out[m.start():m.start() + 200] or "false" in out[m.start():m.start() + 200].lower()):
            res.violated = "postcondition"
    if not res.violated and re.search(r"The first argument of Assert evaluated to FALSE", out):
        res.violated = "assert"
    if res.violated is None and re.search(r"^Error: ", out, flags=re.M):
        res.error = out[out.index("Error: "):][:3000]
    # counterexample
    cur = None
    for line in out.splitlines():
        sm = _STATE_RE.match(line)
        if sm:
            cur = {"_n": int(sm.group(1)), "_action": sm.group(2), "_text": ""}
            res.trace.append(cur)
            continue
        if cur is not None:
            if line.strip() == "" or line.startswith("Finished") or re.match(r"^\d+ states generated", line) or line.startswith("Error:") or line.startswith("The "):
                if line.strip() == "":
                    cur = None if False else cur
                else:
                    cur = None
                continue
            cur["_text"] += line + "\n"
    for st in res.trace:
        for vm in re.finditer(r"^/\\ (\w+) = (.*?)(?=^/\\ \w+ = |\Z)", st["_text"], flags=re.M | re.S):
            st[vm.group(1)] = vm.group(2).strip()
        if "/\\" not in st["_text"]:
            vm = re.match(r"^(\w+) = (.*)$", st["_text"].strip(), flags=re.S)
            if vm:
                st[vm.group(1)] = vm.group(2).strip()
    # coverage: "<Action line 12, col 1 to line 20, col 30 of module X>: 12:345"
    for cm in re.finditer(r"^<(\w+) line \d+, col \d+ to line \d+, col \d+ of module (\w+)>: (\d+):(\d+)", out, flags=re.M):
        res.coverage[cm.group(2) + "." + cm.group(1)] = res.coverage.get(cm.group(2) + "." + cm.group(1), 0) + int(cm.group(4))
    res.ok = (res.violated is None and res.error is None and
              ("Model checking completed. No error has been found." in out or "Finished in" in out) and res.rc == 0)


def run_tlc(module, cfg, files=None, data=None, workers=None, timeout=900, heap="8g", stack="64m",
            coverage=False, deadlock=True, simulate=None, depth_first=False, extra=None, keep=False, defines=None):
    """Run TLC on spec/<module>.tla with spec/<cfg> in a scratch directory.

    files:  extra file names under spec/ to copy (default: every *.tla there)
    data:   {name: path-or-bytes} additional files copied/written into the scratch dir (traces)
    """
    res = TLCResult()
    d = scratch("tlc-")
    try:
        for fn in os.listdir(SPEC):
            if fn.endswith(".tla") or fn == cfg or (files and fn in files):
                shutil.copy(os.path.join(SPEC, fn), os.path.join(d, fn))
        for name, src in (data or {}).items():
            dst = os.path.join(d, name)
            if isinstance(src, bytes):
                with open(dst, "wb") as f:
                    f.write(src)
            elif isinstance(src, str) and os.path.exists(src):
                if os.path.abspath(src) != os.path.abspath(dst):
                    try:
                        os.link(src, dst)
                    except OSError:
                        shutil.copy(src, dst)
            else:
                with open(dst, "w") as f:
                    f.write(src)
        if defines:
            # textual constant overrides appended to a copy of the cfg:  {"CONSTANT": "value"}
            p = os.path.join(d, cfg)
            txt = open(p).read()
            for k, v in defines.items():
                txt, n = re.subn(r"(?m)^(\s*)%s\s*(=|<-).*$" % re.escape(k), r"\g<1>%s = %s" % (k, v), txt)
                if n == 0:
                    txt += "\nCONSTANT %s = %s\n" % (k, v)
            open(p, "w").write(txt)
        # (TLC unpacks its standard modules into java.io.tmpdir on every run: keep that inside the scratch dir)
        os.makedirs(os.path.join(d, "jtmp"), exist_ok=True)
        jopts = ["-XX:+UseParallelGC", "-Xmx" + heap, "-Xss" + stack, "-Djava.io.tmpdir=" + os.path.join(d, "jtmp")]
        if depth_first:
            jopts.append("-Dtlc2.tool.queue.IStateQueue=StateDeque")
        cmd = ["java"] + jopts + ["-cp", TLA_CP, "tlc2.TLC", "-workers", str(workers or "auto"),
                                  "-metadir", os.path.join(d, "meta"), "-config", cfg, "-noGenerateSpecTE"]
        if coverage:
            cmd += ["-coverage", "1"]
        if not deadlock:
            cmd += ["-deadlock"]
        if simulate:
            cmd += ["-simulate", simulate]
        if extra:
            cmd += extra
        cmd += [module + ".tla"]
        t0 = time.time()
        env = dict(os.environ)
        env.pop("JAVA_TOOL_OPTIONS", None)
        try:
            p = subprocess.run(cmd, cwd=d, stdout=subprocess.PIPE, stderr=subprocess.STDOUT, text=True,
                               timeout=timeout, env=env)
            res.rc, res.out = p.returncode, p.stdout
        except subprocess.TimeoutExpired as ex:
            res.timed_out = True
            res.out = (ex.stdout.decode() if isinstance(ex.stdout, bytes) else (ex.stdout or ""))
            res.rc = -1
        res.wall = time.time() - t0
        parse_tlc(res.out, res)
        res.prints = collect_prints(res.out)
        for tag in ("VIOL", "DRIFT", "OTHER"):
            want = len(re.findall(r'^<<\s*"%s",' % tag, res.out, flags=re.M))
            got = sum(1 for p in res.prints if p.startswith('<<"%s",' % tag))
            if want != got:
                res.ok = False
                res.error = "internal: %d %s reports in the TLC output but %d parsed" % (want, tag, got)
        if res.timed_out:
            res.ok = False
            res.error = "timeout after %ss" % timeout
        if "java.lang.OutOfMemoryError" in res.out or "StackOverflowError" in res.out:
            res.ok = False
            res.error = "JVM resource error: " + ("OutOfMemoryError" if "OutOfMemory" in res.out else "StackOverflowError")
            res.violated = None
        if keep:
            res.scratch = d
        return res
    finally:
        if not keep:
            shutil.rmtree(d, ignore_errors=True)


def collect_prints(out):
    """PrintT output `<<"TAG", ...>>`; TLC wraps and pads long values over several lines - rejoin and
    normalise them to the compact single-line form."""
    prints = []
    cur = None
    for line in out.splitlines():
        if cur is None:
            if re.match(r'^<<\s*"', line):
                cur = line
            else:
                continue
        else:
            cur += " " + line.strip()
        if cur.count("<<") <= cur.count(">>") and cur.count("{") <= cur.count("}") and cur.count("[") <= cur.count("]"):
            c = re.sub(r"\s+", " ", cur)
            c = re.sub(r"(<<|\{|\[) ", r"\1", c)
            c = re.sub(r" (>>|\}|\])", r"\1", c)
            prints.append(c)
            cur = None
        elif len(cur) > 4000000:
            cur = None
    return prints


def require_clean(res, what):
    """An MC run that is supposed to pass: anything else is inconclusive or a model-level finding."""
    if res.error and not res.violated:
        raise Inconclusive("%s: TLC error: %s\n%s" % (what, res.error, res.out[-3000:]))
    return res.violated is None and res.ok


# ---------------------------------------------------------------- findings / evidence / verdicts

def load_findings():
    # (VERIF_FINDINGS: another findings file - used once, with an empty 'open' list, to re-derive the list of shapes)
    p = os.environ.get("VERIF_FINDINGS") or os.path.join(ROOT, "known_findings.json")
    if not os.path.exists(p):
        return {"open": [], "fixed": []}
    return json.load(open(p))


def match_finding(prop, shape):
    """shape: dict describing the observed violation. An open finding matches when every key of its
    'shape' is present with an equal value in the observed shape."""
    for f in load_findings().get("open", []):
        if f.get("property") != prop:
            continue
        want = f.get("shape", {})
        if all(k in shape and shape[k] == v for k, v in want.items()):
            return f
    return None


CURRENT_RUN = None


class Run:
    """Book-keeping for one check run: violations, known findings, notes, evidence."""

    def __init__(self, prop, tier, level):
        global CURRENT_RUN
        CURRENT_RUN = self
        self.prop, self.tier, self.level = prop, tier, level
        self.t0 = time.time()
        self.violations = []      # (shape, replay_path)
        self.known = {}           # finding id -> count
        self.notes = []
        self.coverage = {"samples": []}
        self.assumptions = []
        self.seed = seed()
        import threading
        self._lock = threading.RLock()

    def note(self, msg):
        self.notes.append(msg)
        log("NOTE: " + msg)

    def sample(self, s, cap=6):
        if len(self.coverage["samples"]) < cap:
            self.coverage["samples"].append(s)

    def add(self, key, n=1):
        self.coverage[key] = self.coverage.get(key, 0) + n

    def replay_path(self, name):
        d = os.path.join(REPLAYS, self.prop)
        os.makedirs(d, exist_ok=True)
        return os.path.join(d, name)

    def violation(self, shape, replay_obj, what):
        """Report behaviour of the real code that violates the property. Known findings are matched first."""
        with self._lock:
            return self._violation(shape, replay_obj, what)

    def _violation(self, shape, replay_obj, what):
        f = match_finding(self.prop, shape)
        if f is not None:
            fid = f.get("id", "?")
            if fid not in self.known:
                log("KNOWN-FINDING: property=%s %s" % (self.prop, f.get("what", what)))
            self.known[fid] = self.known.get(fid, 0) + 1
            return False
        if len(self.violations) < 20:
            name = "%s-seed%d-%d.json" % (self.tier, self.seed, len(self.violations))
            path = self.replay_path(name)
            with open(path, "w") as fh:
                json.dump({"property": self.prop, "what": what, "shape": shape, "case": replay_obj}, fh, indent=1, default=str)
            log("VIOLATION property=%s replay=%s" % (self.prop, path))
            log("  what: " + what)
        else:
            path = None
        self.violations.append((shape, path))
        return True

    def finish(self):
        cov = self.coverage
        if not cov.get("samples"):
            cov["samples"] = ["(no case recorded)"]
        cov["known_findings_hit"] = self.known
        cov["notes"] = self.notes[:50]
        ev = {
            "property_id": self.prop,
            "tier": self.tier,
            "seed": self.seed,
            "level": self.level,
            "coverage": cov,
            "assumptions": self.assumptions,
            "wall_s": round(time.time() - self.t0, 2),
            "violations": len(self.violations),
        }
        os.makedirs(EVIDENCE, exist_ok=True)
        with open(os.path.join(EVIDENCE, self.prop + ".json"), "w") as f:
            json.dump(ev, f, indent=1, default=str)
        if self.violations:
            log("RESULT %s %s: %d violation(s)" % (self.prop, self.tier, len(self.violations)))
            return EXIT_VIOLATION
        log("RESULT %s %s: property held on everything explored (%.1fs)" % (self.prop, self.tier, time.time() - self.t0))
        return EXIT_OK


def read_ndjson(path):
    out = []
    with open(path) as f:
        for line in f:
            line = line.strip()
            if line:
                out.append(json.loads(line))
    return out


def write_ndjson(path, rows):
    with open(path, "w") as f:
        for r in rows:
            f.write(json.dumps(r, separators=(",", ":")) + "\n")


def shard_lines(path, n, outdir, prefix="shard"):
    """Split an NDJSON file round-robin into n files; returns paths and per-shard line maps."""
    outs = [open(os.path.join(outdir, "%s%02d.ndjson" % (prefix, i)), "w") for i in range(n)]
    maps = [[] for _ in range(n)]
    with open(path) as f:
        for i, line in enumerate(f):
            if not line.strip():
                continue
            outs[i % n].write(line)
            maps[i % n].append(i)
    for o in outs:
        o.close()
    return [o.name for o in outs], maps


# ---------------------------------------------------------------- trace-validation helpers

_VIOL_RE = re.compile(r'^<<"VIOL", (\d+), \{(.*)\}>>$')


def parse_viol(prints):
    """Lines printed by a trace spec's Report invariant: <<"VIOL", line, {"Clause", ...}>>."""
    out = []
    for p in prints:
        m = _VIOL_RE.match(p.strip())
        if m:
            out.append((int(m.group(1)), sorted(c.strip().strip('"') for c in m.group(2).split(",") if c.strip())))
    return out


def parse_tagged(prints, tag):
    """<<"TAG", a, b, ...>> -> list of lists of raw fields (ints where possible)."""
    out = []
    pre = '<<"%s", ' % tag
    for p in prints:
        p = p.strip()
        if p.startswith(pre) and p.endswith(">>"):
            fields = []
            for x in split_top(p[len(pre):-2]):
                x = x.strip()
                try:
                    fields.append(int(x))
                except ValueError:
                    fields.append(x.strip('"'))
            out.append(fields)
    return out


def split_top(s):
    """Split a TLA+ tuple body on top-level commas."""
    out, depth, cur, instr = [], 0, "", False
    i = 0
    while i < len(s):
        c = s[i]
        if instr:
            cur += c
            if c == '"':
                instr = False
        elif c == '"':
            instr = True
            cur += c
        elif c in "<{[(":
            depth += 1
            cur += c
        elif c in ">}])":
            depth -= 1
            cur += c
        elif c == "," and depth == 0:
            out.append(cur)
            cur = ""
        else:
            cur += c
        i += 1
    if cur.strip():
        out.append(cur)
    return out


def validate_trace(module, cfg, trace_path, expect_lines, what, workers=1, timeout=900, heap="6g", **kw):
    """Run a one-state-per-line trace spec. Returns (TLCResult, violations). Raises Inconclusive unless
    TLC consumed exactly the recorded lines (distinct states == lines)."""
    r = run_tlc(module, cfg, data={"trace.ndjson": trace_path}, workers=workers, timeout=timeout, heap=heap, **kw)
    if r.error or not r.ok:
        raise Inconclusive("%s: TLC did not finish cleanly: %s\n%s" % (what, r.error or r.violated, r.out[-2500:]))
    if expect_lines is not None and r.distinct != expect_lines:
        raise Inconclusive("%s: TLC saw %d states for %d recorded executions" % (what, r.distinct, expect_lines))
    return r, parse_viol(r.prints)


def count_lines(path):
    n = 0
    with open(path, "rb") as f:
        for line in f:
            if line.strip():
                n += 1
    return n


def get_line(path, lineno):
    """1-based line of an NDJSON file, parsed."""
    with open(path) as f:
        for i, line in enumerate(f, 1):
            if i == lineno:
                return json.loads(line)
    return None


def parallel(jobs, nproc=None):
    """Run callables in threads (they spawn subprocesses); returns results in order; re-raises the first error."""
    from concurrent.futures import ThreadPoolExecutor
    with ThreadPoolExecutor(max_workers=nproc or NCPU) as ex:
        futs = [ex.submit(j) for j in jobs]
        return [f.result() for f in futs]
