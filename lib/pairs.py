"""Shared orchestration for the build-pair level checks: run a pair-recording driver in parallel shards and
validate every shard with a one-state-per-line trace spec."""
import os

import vlib


def run_shards(binary, d, driver_args, ncases, module, cfg, prefix, nshards=None, tlc_workers=1, timeout=1200, first0=0, heap="4g"):
    """Yields (trace_path, nlines, TLCResult). driver_args must accept -n/-first/-out."""
    nshards = nshards or min(vlib.NCPU, max(1, ncases))
    per = (ncases + nshards - 1) // nshards
    jobs = []
    for k in range(nshards):
        lo = first0 + k * per
        n = min(per, first0 + ncases - lo)
        if n <= 0:
            continue

        def job(k=k, lo=lo, n=n):
            tp = os.path.join(d, "%s-%d.ndjson" % (prefix, k))
            vlib.run_driver(binary, list(driver_args) + ["-n", n, "-first", lo, "-out", tp], timeout=timeout)
            cnt = vlib.count_lines(tp)
            if cnt == 0:
                return tp, 0, None
            r = vlib.run_tlc(module, cfg, data={"trace.ndjson": tp}, workers=tlc_workers, timeout=timeout, heap=heap)
            if r.error or not r.ok:
                raise vlib.Inconclusive("%s: TLC failed on %s: %s\n%s" % (module, tp, r.error or r.violated, r.out[-2500:]))
            if r.distinct < cnt:
                raise vlib.Inconclusive("%s: %d lines recorded but only %d states" % (module, cnt, r.distinct))
            return tp, cnt, r
        jobs.append(job)
    return vlib.parallel(jobs, nproc=min(vlib.NCPU, 12))
