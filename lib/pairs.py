"""Shared orchestration for the build-pair level checks: run a pair-recording driver in parallel shards and
validate every shard with a one-state-per-line trace spec."""
import os

import vlib


def run_shards(binary, d, driver_args, ncases, module, cfg, prefix, nshards=None, tlc_workers=1, timeout=1200, first0=0, heap="4g"):
    """Yields (trace_path, nlines, TLCResult). driver_args must accept -n/-first/-out."""
    nshards = nshards or min(vlib.NCPU, max(1, ncases))
    per = (ncases + nshards - 1) // nshards
    jobs = []
    for k in range(nshards):
        lo = first0 + k * per
        n = min(per, first0 + ncases - lo)
        if n <= 0:
            continue

        def job(k=k, lo=lo, n=n):
            tp = os.path.join(d, "%s-%d.ndjson" % (prefix, k))
            p = vlib.run_driver(binary, list(driver_args) + ["-n", n, "-first", lo, "-out", tp], timeout=timeout, check=False)
            if p.returncode != 0:
                crash = real_crash(p.stderr or "")
                if crash is None or vlib.CURRENT_RUN is None:
                    raise vlib.Inconclusive("driver %s exited %d:\n%s" % (" ".join(map(str, driver_args[:3])), p.returncode, (p.stderr or "")[-4000:]))
                # the code under test killed the process on an input of the property's quantifier: that is behaviour
                # of the real code (the lines written before the crash are still validated)
                vlib.CURRENT_RUN.violation({"crash": True, "site": crash["site"]},
                                           {"driver": list(map(str, driver_args)), "first": lo, "n": n, "panic": crash["panic"], "stack": crash["stack"], "seed": vlib.CURRENT_RUN.seed},
                                           "the real code crashed the process (%s at %s) while the driver '%s' ran cases %d..%d" % (crash["panic"][:160], crash["site"], " ".join(map(str, driver_args[:2])), lo, lo + n - 1))
            cnt = vlib.count_lines(tp)
            if cnt == 0:
                return tp, 0, None
            r = vlib.run_tlc(module, cfg, data={"trace.ndjson": tp}, workers=tlc_workers, timeout=timeout, heap=heap)
            if r.error or not r.ok:
                raise vlib.Inconclusive("%s: TLC failed on %s: %s\n%s" % (module, tp, r.error or r.violated, r.out[-2500:]))
            if r.distinct < cnt:
                raise vlib.Inconclusive("%s: %d lines recorded but only %d states" % (module, cnt, r.distinct))
            return tp, cnt, r
        jobs.append(job)
    return vlib.parallel(jobs, nproc=min(vlib.NCPU, 12))


def real_crash(stderr):
    """A Go panic / fatal error whose first non-runtime frame lies in the repository under test (not in the harness)."""
    i = max(stderr.find("panic:"), stderr.find("fatal error:"))
    if i < 0:
        return None
    tail = stderr[i:]
    frames = [ln.strip() for ln in tail.splitlines() if ".go:" in ln and ln.startswith(("\t", " "))]
    for fr in frames:
        path = fr.split(" ")[0]
        if "/runtime/" in path or "/src/runtime" in path or "/src/sync/" in path or "/src/internal/" in path:
            continue
        if path.startswith(vlib.REPO + "/") or "github.com/itchio/wharf" in path:
            return {"panic": tail.splitlines()[0][:300], "site": path.replace(vlib.REPO + "/", ""), "stack": tail[:2500]}
        if "/verif/harness/" in path or "vdriver" in path:
            return None
    return None


def drive_marked(run, binary, d, base_args, first, n, tag, what, shape_of_crash, max_crashes=40, timeout=1200):
    """Runs a driver that writes the case being executed to a marker file (-marker). If the real code kills the
    process (panic in a goroutine, fatal error), the crash is reported as behaviour of the real code for that
    case and the driver is restarted behind it. Returns the trace files written."""
    import json
    outs = []
    marker = os.path.join(d, "marker-%s" % tag)
    end = first + n
    crashes = 0
    while first < end:
        outp = os.path.join(d, "%s-%d.ndjson" % (tag, len(outs)))
        p = vlib.run_driver(binary, list(base_args) + ["-n", end - first, "-first", first, "-marker", marker, "-out", outp], timeout=timeout, check=False)
        outs.append(outp)
        if p.returncode == 0:
            break
        try:
            m = json.loads(open(marker).read() or "null")
        except Exception:
            m = None
        if not m:
            raise vlib.Inconclusive("%s driver died without naming a case: rc=%d %s" % (what, p.returncode, (p.stderr or "")[:800]))
        stderr = p.stderr or ""
        i = stderr.find("panic:")
        if i < 0:
            i = stderr.find("fatal error:")
        panic = stderr[i:][:400] if i >= 0 else stderr[:400]
        site = ""
        for ln in stderr[i:].splitlines() if i >= 0 else []:
            if "/repo/" in ln or "itchio/wharf" in ln and ".go:" in ln:
                site = ln.strip().split(" ")[0]
                break
        shape = {"crash": True, "site": site.replace(vlib.REPO, "").lstrip("/")}
        shape.update(shape_of_crash(m, stderr))
        run.violation(shape, {"case": m, "panic": panic, "site": site, "kind": what, "seed": run.seed},
                      "the real code crashed the process (%s at %s) on %s" % (panic.splitlines()[0] if panic else "rc=%d" % p.returncode, site, json.dumps(m)[:300]))
        crashes += 1
        if crashes > max_crashes:
            raise vlib.Inconclusive("%s: more than %d crashes of the real code" % (what, max_crashes))
        first = m["id"] + 1
    return outs
