"""setup_cmd: build the harness once (warms the Go build cache) and make sure TLC starts."""
import vlib


def main():
    try:
        vlib.build_harness()
        r = vlib.run_tlc("MC_WsyncDiff", "MC_Smoke.cfg", timeout=300, workers=2)
        if not r.ok:
            print("TLC smoke test failed:\n" + r.out[-2000:])
            return 2
        print("setup ok: harness built, TLC runs (%d states)" % r.distinct)
        return 0
    except vlib.Inconclusive as ex:
        print("setup failed: %s" % ex)
        return 2
